#!/venv/bin/python
"""Regenerate a mutant patch against /repo HEAD from (file, old, new) replacements.

usage (from Python): mk(name, [(relfile, old, new), ...]) writes mutants/<name>.patch (or the
given output path) after checking that every 'old' occurs exactly once (count=1 is used).
A scratch worktree under /tmp is created and removed.
"""
import os
import subprocess
import sys
import tempfile


def mk(out, edits, count=1):
    wt = tempfile.mkdtemp(prefix="rv_mk_")
    os.rmdir(wt)
    subprocess.check_call(["git", "-C", "/repo", "worktree", "add", "-q", "--detach", wt, "HEAD"])
    try:
        for rel, old, new in edits:
            p = os.path.join(wt, rel)
            s = open(p).read()
            assert s.count(old) >= 1, "pattern not found in %s: %r" % (rel, old)
            assert s.count(old) == 1 or count, "ambiguous"
            s = s.replace(old, new, 1)
            open(p, "w").write(s)
            compile(s, p, "exec")
        diff = subprocess.check_output(["git", "-C", wt, "diff"], text=True)
        assert diff.strip()
        with open(out, "w") as f:
            f.write(diff)
        print("wrote", out)
    finally:
        subprocess.call(["git", "-C", "/repo", "worktree", "remove", "--force", wt])


if __name__ == "__main__":
    ns = {"mk": mk}
    exec(open(sys.argv[1]).read(), ns)
