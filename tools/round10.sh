#!/bin/bash
# usage: tools/round10.sh C01 C07 ...  -- confirm the three round-10 changes of each property
# (/tmp/seed10/<ID>/patch{1,2,3}.diff -> seeded/<ID>-{28,29,30}) and run the self-test on them
cd "$(dirname "$0")/.."
for ID in "$@"; do
  for i in 1 2 3; do
    [ -f /tmp/seed10/$ID/patch$i.diff ] || { echo "$ID-$((27+i)): no patch"; continue; }
    PIN=HEAD tools/confirm_seed.sh /tmp/seed10/$ID $i $ID-$((27+i)) 2>&1 | head -8
  done
  git -C /repo worktree remove --force /tmp/wt10_$ID 2>/dev/null
done
