#!/bin/bash
# usage: tools/run_all.sh quick|thorough [seed]   -- runs every check, prints one line each
tier=${1:-quick}; seed=${2:-0}
cd "$(dirname "$0")/.."
mkdir -p /tmp/rv_logs
for i in 01 02 03 04 05 06 07 08 09 10 11 12 13 14 15 16 17 18 19 20; do
  s=$(date +%s)
  VERIF_SEED=$seed ./check C$i --tier $tier > /tmp/rv_logs/${tier}_${seed}_C$i.log 2>&1; rc=$?
  e=$(date +%s)
  echo "C$i rc=$rc $((e-s))s $(grep -c '^KNOWN-FINDING' /tmp/rv_logs/${tier}_${seed}_C$i.log) known; $(grep -E '^C[0-9]+ tier' /tmp/rv_logs/${tier}_${seed}_C$i.log | cut -c1-160)"
done
