#!/bin/bash
# usage: tools/confirm_seed.sh <seed_out_dir> <i> <name>     e.g. /tmp/seed_out/C18 2 C18-2
# Confirms a sub-agent's seeded change in a scratch worktree of the PINNED commit:
# applies, full test suite green, demo FAILS; reverted, demo PASSES. Then stores it under
# /verif/seeded/<name>/ (patch.diff, demo.py, meta.json with what was run).
SRC="$1"; I="$2"; NAME="$3"; PIN="${PIN:-bc9989c}"   # PIN=HEAD for seeds made against the current tree
WT=/tmp/confirmwt_$$
git -C /repo worktree add -q --detach "$WT" $PIN || exit 3
trap 'git -C /repo worktree remove --force "$WT" >/dev/null 2>&1' EXIT
cd "$WT"
git apply "$SRC/patch$I.diff" || { echo "patch does not apply to pinned commit"; exit 4; }
T=$(PYTHONPATH="$WT" /venv/bin/python -m pytest -q -p no:cacheprovider --timeout=900 2>&1 | tail -1)
PYTHONPATH="$WT" /venv/bin/python "$SRC/demo$I.py" >/tmp/confirm_demo_with.txt 2>&1; RC_WITH=$?
git checkout -q -- .
PYTHONPATH="$WT" /venv/bin/python "$SRC/demo$I.py" >/tmp/confirm_demo_without.txt 2>&1; RC_WITHOUT=$?
echo "$NAME: tests: $T | demo with patch exit=$RC_WITH | demo without exit=$RC_WITHOUT"
if echo "$T" | grep -q "153 passed" && [ $RC_WITH -ne 0 ] && [ $RC_WITHOUT -eq 0 ]; then
    mkdir -p /verif/seeded/$NAME
    [ -f /verif/seeded/$NAME/patch.diff ] || cp "$SRC/patch$I.diff" /verif/seeded/$NAME/patch.diff
    [ "$PIN" = bc9989c ] && cp "$SRC/patch$I.diff" /verif/seeded/$NAME/patch_pinned.diff
    cp "$SRC/demo$I.py" /verif/seeded/$NAME/demo.py
    /venv/bin/python - "$SRC/meta$I.json" "/verif/seeded/$NAME/meta.json" "$T" $RC_WITH $RC_WITHOUT "$(git -C /repo rev-parse --short $PIN)" <<'PY'
import json,sys
src,dst,t,rw,rwo,pin=sys.argv[1:7]
try: m=json.load(open(src))
except Exception as e: m={"note":"sub-agent meta unreadable: %r"%e}
m["confirmed_by_lead"]={"pinned_commit":pin,"test_suite_with_patch":t,
  "demo_exit_with_patch":int(rw),"demo_exit_without_patch":int(rwo),
  "how":"tools/confirm_seed.sh: scratch worktree of the pinned commit, git apply, full pytest, demo, git checkout, demo"}
json.dump(m,open(dst,"w"),indent=1)
PY
    echo "  stored in /verif/seeded/$NAME"
else
    echo "  NOT CONFIRMED"; tail -5 /tmp/confirm_demo_with.txt; tail -5 /tmp/confirm_demo_without.txt
fi
