#!/bin/bash
# usage: tools/seedtest.sh <patch.diff> <ID> [<ID>...]
# Applies the patch to a scratch worktree of /repo HEAD (never to /repo itself while other
# jobs use it), runs the quick checks with LENA_REPO pointing there, reverts.
PATCH="$(realpath "$1")"; shift
WT=/tmp/seedwt_$$
git -C /repo worktree add -q --detach "$WT" HEAD || exit 3
trap 'git -C /repo worktree remove --force "$WT" >/dev/null 2>&1' EXIT
if ! git -C "$WT" apply "$PATCH" 2>/dev/null; then
    if ! git -C "$WT" apply --3way "$PATCH" 2>/dev/null; then
        echo "PATCH-DOES-NOT-APPLY $PATCH"; exit 4
    fi
fi
if [ -n "$RUN_TESTS" ]; then
    (cd "$WT" && PYTHONPATH="$WT" /venv/bin/python -m pytest -q -p no:cacheprovider --timeout=900 -x 2>&1 | tail -1)
fi
for ID in "$@"; do
    out=$(cd /verif && LENA_REPO="$WT" ./check "$ID" --tier "${TIER:-quick}" 2>&1)
    rc=$?
    echo "== $ID exit=$rc $(echo "$out" | grep -c '^VIOLATION') violation line(s)"
    echo "$out" | grep -A1 '^VIOLATION' | head -${SHOW:-6} | cut -c1-400
    [ $rc -eq 2 ] && echo "$out" | grep INCONCLUSIVE | head -3 | cut -c1-600
done
