"""pytest plugin: the repository's own tests as a second, human-written workload for the
live contracts and the RAISE monitor.

    RV_PLUGIN_CONTRACTS=C06,C07,C12,C20  RV_PLUGIN_OUT=<file>  \
        python -m pytest -p rv.pytest_plugin ...      (PYTHONPATH=<lena tree>:/verif)

C06  get_bin_on_value_1d / get_bin_on_value / histogram.fill contracts + conservation shadow
C07  intersection / difference / update_recursively / update_nested contracts
C12  histogram.scale / add / set_nevents, graph.scale contracts
C20  RAISE events inside lena code: NameError, UnboundLocalError, AttributeError on a lena module

Contracts report, they never raise: the tests run exactly as without the plugin.  What was
observed (evaluation counters, violations with the id of the test that was running) is written
to RV_PLUGIN_OUT at the end of the session.
"""
import json
import os
import re
import sys
from collections import Counter

import pytest

_which = [w for w in os.environ.get("RV_PLUGIN_CONTRACTS", "").split(",") if w]
_state = {"current": None, "violations": [], "raises": Counter(), "flagged": [],
          "outcomes": Counter(), "tests_with_evaluations": 0}
TOOL = 3
_LENA_DIR = None


def _drain(nodeid):
    from rv.monitors import contracts
    for v in contracts.drain():
        v["test"] = nodeid
        if len(_state["violations"]) < 400:
            _state["violations"].append(v)


def _install_raise_monitor():
    mon = sys.monitoring
    try:
        mon.use_tool_id(TOOL, "rv-plugin")
    except ValueError:
        return

    def on_raise(code, offset, exc):
        fn = code.co_filename
        if not fn.startswith(_LENA_DIR):
            return
        name = type(exc).__name__
        rel = "lena/" + fn[len(_LENA_DIR):]
        _state["raises"]["%s@%s:%s" % (name, rel, code.co_qualname)] += 1
        mech = None
        msg = str(exc)[:300]
        if name in ("NameError", "UnboundLocalError"):
            m = re.search(r"name '(\w+)' is not defined", msg) or \
                re.search(r"local variable '(\w+)'", msg)
            mech = "undefined-name:%s:%s:%s" % (rel, code.co_qualname, m.group(1) if m else "?")
        elif name == "AttributeError":
            m = re.match(r"(?:partially initialized )?module '(lena[.\w]*)' has no attribute "
                         r"'(\w+)'", msg)
            if m:
                mech = "unresolved-attribute:%s:%s:%s.%s" % (rel, code.co_qualname,
                                                             m.group(1), m.group(2))
        if mech and len(_state["flagged"]) < 200:
            _state["flagged"].append({"mech": mech, "test": _state["current"],
                                      "msg": "%s raised in %s:%s: %s"
                                             % (name, rel, code.co_qualname, msg)})

    mon.register_callback(TOOL, mon.events.RAISE, on_raise)
    mon.set_events(TOOL, mon.events.RAISE)


def pytest_configure(config):
    global _LENA_DIR
    import lena
    _LENA_DIR = os.path.realpath(lena.__path__[0]) + os.sep
    if "C06" in _which:
        from rv.props import _c06_monitor
        _c06_monitor.attach()
    if "C07" in _which:
        from rv.props import C07
        C07.setup_worker("quick")
    if "C12" in _which:
        from rv.props import _c12_contracts
        _c12_contracts.attach()
    if "C20" in _which:
        _install_raise_monitor()


@pytest.hookimpl(hookwrapper=True)
def pytest_runtest_protocol(item, nextitem):
    from rv.monitors import contracts
    _state["current"] = item.nodeid
    before = sum(contracts.evaluations.values())
    yield
    if sum(contracts.evaluations.values()) > before:
        _state["tests_with_evaluations"] += 1
    _drain(item.nodeid)
    _state["current"] = None


def pytest_runtest_logreport(report):
    if report.when == "call" or (report.when == "setup" and report.outcome != "passed"):
        _state["outcomes"][report.outcome] += 1


def pytest_sessionfinish(session, exitstatus):
    from rv.monitors import contracts
    _drain("<session end>")
    counters = Counter()
    if "C06" in _which:
        from rv.props import _c06_monitor
        counters.update({"c06_" + k: v for k, v in _c06_monitor.counters.items()})
    if "C12" in _which:
        from rv.props import _c12_contracts
        counters.update({"c12_" + k: v for k, v in _c12_contracts.counters.items()})
    out = {
        "contracts": _which,
        "evaluations": dict(contracts.evaluations),
        "counters": dict(counters),
        "violations": _state["violations"],
        "flagged_raises": _state["flagged"],
        "raises": dict(_state["raises"]),
        "outcomes": dict(_state["outcomes"]),
        "tests_with_evaluations": _state["tests_with_evaluations"],
        "exitstatus": int(exitstatus),
    }
    path = os.environ.get("RV_PLUGIN_OUT")
    if path:
        with open(path, "w") as f:
            json.dump(out, f, default=repr)
