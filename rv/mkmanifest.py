"""Regenerate MANIFEST.json from the property modules that exist."""
import importlib
import json
import os

HERE = os.path.dirname(os.path.dirname(os.path.abspath(__file__)))
BASELINE = ("cd /repo && /venv/bin/python -m pytest -ra -q -p no:cacheprovider "
            "--timeout=900 --continue-on-collection-errors")


def main():
    props = [json.loads(l) for l in open(os.path.join(HERE, "properties.jsonl"))]
    checks, na = [], []
    for p in props:
        pid = p["id"]
        if not os.path.exists(os.path.join(HERE, "rv", "props", pid + ".py")):
            na.append({"property_id": pid,
                       "reason": "check not built yet in this round (planned, see DESIGN.md section 2)"})
            continue
        mod = importlib.import_module("rv.props." + pid)
        checks.append({
            "property_id": pid,
            "quick_cmd": "./check %s --tier quick" % pid,
            "thorough_cmd": "./check %s --tier thorough" % pid,
            "evidence_file": "evidence/%s.json" % pid,
            "replay_cmd_template": "./check %s --replay {path}" % pid,
            "engine": "rv",
            "level_claimed": {
                "category": mod.LEVEL,
                "text": mod.LEVEL_TEXT,
                "design_ref": "DESIGN.md section 2, %s" % pid,
            },
            "level_note": mod.LEVEL_NOTE,
            "technique": mod.TECHNIQUE,
        })
    man = {
        "version": 1,
        "setup_cmd": "./check --setup",
        "hooks": {
            "guard": "LENA_VERIF",
            "enable": "none needed: every observation point is reachable from outside "
                      "(sys.monitoring, contract wrappers rebound from outside, audit hooks); ./check exports "
                      "LENA_VERIF=1 for future guarded hooks",
            "baseline_off_cmd": BASELINE,
            "source_commits": [],
            "add_only": True,
        },
        "engines": [{
            "name": "rv", "path": "rv/",
            "serves_properties": [c["property_id"] for c in checks],
            "kind_free_text": "runtime monitoring: the real lena code of /repo's working tree "
                              "is driven by generated/enumerated workloads in worker "
                              "processes while monitors (reference-model oracles, live "
                              "contracts, identity-graph walkers, sys.monitoring line/raise "
                              "events, audit hooks, probe iterators) watch every execution",
        }],
        "checks": checks,
        "not_applicable": na,
        "notes": "Exit 0 held / 1 violation (VIOLATION line) / 2 inconclusive. "
                 "Known findings: known_findings.json (matched by mechanism key).",
    }
    with open(os.path.join(HERE, "MANIFEST.json"), "w") as f:
        json.dump(man, f, indent=1)
    print("MANIFEST.json: %d checks, %d not applicable" % (len(checks), len(na)))


if __name__ == "__main__":
    main()
