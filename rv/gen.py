"""Serialisable recipes -> real lena elements and flows.

A recipe is a JSON list ``[kind, arg...]``.  Elements are built fresh from the
recipe each time (they are stateful).  All named callables are total and pure
and accept both bare data and ``(data, context)`` pairs, because a raising user
function makes differently driven pipelines legitimately differ.
"""
import copy
import random


def has_ctx(v):
    return isinstance(v, tuple) and len(v) == 2 and isinstance(v[1], dict)


def data_of(v):
    return v[0] if has_ctx(v) else v


def ctx_of(v):
    return v[1] if has_ctx(v) else {}


def _num(x):
    """Numeric view of arbitrary data (total)."""
    if isinstance(x, bool):
        return int(x)
    if isinstance(x, (int, float)):
        return x
    if isinstance(x, (tuple, list)):
        return sum(_num(y) for y in x)
    return 0


def mapd(f):
    def g(v):
        if has_ctx(v):
            return (f(v[0]), v[1])
        return f(v)
    return g


DATA_FUNCS = {
    "inc": lambda x: _num(x) + 1,
    "dbl": lambda x: _num(x) * 2,
    "neg": lambda x: -_num(x),
    "sq": lambda x: _num(x) * _num(x),
    "mod3": lambda x: _num(x) % 3,
    "add10": lambda x: _num(x) + 10,
    "half": lambda x: _num(x) // 2,
    "id": lambda x: x,
}
PREDS = {
    "even": lambda x: _num(x) % 2 == 0,
    "odd": lambda x: _num(x) % 2 == 1,
    "pos": lambda x: _num(x) > 0,
    "lt5": lambda x: _num(x) < 5,
    "mod3": lambda x: _num(x) % 3 == 0,
    "true": lambda x: True,
    "false": lambda x: False,
}


class Fn(object):
    """Value-level function (works on bare data and on pairs), named by a string; an object of
    a module-level class, so that elements built from it can be pickled as well as copied."""

    def __init__(self, name):
        self.name = name

    def __call__(self, v):
        name = self.name
        if name.startswith("tag:"):
            return (name[4:], v)
        if name.startswith("ctx:"):
            # set a context key (creates the pair if needed), in place like real elements
            key = name[4:]
            if has_ctx(v):
                v[1][key] = _num(v[0])
                return v
            return (v, {key: _num(v)})
        f = DATA_FUNCS[name]
        if has_ctx(v):
            return (f(v[0]), v[1])
        return f(v)

    def __repr__(self):
        return "Fn(%r)" % self.name


class Pred(object):
    def __init__(self, name):
        self.name = name

    def __call__(self, v):
        return PREDS[self.name](data_of(v))

    def __repr__(self):
        return "Pred(%r)" % self.name


class DataFn(object):
    """Getter of a Variable: a function of the data alone."""

    def __init__(self, name):
        self.name = name

    def __call__(self, d):
        return DATA_FUNCS[self.name](d)

    def __repr__(self):
        return "DataFn(%r)" % self.name


class StateCall(object):
    """A callable with state (a running index added to the data): each copy of an element
    holding it owns its own state."""

    def __init__(self):
        self.n = 0

    def __call__(self, v):
        self.n += 1
        if has_ctx(v):
            return (_num(v[0]) + 1000 * self.n, v[1])
        return _num(v) + 1000 * self.n


def func(name):
    return Fn(name)


def pred(name):
    return Pred(name)


class Tag(object):
    """Run element tagging every value with its branch (per-value, stateless)."""

    def __init__(self, tag):
        self.tag = tag

    def __call__(self, v):
        return (self.tag, v)


_SUBCLASSES = {}
_SELECTOR_SUBCLASS = []


def selector_subclass():
    import lena.flow
    if not _SELECTOR_SUBCLASS:
        class Above(lena.flow.Selector):
            """Selects values for which function(data) exceeds a threshold."""

            def __init__(self, function, threshold):
                super(Above, self).__init__(function)
                self._function = function
                self._threshold = threshold

            def __call__(self, value):
                return self._function(_num(data_of(value))) > self._threshold
        _SELECTOR_SUBCLASS.append(Above)
    return _SELECTOR_SUBCLASS[0]



def seq_subclass(mode):
    """A user's subclass of lena.core.Sequence with its own run(): an element with a run method
    like any other (its stream transformation is its run, not that of its parts)."""
    import lena.core
    if mode not in _SUBCLASSES:
        if mode == "rev":
            class ReversedOutput(lena.core.Sequence):
                def run(self, flow):
                    return iter(list(super(ReversedOutput, self).run(flow))[::-1])
            _SUBCLASSES[mode] = ReversedOutput
        else:
            class WithTerminator(lena.core.Sequence):
                def run(self, flow):
                    n = 0
                    for v in super(WithTerminator, self).run(flow):
                        n += 1
                        yield v
                    yield ("end-of-flow", n)
            _SUBCLASSES[mode] = WithTerminator
    return _SUBCLASSES[mode]


def build(r):
    """Build a fresh element from recipe *r*."""
    import lena.core
    import lena.flow
    import lena.math
    import lena.variables
    k = r[0]
    if k == "call":
        return func(r[1])
    if k == "statecall":
        return StateCall()
    if k == "var":
        return lena.variables.Variable(r[1], DataFn(r[2]), **(r[3] if len(r) > 3 else {}))
    if k == "filter":
        return lena.flow.Filter(pred(r[1]))
    if k == "filtersel":
        # an explicit Selector whose function raises on some values and which is told to
        # count an exception as "not selected": total again, however the Filter is driven
        p, mod = PREDS[r[1]], r[2]

        def raising_pred(v):
            d = data_of(v)
            if _num(d) % mod == 0:
                raise ValueError("predicate fails on %r" % (d,))
            return p(d)
        return lena.flow.Filter(lena.flow.Selector(raising_pred, raise_on_error=False))
    if k == "filtersub":
        # a user's subclass of Selector that overrides __call__ (applies the function to the
        # data part and compares the result with a threshold)
        return lena.flow.Filter(selector_subclass()(DataFn(r[1]), r[2]))
    if k == "slice":
        return lena.flow.Slice(*r[1])
    if k == "count":
        return lena.flow.Count(r[1])
    if k == "runif":
        return lena.flow.RunIf(pred(r[1]), *[build(e) for e in r[2]])
    if k == "reverse":
        return lena.flow.Reverse()
    if k == "end":
        return lena.flow.End()
    if k == "sum":
        return lena.math.Sum()
    if k == "dsum":
        return lena.math.DSum()
    if k == "mean":
        return lena.math.Mean(pass_on_empty=True)
    if k == "store":
        return lena.flow.StoreFilled(yield_as_a_group=bool(r[1]) if len(r) > 1 else True)
    if k == "fccount":
        return lena.core.FillCompute(lena.flow.Count(r[1]))
    if k == "seq":
        return lena.core.Sequence(*[build(e) for e in r[1]])
    if k == "seqsub":
        return seq_subclass(r[1])(*[build(e) for e in r[2]])
    if k == "split":
        kw = {}
        if len(r) > 2:
            kw["bufsize"] = r[2]
        if len(r) > 3:
            kw["copy_buf"] = r[3]
        return lena.core.Split([tuple(build(e) for e in br) for br in r[1]], **kw)
    if k == "print":
        return lena.flow.Print()
    if k == "updctx":
        import lena.context
        return lena.context.UpdateContext(r[1], r[2])
    raise ValueError("unknown element recipe %r" % (r,))


def build_flow(fr):
    """Flow recipe: list of ints or [int, contextdict]."""
    out = []
    for x in fr:
        if isinstance(x, list):
            out.append((x[0], copy.deepcopy(x[1])))
        else:
            out.append(x)
    return out


def rand_flow(rng, maxlen=8, ctx_prob=0.4):
    n = rng.randint(0, maxlen)
    withctx = rng.random() < ctx_prob
    fl = []
    for i in range(n):
        x = rng.randint(-3, 9)
        if withctx:
            c = {}
            if rng.random() < 0.7:
                c["i"] = i
            if rng.random() < 0.3:
                c["n"] = {"k": rng.randint(0, 2)}
            fl.append([x, c])
        else:
            fl.append(x)
    return fl


def freeze(v):
    """Canonical comparable/serialisable form of a value (tuples -> lists)."""
    if isinstance(v, tuple):
        return ["T"] + [freeze(x) for x in v]
    if isinstance(v, list):
        return ["L"] + [freeze(x) for x in v]
    if isinstance(v, dict):
        return {str(k): freeze(x) for k, x in sorted(v.items(), key=lambda kv: str(kv[0]))}
    if isinstance(v, (int, float, str, bool)) or v is None:
        return v
    if isinstance(v, (set, frozenset)):
        return ["S"] + sorted(repr(x) for x in v)
    return repr(v)


def rng_for(seed, *salt):
    return random.Random("%s/%s" % (seed, "/".join(str(s) for s in salt)))
