"""Driver: tiers, seeds, sharding, verdicts, evidence, VIOLATION lines.

A property module ``rv.props.<ID>`` provides

    ID, LEVEL, RULE, ASSUMPTIONS (list of str)
    ANCHORS      list of (relative file, first line, last line) - for coverage report
    MUST_REACH   list of "relative/file.py:qualname" code objects that must execute
    cases(tier, seed)   -> iterator of JSON-serialisable recipes (deterministic)
    run_case(recipe, obs)   - drives the real code, reports through obs
    MIN_NONTRIVIAL  {tier: n}  (optional)  fewer => inconclusive
    EXHAUSTIVE   {tier: bool} (optional)
    finish(tier, merged) (optional) - cross-case oracle executed in the driver

Exit codes: 0 held (possibly with KNOWN-FINDING lines), 1 violation, 2 inconclusive.
"""
import argparse
import hashlib
import importlib
import json
import os
import shutil
import subprocess
import sys
import tempfile
import time
from collections import Counter

HERE = os.path.dirname(os.path.dirname(os.path.abspath(__file__)))
REPO = os.path.realpath(os.environ.get("LENA_REPO", "/repo"))
ALL_IDS = ["C%02d" % i for i in range(1, 21)]
# evidence/ and replays/ describe /repo itself; a run against another tree (the mutant
# self-test sets LENA_REPO to a scratch worktree) writes under the git-ignored .scratch/
OUT_ROOT = HERE if REPO == "/repo" else os.path.join(HERE, ".scratch", "other_tree")


def recipe_hash(recipe):
    return hashlib.sha1(
        json.dumps(recipe, sort_keys=True, default=repr).encode()
    ).hexdigest()[:16]


def load_prop(pid):
    return importlib.import_module("rv.props." + pid)


def load_known():
    path = os.path.join(HERE, "known_findings.json")
    if not os.path.exists(path):
        return []
    with open(path) as f:
        return json.load(f).get("findings", [])


def executable_lines(relfile, lo, hi):
    """Line numbers in [lo, hi] of *relfile* that start a statement."""
    path = os.path.join(REPO, relfile)
    try:
        with open(path) as f:
            src = f.read()
        top = compile(src, path, "exec")
    except Exception:
        return set()
    lines = set()
    stack = [top]
    while stack:
        co = stack.pop()
        for _, _, ln in co.co_lines():
            if ln is not None and lo <= ln <= hi:
                lines.add(ln)
        for c in co.co_consts:
            if hasattr(c, "co_lines"):
                stack.append(c)
    return lines


def code_object_defined(spec):
    """Is 'relative/file.py:qualname' a code object of the current tree?"""
    relfile, _, qual = spec.partition(":")
    try:
        with open(os.path.join(REPO, relfile)) as f:
            top = compile(f.read(), relfile, "exec")
    except Exception:  # pylint: disable=broad-except
        return False
    stack = [top]
    while stack:
        co = stack.pop()
        if getattr(co, "co_qualname", co.co_name) == qual:
            return True
        stack.extend(c for c in co.co_consts if hasattr(c, "co_code"))
    return False


def run_workers(pid, tier, seed, jobs, timeout):
    scratch = tempfile.mkdtemp(prefix="rv_%s_" % pid)
    procs = []
    try:
        for k in range(jobs):
            out = os.path.join(scratch, "out_%d.json" % k)
            cmd = [sys.executable, "-B", "-m", "rv.worker", pid, tier,
                   str(seed), str(k), str(jobs), out]
            logf = open(os.path.join(scratch, "log_%d.txt" % k), "w")
            env = dict(os.environ, RV_PYMODE="")
            procs.append((k, out, logf,
                          subprocess.Popen(cmd, stdout=logf, stderr=subprocess.STDOUT,
                                           cwd=HERE, env=env)))
        # the same cases (every STRIDE-th) in other modes of the interpreter: assertions and
        # __debug__ blocks compiled away (python -O); warnings attributed to lena modules
        # turned into errors
        modes = [m for m in os.environ.get("VERIF_PYMODES", "O,W").split(",") if m]
        kmode = 2 if tier == "quick" else 4
        for mode in modes:
            for k in range(kmode):
                name = "%s%d" % (mode, k)
                out = os.path.join(scratch, "out_%s.json" % name)
                cmd = [sys.executable, "-B"] + (["-O"] if mode == "O" else []) + \
                    ["-m", "rv.worker", pid, tier, str(seed), str(k), str(kmode), out]
                logf = open(os.path.join(scratch, "log_%s.txt" % name), "w")
                env = dict(os.environ, RV_PYMODE=mode,
                           RV_MODE_STRIDE="4" if tier == "quick" else "2")
                procs.append((name, out, logf,
                              subprocess.Popen(cmd, stdout=logf, stderr=subprocess.STDOUT,
                                               cwd=HERE, env=env)))
        results = []
        problems = []
        deadline = time.time() + timeout
        for k, out, logf, p in procs:
            left = max(1.0, deadline - time.time())
            try:
                rc = p.wait(timeout=left)
            except subprocess.TimeoutExpired:
                p.kill()
                p.wait()
                problems.append("worker %s: wall-clock watchdog fired" % k)
                continue
            finally:
                logf.close()
            if rc != 0 or not os.path.exists(out):
                with open(logf.name) as f:
                    tail = f.read()[-3000:]
                problems.append("worker %s exited %s\n%s" % (k, rc, tail))
                continue
            with open(out) as f:
                results.append(json.load(f))
        return results, problems
    finally:
        for _, _, _, p in procs:
            if p.poll() is None:
                p.kill()
        shutil.rmtree(scratch, ignore_errors=True)


def merge(results):
    m = {"n_cases": 0, "nontrivial": set(), "violations": [], "counters": Counter(),
         "samples": [], "lines": {}, "raises": Counter(), "funcs": set(),
         "harness_errors": [], "extra": [], "max_case_s": 0.0}
    for r in results:
        m["n_cases"] += r["n_cases"]
        m["nontrivial"].update(r["nontrivial"])
        m["violations"].extend(r["violations"])
        m["counters"].update(r["counters"])
        m["samples"].extend(r["samples"])
        for f, ls in r["lines"].items():
            m["lines"].setdefault(f, set()).update(ls)
        m["raises"].update(r["raises"])
        m["funcs"].update(r["funcs"])
        m["harness_errors"].extend(r["harness_errors"])
        m["extra"].extend(r.get("extra", []))
        m["max_case_s"] = max(m["max_case_s"], r.get("max_case_s", 0.0))
    return m


def classify(pid, violations, known):
    """Split violations into (unknown, {mech: (entry, count)})."""
    open_by_mech = {}
    for k in known:
        if k["property"] == pid and k.get("status") == "open":
            for mech in k.get("mechs", [k["mech"]] if "mech" in k else []):
                open_by_mech[mech] = k
    unknown, seen = [], {}
    for v in violations:
        e = open_by_mech.get(v["mech"])
        if e is not None:
            seen.setdefault(v["mech"], [e, 0, v])[1] += 1
        else:
            unknown.append(v)
    return unknown, seen


def write_replay(pid, v):
    d = os.path.join(OUT_ROOT, "replays", pid)
    os.makedirs(d, exist_ok=True)
    h = recipe_hash({"r": v["recipe"], "m": v["mech"]})
    path = os.path.join(d, h + ".json")
    with open(path, "w") as f:
        json.dump(v, f, indent=1, sort_keys=True, default=repr)
    return path


def do_check(pid, tier, seed, jobs):
    t0 = time.time()
    prop = load_prop(pid)
    timeout = float(os.environ.get("VERIF_WATCHDOG_S", 1500 if tier == "quick" else 7200))
    results, problems = run_workers(pid, tier, seed, jobs, timeout)
    m = merge(results)
    inconclusive = list(problems)
    if m["harness_errors"]:
        inconclusive.append("harness errors: %d, first: %s"
                            % (len(m["harness_errors"]), m["harness_errors"][0]))
    if hasattr(prop, "finish"):
        # cross-case oracle in the driver process (may append violations)
        prop.finish(tier, m)

    # anchor coverage
    anchors = getattr(prop, "ANCHORS", [])
    reached = total = 0
    unreached = []
    for relfile, lo, hi in anchors:
        ex = executable_lines(relfile, lo, hi)
        hit = m["lines"].get(relfile, set()) & ex
        total += len(ex)
        reached += len(hit)
        for ln in sorted(ex - hit):
            unreached.append("%s:%d" % (relfile, ln))
    must = getattr(prop, "MUST_REACH", [])
    missing = [q for q in must if q not in m["funcs"]]
    # a code object that no longer exists in this tree (renamed / inlined by a refactoring)
    # cannot be demanded; only one that is still defined and was never executed means that
    # the workload lost its grip
    gone = [q for q in missing if not code_object_defined(q)]
    missing = [q for q in missing if q not in gone]
    if missing:
        inconclusive.append("anchored code never executed: %s" % missing)

    nontriv = len(m["nontrivial"])
    need = getattr(prop, "MIN_NONTRIVIAL", {}).get(tier, 2)
    if nontriv < need:
        inconclusive.append("only %d distinct non-trivial cases (< %d)" % (nontriv, need))
    for name in getattr(prop, "MUST_COUNT", []):
        if m["counters"].get(name, 0) == 0:
            inconclusive.append("deciding monitor '%s' observed nothing" % name)

    known = load_known()
    unknown, seen = classify(pid, m["violations"], known)

    by_entry = {}
    for mech, (entry, cnt, v) in sorted(seen.items()):
        by_entry.setdefault(id(entry), [entry, []])[1].append("%s x%d" % (mech, cnt))
    for entry, mechs in by_entry.values():
        print("KNOWN-FINDING: property=%s %s [observed this run: %s]"
              % (pid, entry["what"], "; ".join(mechs)))
    vio_paths = []
    by_mech = {}
    for v in unknown:
        by_mech.setdefault(v["mech"], []).append(v)
    for mech, vs in sorted(by_mech.items()):
        # smallest recipe first: the most readable witness
        vs.sort(key=lambda v: len(json.dumps(v["recipe"], default=repr)))
        path = write_replay(pid, vs[0])
        vio_paths.append(path)
        print("VIOLATION property=%s replay=%s" % (pid, path))
        print("  mech=%s cases=%d: %s" % (mech, len(vs), vs[0]["msg"][:600]))

    wall = time.time() - t0
    samples = m["samples"][:6] or [{"note": "no case executed"}]
    cov = {
        "evaluations": m["n_cases"],
        "distinct_nontrivial": nontriv,
        "rule": prop.RULE,
        "samples": samples,
        "exhaustive": bool(getattr(prop, "EXHAUSTIVE", {}).get(tier, False)),
        "monitor_counters": dict(sorted(m["counters"].items())),
        "exceptions_raised_in_lena": dict(sorted(m["raises"].items())),
        "anchor_lines_reached": reached,
        "anchor_lines_total": total,
        "anchor_lines_unreached": unreached[:60],
        "must_reach": must,
        "must_reach_missing": missing,
        "must_reach_no_longer_defined": gone,
        "known_findings_observed": {k: v[1] for k, v in seen.items()},
        "unknown_violation_mechs": {k: len(v) for k, v in by_mech.items()},
        "inconclusive_reasons": inconclusive,
        "workers": jobs,
        "slowest_case_s": m["max_case_s"],
        "lena_from": REPO,
    }
    if m["extra"]:
        cov["extra"] = m["extra"][:20]
    ev = {
        "property_id": pid, "tier": tier, "seed": seed, "level": prop.LEVEL,
        "coverage": cov,
        "assumptions": list(getattr(prop, "ASSUMPTIONS", [])),
        "wall_s": round(wall, 2),
        "violations": len(unknown),
    }
    os.makedirs(os.path.join(OUT_ROOT, "evidence"), exist_ok=True)
    with open(os.path.join(OUT_ROOT, "evidence", pid + ".json"), "w") as f:
        json.dump(ev, f, indent=1, sort_keys=True, default=repr)

    print("%s tier=%s seed=%d: %d cases, %d distinct non-trivial, %d monitor events, "
          "anchor lines %d/%d, %.1fs"
          % (pid, tier, seed, m["n_cases"], nontriv, sum(m["counters"].values()),
             reached, total, wall))
    if unknown:
        return 1
    if inconclusive:
        for r in inconclusive:
            print("INCONCLUSIVE property=%s: %s" % (pid, r[:3000]))
        return 2
    print("HELD property=%s on everything explored" % pid)
    return 0


def do_replay(pid, path):
    from rv import worker
    with open(path) as f:
        v = json.load(f)
    recipe = v["recipe"] if "recipe" in v and "mech" in v else v
    mode = v.get("pymode", "") if isinstance(v, dict) else ""
    if mode and os.environ.get("RV_PYMODE") != mode:
        # the witness was observed in another mode of the interpreter: replay it there
        cmd = [sys.executable, "-B"] + (["-O"] if mode == "O" else []) + \
            ["-m", "rv.harness", pid, "--replay", path]
        return subprocess.call(cmd, cwd=HERE, env=dict(os.environ, RV_PYMODE=mode))
    prop = load_prop(pid)
    worker.set_pymode()
    obs = worker.run_one(prop, recipe)
    known = load_known()
    unknown, seen = classify(pid, [dict(x, recipe=recipe) for x in obs.violations], known)
    print(json.dumps({"recipe": recipe, "violations": obs.violations,
                      "counters": obs.counters, "note": obs.note},
                     indent=1, default=repr))
    for mech, (entry, cnt, _) in seen.items():
        print("KNOWN-FINDING: property=%s %s" % (pid, entry["what"]))
    if unknown:
        print("VIOLATION property=%s replay=%s" % (pid, path))
        return 1
    print("replay: no (unknown) violation")
    return 0


def main(argv=None):
    ap = argparse.ArgumentParser()
    ap.add_argument("pid", nargs="?")
    ap.add_argument("--tier", default=os.environ.get("VERIF_TIER", "quick"),
                    choices=["quick", "thorough"])
    ap.add_argument("--seed", type=int, default=int(os.environ.get("VERIF_SEED", "0")))
    ap.add_argument("--jobs", type=int, default=0)
    ap.add_argument("--replay")
    ap.add_argument("--selftest", nargs="*")
    a = ap.parse_args(argv)
    if a.selftest is not None:
        from rv import selftest
        return selftest.main(a.selftest)
    if not a.pid:
        ap.error("property id required")
    if a.replay:
        return do_replay(a.pid, a.replay)
    jobs = a.jobs or int(os.environ.get("VERIF_JOBS", "0")) or \
        (8 if a.tier == "quick" else 16)
    return do_check(a.pid, a.tier, a.seed, jobs)


if __name__ == "__main__":
    sys.exit(main())
