"""Worker process: runs every K-th case of a property under the passive monitors."""
import json
import os
import re
import sys
import time
import traceback
import warnings
from collections import Counter

from rv.harness import REPO, recipe_hash, load_prop

LENA_DIR = os.path.join(REPO, "lena") + os.sep
VERIF_DIR = os.path.dirname(os.path.dirname(os.path.abspath(__file__))) + os.sep


class Obs(object):
    """What the oracles of one case report."""

    def __init__(self):
        self.violations = []
        self.nontrivial = False
        self.counters = Counter()
        self.note = None

    def fail(self, mech, msg, **detail):
        """Record a violation. *mech* names the mechanism (stable string used
        to match known findings), *msg* the human-readable witness."""
        self.violations.append({"mech": mech, "msg": str(msg)[:2000], "detail": detail})

    def count(self, name, n=1):
        self.counters[name] += n

    def check(self, cond, mech, msg, **detail):
        self.counters["oracle_evaluations"] += 1
        if not cond:
            self.fail(mech, msg, **detail)
        return cond


# ---------------------------------------------------------------- monitors
_lines = {}       # relfile -> set(lines)
_funcs = set()    # "relfile:qualname"
_raises = Counter()
_raise_log = []   # per-case list, reset by run_one
_undefined = {}   # mech -> message: NameError / UnboundLocalError / AttributeError on a lena module

TOOL = 3


def _install_monitors():
    mon = sys.monitoring
    try:
        mon.use_tool_id(TOOL, "rv")
    except ValueError:
        return
    E = mon.events

    def on_line(code, line):
        fn = code.co_filename
        if fn.startswith(LENA_DIR):
            rel = fn[len(REPO) + 1:]
            _lines.setdefault(rel, set()).add(line)
            _funcs.add(rel + ":" + code.co_qualname)
        return mon.DISABLE

    def on_raise(code, offset, exc):
        fn = code.co_filename
        if fn.startswith(LENA_DIR):
            name = type(exc).__name__
            rel = fn[len(REPO) + 1:]
            _raises["%s@%s:%s" % (name, rel, code.co_qualname)] += 1
            _raise_log.append((name, rel, code.co_qualname, str(exc)[:200]))
            # references to undefined names, wherever they are raised (property C20 reads
            # this list when it replays the other properties' workloads)
            if name in ("NameError", "UnboundLocalError"):
                msg = str(exc)
                m = re.search(r"name '(\w+)' is not defined", msg) or \
                    re.search(r"local variable '(\w+)'", msg)
                _undefined["undefined-name:%s:%s:%s"
                           % (rel, code.co_qualname, m.group(1) if m else "?")] = msg[:200]
            elif name == "AttributeError":
                msg = str(exc)
                m = re.match(r"(?:partially initialized )?module '(lena[.\w]*)' has no "
                             r"attribute '(\w+)'", msg)
                if m:
                    _undefined["unresolved-attribute:%s:%s:%s.%s"
                               % (rel, code.co_qualname, m.group(1), m.group(2))] = msg[:200]

    mon.register_callback(TOOL, E.LINE, on_line)
    mon.register_callback(TOOL, E.RAISE, on_raise)
    mon.set_events(TOOL, E.LINE | E.RAISE)


# ---------------------------------------------------------------- hang guard
# A case that is still running after GRACE seconds of wall clock is not judged by the
# clock: the alarm only switches on a LINE counter over lena code (own tool id), and the
# verdict "non-termination" is taken when the case executes HANG_STEPS further lena lines
# without finishing.  The witness names the code object that was looping.
HANG_TOOL = 5
HANG_GRACE_S = float(os.environ.get("VERIF_HANG_GRACE_S", "90"))
HANG_STEPS = int(os.environ.get("VERIF_HANG_STEPS", "4000000"))
_hang = {"armed": False, "steps": 0, "hangs": 0, "where": Counter()}


class CaseHang(BaseException):
    """BaseException: 'except Exception' inside lena or a harness cannot swallow it."""


def _hang_on_line(code, line):
    if not code.co_filename.startswith(LENA_DIR):
        return sys.monitoring.DISABLE
    _hang["steps"] += 1
    if _hang["steps"] % 1000 == 0:
        _hang["where"][(code.co_filename[len(REPO) + 1:], code.co_qualname)] += 1
    if _hang["steps"] > HANG_STEPS:
        _hang["steps"] = 0
        raise CaseHang()
    return None


def _hang_alarm(signum, frame):
    mon = sys.monitoring
    _hang["armed"] = True
    _hang["steps"] = 0
    _hang["where"].clear()
    try:
        mon.use_tool_id(HANG_TOOL, "rv-hang")
    except ValueError:
        pass
    mon.register_callback(HANG_TOOL, mon.events.LINE, _hang_on_line)
    mon.set_events(HANG_TOOL, mon.events.LINE)
    mon.restart_events()


def _hang_start():
    import signal
    signal.signal(signal.SIGALRM, _hang_alarm)
    grace = HANG_GRACE_S if _hang["hangs"] < 2 else min(HANG_GRACE_S, 10.0)
    signal.setitimer(signal.ITIMER_REAL, grace)


def _hang_stop():
    import signal
    signal.setitimer(signal.ITIMER_REAL, 0)
    if _hang["armed"]:
        mon = sys.monitoring
        mon.set_events(HANG_TOOL, 0)
        mon.register_callback(HANG_TOOL, mon.events.LINE, None)
        _hang["armed"] = False


def lena_frame(tb):
    """Innermost frame of *tb* that is lena code: (relfile, func, line) or None."""
    found = None
    for fs in traceback.extract_tb(tb):
        if fs.filename.startswith(LENA_DIR):
            found = (fs.filename[len(REPO) + 1:], fs.name, fs.lineno)
    return found


def run_one(prop, recipe):
    obs = Obs()
    del _raise_log[:]
    obs.raise_log = _raise_log
    _hang_start()
    try:
        if isinstance(recipe, dict) and recipe.get("k") == "repo-tests":
            from rv.props import _repo_tests
            _repo_tests.run(recipe, obs)
        else:
            prop.run_case(recipe, obs)
    except CaseHang:
        _hang_stop()
        _hang["hangs"] += 1
        top = _hang["where"].most_common(3)
        where = top[0][0] if top else ("?", "?")
        obs.fail("non-termination:%s:%s" % where,
                 "the case was still running after %.0f s and then executed more than %d "
                 "further lines of lena code without finishing; most of them in %s"
                 % (HANG_GRACE_S, HANG_STEPS, top))
    except Exception as exc:  # pylint: disable=broad-except
        tb = sys.exc_info()[2]
        lf = lena_frame(tb)
        text = "".join(traceback.format_exception(type(exc), exc, tb))[-1800:]
        if lf is not None:
            obs.fail("unexpected-exception:%s@%s:%s" % (type(exc).__name__, lf[0], lf[1]),
                     "exception escaped lena code: " + text)
        else:
            obs.note = "HARNESS-ERROR " + text
    finally:
        _hang_stop()
    return obs


def all_cases(prop, tier, seed):
    """The property's own cases, then (if it declares REPO_TESTS) the repository's test-suite
    run under that property's monitors: 1 hypothesis seed in the quick tier, 6 in thorough."""
    for recipe in prop.cases(tier, seed):
        yield recipe
    which = getattr(prop, "REPO_TESTS", None)
    if which:
        from rv.props import _repo_tests
        for j in range(1 if tier == "quick" else 6):
            yield _repo_tests.case(which, seed * 100 + j)


PYMODE_TEXT = {"O": "python -O (assertions and __debug__ blocks compiled away)",
               "W": "warnings attributed to lena modules turned into errors"}


HEAD_WARNINGS = [r"(ISlice|GroupPlots|Writer) is deprecated since Lena",
                 r"empty results produced in MapGroup",
                 r"\d+-dimensional hist_to_csv not implemented",
                 r".* should not be an absolute path",
                 r"the only element of Source is an iterable"]


def set_pymode():
    """Warning filters of this process; returns the interpreter mode it runs in."""
    mode = os.environ.get("RV_PYMODE", "")
    warnings.simplefilter("ignore")
    if mode == "W":
        warnings.filterwarnings("error", module=r"lena(\..*)?$")
        # the warnings the framework documents (unsupported input, deprecated names) stay
        # warnings: a user who turns them into errors has asked for those failures
        for msg in HEAD_WARNINGS:
            warnings.filterwarnings("ignore", message=msg)
    if mode == "O" and __debug__:
        raise RuntimeError("mode O requested but the interpreter runs with assertions on")
    return mode


def main(argv):
    pid, tier, seed, k, K, out = argv
    seed, k, K = int(seed), int(k), int(K)
    mode = set_pymode()
    stride = int(os.environ.get("RV_MODE_STRIDE", "1")) if mode else 1
    import lena  # noqa
    lena_path = os.path.realpath(lena.__path__[0])
    if lena_path != os.path.realpath(os.path.join(REPO, "lena")):
        raise RuntimeError("lena imported from %s, expected %s" % (lena_path, REPO))
    prop = load_prop(pid)
    _install_monitors()
    if hasattr(prop, "setup_worker"):
        prop.setup_worker(tier)
    n = 0
    max_case_s = 0.0
    nontrivial = set()
    violations = []
    counters = Counter()
    samples = []
    harness_errors = []
    max_per_mech = 25      # a frequent (e.g. known) mechanism must not crowd out a rare one
    per_mech = Counter()
    for i, recipe in enumerate(all_cases(prop, tier, seed)):
        if mode:
            # every stride-th case (which ones depends on the seed), shared among K workers
            if i % stride != seed % stride or (i // stride) % K != k:
                continue
            if isinstance(recipe, dict) and recipe.get("k") == "repo-tests":
                continue
            counters["cases_in_mode_" + mode] += 1
        elif i % K != k:
            continue
        if _hang["hangs"] >= 4:
            counters["cases_skipped_after_repeated_non_termination"] += 1
            continue
        n += 1
        t_case = time.perf_counter()
        obs = run_one(prop, recipe)
        max_case_s = max(max_case_s, time.perf_counter() - t_case)
        counters.update(obs.counters)
        if obs.nontrivial:
            nontrivial.add(recipe_hash(recipe))
        if obs.note and obs.note.startswith("HARNESS-ERROR"):
            if len(harness_errors) < 5:
                harness_errors.append({"recipe": recipe, "error": obs.note})
        for v in obs.violations:
            per_mech[v["mech"]] += 1
            if per_mech[v["mech"]] <= max_per_mech and len(per_mech) <= 400:
                if mode:
                    v = dict(v, pymode=mode, msg="[%s] %s" % (PYMODE_TEXT[mode], v["msg"]))
                violations.append(dict(v, recipe=recipe))
            counters["violations_total"] += 1
        if len(samples) < 2 and obs.nontrivial:
            samples.append({"recipe": recipe, "observed": dict(obs.counters),
                            "note": obs.note})
    extra = []
    if hasattr(prop, "teardown_worker"):
        extra = prop.teardown_worker(tier) or []
    res = {
        "n_cases": n, "nontrivial": sorted(nontrivial), "violations": violations,
        "counters": counters, "samples": samples,
        "lines": {f: sorted(ls) for f, ls in _lines.items()},
        "funcs": sorted(_funcs), "raises": _raises,
        "harness_errors": harness_errors, "extra": extra,
        "max_case_s": round(max_case_s, 3),
        "undefined_names_raised": _undefined,
    }
    with open(out, "w") as f:
        json.dump(res, f, default=repr)
    return 0


if __name__ == "__main__":
    sys.exit(main(sys.argv[1:]))
