"""Probe iterator / recording consumer on one logical clock, liveness census."""
import gc
import weakref


class PullBudgetExceeded(Exception):
    pass


class InjectedFault(Exception):
    """Raised by a Probe at a chosen pull (fault injection)."""


class InjectedInterrupt(KeyboardInterrupt):
    """Fault that is not an Exception (what Ctrl-C or sys.exit() inside an element raise)."""


class Token(object):
    """Unique weak-referenceable input value; ``n`` identifies it."""
    __slots__ = ("n", "__weakref__")

    def __init__(self, n):
        self.n = n

    def __repr__(self):
        return "T%d" % self.n

    def __eq__(self, other):
        return isinstance(other, Token) and other.n == self.n

    def __hash__(self):
        return hash(self.n)

    def __reduce__(self):
        return (Token, (self.n,))


class Trace(object):
    """Event log with a logical clock. Events are tuples (clock, kind, payload)."""

    def __init__(self):
        self.events = []
        self.clock = 0
        self.refs = []     # weakrefs of all tokens handed out

    def log(self, kind, payload=None):
        self.clock += 1
        self.events.append((self.clock, kind, payload))

    def alive(self):
        return sum(1 for r in self.refs if r() is not None)

    def count(self, kind):
        return sum(1 for e in self.events if e[1] == kind)


class Probe(object):
    """Instrumented input iterator.

    make(i) -> the i-th value (default Token(i)); n=None means infinite.
    budget: max pulls before PullBudgetExceeded; fault_at: pull index that raises.
    census: log number of alive tokens at each pull (tokens must be weakrefable).
    """

    def __init__(self, trace, n=None, make=None, budget=None, fault_at=None,
                 census=False, name="pull", fault_exc=None):
        self.trace = trace
        self.n = n
        self.make = make or Token
        self.budget = budget
        self.fault_at = fault_at
        self.fault_exc = fault_exc or InjectedFault
        self.census = census
        self.i = 0
        self.name = name
        self.exhausted = False

    def __iter__(self):
        return self

    def __next__(self):
        if self.n is not None and self.i >= self.n:
            if not self.exhausted:
                self.trace.log("eos", self.name)
            self.exhausted = True
            raise StopIteration
        if self.budget is not None and self.i >= self.budget:
            self.trace.log("budget", self.i)
            raise PullBudgetExceeded("pull %d exceeds budget %d" % (self.i, self.budget))
        if self.fault_at is not None and self.i == self.fault_at:
            self.trace.log("fault", self.i)
            self.i += 1
            raise self.fault_exc("injected at pull %d" % (self.i - 1))
        v = self.make(self.i)
        if self.census:
            tok = v
            while isinstance(tok, tuple):
                tok = tok[0]
            try:
                self.trace.refs.append(weakref.ref(tok))
            except TypeError:
                pass
            del tok
            self.trace.log(self.name, (self.i, self.trace.alive()))
        else:
            self.trace.log(self.name, (self.i, None))
        self.i += 1
        return v

    next = __next__


def census_now(trace):
    gc.collect()
    return trace.alive()
