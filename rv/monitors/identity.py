"""Identity-graph walker: ids of every mutable container reachable from a value."""


def mutable_ids(v, _seen=None, into=None):
    """Return {id: object} of every dict / list / set / bytearray (and objects with
    __dict__ that are not classes/functions/modules) reachable from *v* through
    dict values+keys, list/tuple/set items and instance attributes."""
    import types
    if into is None:
        into = {}
    if _seen is None:
        _seen = set()
    stack = [v]
    while stack:
        x = stack.pop()
        i = id(x)
        if i in _seen:
            continue
        _seen.add(i)
        if isinstance(x, dict):
            into[i] = x
            stack.extend(x.values())
            stack.extend(x.keys())
        elif isinstance(x, (list, set, bytearray)):
            into[i] = x
            if not isinstance(x, bytearray):
                stack.extend(x)
        elif isinstance(x, (tuple, frozenset)):
            stack.extend(x)
        elif isinstance(x, (str, bytes, int, float, complex, bool, type(None),
                            type, types.FunctionType, types.ModuleType,
                            types.BuiltinFunctionType, types.MethodType)):
            continue
        elif hasattr(x, "__dict__"):
            into[i] = x
            stack.extend(vars(x).values())
    return into


def shared(a, b):
    """Mutable objects reachable from both *a* and *b* (list of objects)."""
    ia = mutable_ids(a)
    ib = mutable_ids(b)
    return [ia[i] for i in ia if i in ib]
