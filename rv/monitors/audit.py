"""Audit-hook event log: file-system and process events, without mocking open().

sys.addaudithook hooks cannot be removed, so one hook is installed per process
and recording is switched on/off.  Events: ("open", path, mode), ("remove", path),
("rename", src, dst), ("mkdir", path), ("popen", argv), ("pickle.find_class", ...).
"""
import sys

_installed = False
_recording = False
_log = []
_prefix = None


def _hook(event, args):
    if not _recording:
        return
    try:
        if event == "open":
            path, mode, flags = args
            if isinstance(path, (str, bytes)):
                p = path if isinstance(path, str) else path.decode("utf8", "replace")
                if _prefix is None or p.startswith(_prefix) or not p.startswith("/"):
                    _log.append(("open", p, mode if mode is not None else "flags:%s" % flags))
        elif event == "os.remove":
            _log.append(("remove", str(args[0])))
        elif event == "os.rename":
            _log.append(("rename", str(args[0]), str(args[1])))
        elif event == "os.mkdir":
            _log.append(("mkdir", str(args[0])))
        elif event == "subprocess.Popen":
            _log.append(("popen", [str(a) for a in (args[1] or [])]))
        elif event == "os.utime":
            _log.append(("utime", str(args[0])))
        elif event == "shutil.rmtree":
            _log.append(("rmtree", str(args[0])))
    except Exception:  # pylint: disable=broad-except
        pass


def start(prefix=None):
    """Start recording. Only open() events under *prefix* (or relative paths) are kept."""
    global _installed, _recording, _prefix
    if not _installed:
        sys.addaudithook(_hook)
        _installed = True
    del _log[:]
    _prefix = prefix
    _recording = True


def stop():
    global _recording
    _recording = False
    return list(_log)


def snapshot():
    return list(_log)


def mark(label):
    """Insert a marker event (to attribute later events to a step)."""
    if _recording:
        _log.append(("mark", label))


def is_write_mode(mode):
    return isinstance(mode, str) and any(c in mode for c in "wax+")
