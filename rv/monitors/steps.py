"""Step budget: a source-free watchdog built on sys.monitoring LINE events.

with StepBudget([code objects or functions], budget) as sb: ...
raises StepBudgetExceeded from inside the monitored code after *budget* line
events, turning non-termination into a witness.  Uses its own tool id so it
coexists with the coverage/raise monitor of the worker.
"""
import sys

TOOL = 4


class StepBudgetExceeded(BaseException):
    """BaseException so that broad 'except Exception' in the code under test
    cannot swallow the watchdog."""


def _codes(objs):
    out = []
    for o in objs:
        if hasattr(o, "__func__"):
            o = o.__func__
        if hasattr(o, "__wrapped__"):
            o = o.__wrapped__
        co = getattr(o, "__code__", o)
        stack = [co]
        while stack:
            c = stack.pop()
            out.append(c)
            for k in c.co_consts:
                if hasattr(k, "co_code"):
                    stack.append(k)
    return out


class StepBudget(object):
    def __init__(self, funcs, budget):
        self.codes = _codes(funcs)
        self.budget = budget
        self.steps = 0
        self.fired = False

    def __enter__(self):
        mon = sys.monitoring
        try:
            mon.use_tool_id(TOOL, "rv-steps")
        except ValueError:
            pass

        def on_line(code, line):
            self.steps += 1
            if self.steps > self.budget:
                self.fired = True
                raise StepBudgetExceeded("more than %d line events in %s (line %d)"
                                         % (self.budget, code.co_qualname, line))
        mon.register_callback(TOOL, mon.events.LINE, on_line)
        for c in self.codes:
            mon.set_local_events(TOOL, c, mon.events.LINE)
        return self

    def __exit__(self, *exc):
        mon = sys.monitoring
        for c in self.codes:
            try:
                mon.set_local_events(TOOL, c, 0)
            except Exception:  # pylint: disable=broad-except
                pass
        mon.register_callback(TOOL, mon.events.LINE, None)
        try:
            mon.free_tool_id(TOOL)
        except Exception:  # pylint: disable=broad-except
            pass
        return False
