"""Live contracts on the real lena functions, attached from the harness.

attach(module, "name", wrapper_factory) replaces the function *at every binding
site* inside the loaded lena.* modules (``from m import f`` copies are found by
identity), counts evaluations and lets the conditions report through a callback
instead of raising (a raising contract would abort what it observes).
"""
import sys
from collections import Counter

evaluations = Counter()
_violations = []
_originals = []


def report(mech, msg, **detail):
    _violations.append({"mech": mech, "msg": str(msg)[:2000], "detail": detail})


def drain():
    out = list(_violations)
    del _violations[:]
    return out


def rebind_everywhere(original, replacement):
    """Replace every module-level (and class-level) binding of *original* in lena.*."""
    n = 0
    for name, mod in list(sys.modules.items()):
        if mod is None or not (name == "lena" or name.startswith("lena.")):
            continue
        for attr, val in list(vars(mod).items()):
            if val is original:
                setattr(mod, attr, replacement)
                _originals.append((mod, attr, original))
                n += 1
            elif isinstance(val, type) and getattr(val, "__module__", "").startswith("lena"):
                for cattr, cval in list(vars(val).items()):
                    if cval is original:
                        setattr(val, cattr, replacement)
                        _originals.append((val, cattr, original))
                        n += 1
    return n


def attach(owner, name, make_wrapper):
    """owner: module or class. make_wrapper(original) -> replacement callable.
    Returns number of binding sites rebound."""
    original = vars(owner)[name] if isinstance(owner, type) else getattr(owner, name)
    raw = original
    replacement = make_wrapper(raw)
    try:
        replacement.__wrapped__ = raw
        replacement.__name__ = getattr(raw, "__name__", name)
        replacement.__doc__ = getattr(raw, "__doc__", None)
    except Exception:  # pylint: disable=broad-except
        pass
    n = rebind_everywhere(original, replacement)
    if n == 0:
        setattr(owner, name, replacement)
        _originals.append((owner, name, original))
        n = 1
    return n


def detach_all():
    while _originals:
        owner, name, original = _originals.pop()
        setattr(owner, name, original)
