"""C20 - advertised names exist, elements work with only their subpackage
imported, no code path refers to an undefined name.

Everything is observed in FRESH child interpreters (rv/props/_c20_child.py),
never in the worker process, because the property is about what an interpreter
has imported.  Four monitors:

 (a) star import: ``from lena.X import *`` per subpackage; every name of
     ``__all__`` must be bound.
 (b) scenario table (rv/props/_c20_scenarios.py: every public name, representative
     and invalid arguments) executed in an interpreter that imported ONLY
     ``lena.X`` (thorough: also ``lena.Q`` first, for every other Q) and in one that
     imported the whole framework: the outcome records (repr of the result or
     exception type + message) must be equal; where the docstring documents a
     LenaException subclass for the arguments, that class must be raised.
 (c) RAISE monitor in every child (sys.monitoring, files under $LENA_REPO/lena):
     NameError, UnboundLocalError and AttributeError "module 'lena...' has no
     attribute" are violations wherever they are raised - also when lena
     catches them itself.
 (d) live-namespace audit: every function / method / nested code object of the
     loaded lena modules; each LOAD_GLOBAL / LOAD_NAME name is resolved against
     the function's live ``__globals__`` and builtins, each attribute chain on a
     lena module (``lena.flow.get_data``) against the live module objects.  Run in
     the fully imported interpreter (all modules) and in each "only lena.X"
     interpreter (modules of lena.X).  Python-2-only names in a code object that
     tests ``version_info`` are counted as exempt, not flagged.

The mechanism of a violation is the offending site:
    star-import:lena.math:linspace
    undefined-name:lena/flow/elements.py:RunningChunkBy.__init__:LenaTypeError
    unresolved-attribute:lena/context/update_context.py:UpdateContext.__call__:lena.flow
    wrong-exception:lena.core:FillRequestSeq:bad-kwarg:TypeError
    outcome-differs:lena.<pkg>:<name>:<label>
"""
import json
import os
import re
import shutil
import subprocess
import sys
import tempfile

ID = "C20"
REPO_TESTS = "C20"   # the repository's tests also run under this property's monitors
LEVEL = "fault_enumeration"
RULE = ("enumerated completely: 9 subpackages x star import; every public name of every "
        "subpackage (__all__ plus public names the package binds) x its scenario (3-14 labelled "
        "calls with representative and invalid arguments) x interpreter {only lena.X, whole "
        "framework} (thorough: also {lena.Q then lena.X} for the 8 other Q); live-namespace "
        "audit of every loaded function in 10 interpreters. One case = one subpackage "
        "(star, audit) or one (subpackage, name). Non-trivial: at least one label was compared "
        "in two interpreters / at least one function audited / the star import was executed")
ASSUMPTIONS = [
    "numpy and ROOT are absent: NumpyHistogram, ReadROOTFile, ReadROOTTree, WriteROOTTree, "
    "root_graph_errors, ROOTGraphErrors are imported and audited but not driven (recorded as "
    "skipped_needs_external)",
    "a scenario that needs an object of another subpackage imports it inside the child "
    "(placed last in the scenario)",
    "(d) inspects the live code objects of unexecuted branches; it is the one place where the "
    "check reads loaded code instead of executing it",
    "Python-2-only names (basestring, unicode, cPickle, reduce, izip_longest ...) in a code "
    "object that tests sys.version_info are exempt",
]
ANCHORS = [("lena/context/update_context.py", 170, 240), ("lena/context/elements.py", 33, 50),
           ("lena/flow/selectors.py", 160, 190), ("lena/flow/elements.py", 225, 250),
           ("lena/core/split.py", 74, 83), ("lena/math/__init__.py", 1, 17),
           ("lena/math/elements.py", 72, 117), ("lena/core/exceptions.py", 10, 71)]
MUST_REACH = [
    "lena/context/update_context.py:UpdateContext.__call__",
    "lena/context/elements.py:DeleteContext.__call__",
    "lena/flow/selectors.py:SelectContext.__call__",
    "lena/flow/elements.py:RunningChunkBy.__init__",
    "lena/core/split.py:LenaSplit.__init__",
    "lena/math/elements.py:Mean.compute",
]
MUST_COUNT = ["children_run", "labels_compared", "star_names_checked", "functions_audited",
              "names_resolved", "raise_events_in_children", "documented_exceptions_checked"]
MIN_NONTRIVIAL = {"quick": 150, "thorough": 150}
EXHAUSTIVE = {"quick": True, "thorough": True}
LEVEL_TEXT = ("Complete enumeration of the finite surface the property names: every subpackage's "
              "star import, every advertised or publicly bound name with a table of calls, every "
              "import order of the form 'only lena.X' (thorough: 'lena.Q, then lena.X'), all "
              "executed in fresh interpreters under a RAISE monitor; plus a live-namespace audit "
              "of every loaded function for names that nothing defines. Execution-based clauses "
              "cover the calls of the table only; the audit covers unexecuted branches by "
              "resolving their global names against the live program.")
LEVEL_NOTE = ("Trusts the scenario table (rv/props/_c20_scenarios.py) to be representative, the "
              "child protocol, and dis/sys.monitoring of the /venv interpreter. Elements that "
              "need numpy or ROOT are audited, not driven. An undefined name reached only through "
              "getattr/eval strings would escape (d); none is used in lena.")
TECHNIQUE = ("fresh-interpreter differential execution + RAISE event monitor + live-namespace "
             "audit of loaded code objects")

HERE = os.path.dirname(os.path.dirname(os.path.dirname(os.path.abspath(__file__))))
REPO = os.path.realpath(os.environ.get("LENA_REPO", "/repo"))
SUBPACKAGES = ["context", "core", "flow", "input", "math", "meta", "output", "structures",
               "variables"]
CHILD_TIMEOUT_S = 300     # watchdog only: expiry makes the run INCONCLUSIVE, never a verdict


# ------------------------------------------------------------------ child processes
def child(args):
    """Run one child interpreter; returns its result record (dict)."""
    scratch = tempfile.mkdtemp(prefix="rv_c20_")
    try:
        out = os.path.join(scratch, "result.json")
        args = dict(args, out=out)
        env = dict(os.environ)
        env.update({"PYTHONPATH": os.pathsep.join([REPO, HERE, os.path.join(HERE, ".deps")]),
                    "LENA_REPO": REPO, "PYTHONHASHSEED": "0", "PYTHONDONTWRITEBYTECODE": "1",
                    "TMPDIR": scratch})
        p = subprocess.run([sys.executable, "-B", "-W", "ignore", "-m", "rv.props._c20_child",
                            json.dumps(args)], env=env, cwd=scratch, capture_output=True,
                           text=True, timeout=CHILD_TIMEOUT_S)
        if not os.path.exists(out):
            raise RuntimeError("C20 child produced no result (rc=%s): %s"
                               % (p.returncode, p.stderr[-1500:]))
        with open(out) as f:
            res = json.load(f)
        if "child_error" in res:
            raise RuntimeError("C20 child failed: " + res["child_error"][-1500:])
        return res
    finally:
        shutil.rmtree(scratch, ignore_errors=True)


def merge_coverage(res, obs):
    """Hand the child's line / function coverage and raise statistics to the worker's
    evidence (the lena code ran in the child, not here)."""
    obs.count("children_run")
    obs.count("raise_events_in_children", sum(res.get("raise_counts", {}).values()))
    w = sys.modules.get("__main__")
    if w is None or not hasattr(w, "_funcs") or not hasattr(w, "_lines"):
        return
    try:
        w._funcs.update(res.get("funcs", []))
        for f, ls in res.get("lines", {}).items():
            w._lines.setdefault(f, set()).update(ls)
        for k, n in res.get("raise_counts", {}).items():
            w._raises[k] += n
    except Exception:  # pylint: disable=broad-except
        pass


_names_cache = {}


def public_names():
    """{pkg: [names]} of the tree under test, from one listing child."""
    if "names" not in _names_cache:
        names = {}
        for pkg in SUBPACKAGES:
            try:
                res = child({"mode": "star", "pkg": pkg})
                st = res["star"]
                ns = (set(st.get("names", [])) - set(st.get("modules", []))) | set(
                    n for n in st.get("unadvertised", []) if _is_public_binding(pkg, n))
                names[pkg] = sorted(ns)
            except Exception:  # pylint: disable=broad-except
                names[pkg] = None
        _names_cache["names"] = names
    return _names_cache["names"]


def _is_public_binding(pkg, name):
    # names the package binds without advertising them (e.g. lena.structures.ScaleTo,
    # lena.output.jinja_syntax_latex): exercised too; helper imports are not
    from rv.props import _c20_scenarios as S
    return name in S.SCEN.get(pkg, {})


def cases(tier, seed):
    from rv.props import _c20_scenarios as S
    for pkg in SUBPACKAGES:
        yield {"k": "star", "pkg": pkg}
    for pkg in SUBPACKAGES:
        # the same with the optional dependency absent (lena.output falls back to a stub)
        yield {"k": "star", "pkg": pkg, "hide": ["jinja2"]}
    for pkg in SUBPACKAGES + ["*"]:
        yield {"k": "audit", "pkg": pkg}
    # the workloads of the other nineteen properties, replayed under the RAISE monitor: a
    # NameError / UnboundLocalError / AttributeError on a lena module raised anywhere in them
    # is a reference to an undefined name on an executed path
    shards = 16 if tier == "quick" else 4
    for i in range(1, 20):
        yield {"k": "workload", "pid": "C%02d" % i, "shard": (seed + i) % shards,
               "shards": shards}
    names = public_names()
    for pkg in SUBPACKAGES:
        ns = names.get(pkg)
        if ns is None:          # the package does not even import: use the table
            ns = sorted(S.SCEN.get(pkg, {}))
        for n in ns:
            orders = [[]]
            if tier == "thorough":
                orders += [[q] for q in SUBPACKAGES if q != pkg]
            yield {"k": "scenario", "pkg": pkg, "name": n, "orders": orders}


# ------------------------------------------------------------------ oracles
FLAGGED = ("NameError", "UnboundLocalError")


def flagged_record(rec):
    """mech of an outcome record that is a reference to an undefined name, else None."""
    if rec[1] != "exc":
        return None
    typ, msg, site = rec[2], rec[4], rec[5]
    where = "%s:%s" % (site[0], site[1]) if site else "outside-lena"
    if typ in FLAGGED:
        m = re.search(r"name '(\w+)' is not defined", msg) or \
            re.search(r"local variable '(\w+)'", msg)
        return "undefined-name:%s:%s" % (where, m.group(1) if m else "?")
    if typ == "AttributeError":
        m = re.match(r"(?:partially initialized )?module '(lena[.\w]*)' has no attribute '(\w+)'",
                     msg)
        if m:
            return "unresolved-attribute:%s:%s.%s" % (where, m.group(1), m.group(2))
    return None


def report_raised(res, obs, seen, where):
    for typ, relfile, qualname, name, msg in res.get("raised", []):
        kind = "undefined-name" if typ in FLAGGED else "unresolved-attribute"
        mech = "%s:%s:%s:%s" % (kind, relfile, qualname, name)
        obs.count("flagged_raise_events")
        if mech in seen:
            continue
        seen.add(mech)
        obs.fail(mech, "RAISE monitor, %s: %s raised in %s:%s: %s"
                 % (where, typ, relfile, qualname, msg))


def comparable(rec):
    if rec[1] == "ok":
        return rec[:3]
    return [rec[0], "exc", rec[2], rec[4]]


def case_workload(r, obs):
    """One shard of another property's quick workload in a worker process; only what its RAISE
    monitor recorded about undefined names is read (its own verdicts are that check's)."""
    scratch = tempfile.mkdtemp(prefix="rv_c20_w_")
    try:
        out = os.path.join(scratch, "out.json")
        env = dict(os.environ)
        env.update({"PYTHONPATH": os.pathsep.join([REPO, HERE]), "LENA_REPO": REPO,
                    "PYTHONHASHSEED": "0", "PYTHONDONTWRITEBYTECODE": "1", "RV_PYMODE": ""})
        p = subprocess.run([sys.executable, "-B", "-m", "rv.worker", r["pid"], "quick", "0",
                            str(r["shard"]), str(r["shards"]), out], env=env, cwd=HERE,
                           capture_output=True, text=True, timeout=CHILD_TIMEOUT_S * 4)
        if not os.path.exists(out):
            raise RuntimeError("worker of %s produced no result (rc=%s): %s"
                               % (r["pid"], p.returncode, (p.stdout + p.stderr)[-1500:]))
        with open(out) as f:
            res = json.load(f)
    finally:
        shutil.rmtree(scratch, ignore_errors=True)
    obs.nontrivial = res["n_cases"] > 0
    obs.count("other_property_cases_replayed", res["n_cases"])
    obs.count("other_property_raise_events", sum(res["raises"].values()))
    obs.count("oracle_evaluations", sum(res["raises"].values()))
    for mech, msg in sorted(res.get("undefined_names_raised", {}).items()):
        obs.fail(mech, "RAISE monitor while the workload of %s ran: %s" % (r["pid"], msg))


def run_case(r, obs):
    k = r["k"]
    if k == "workload":
        return case_workload(r, obs)
    if k == "star":
        return case_star(r, obs)
    if k == "audit":
        return case_audit(r, obs)
    if k == "scenario":
        return case_scenario(r, obs)
    raise ValueError(k)


def case_star(r, obs):
    pkg = r["pkg"]
    hide = r.get("hide", [])
    res = child({"mode": "star", "pkg": pkg, "hide": hide})
    merge_coverage(res, obs)
    st = res["star"]
    if hide:
        obs.count("star_imports_with_optional_dependency_absent")
        pkg = "%s[without %s]" % (pkg, "+".join(hide))
    obs.nontrivial = True
    seen = set()
    report_raised(res, obs, seen, "from lena.%s import *" % pkg)
    if st.get("import", ["ok"])[0] != "ok":
        obs.fail("import-fails:lena.%s:%s" % (pkg, st["import"][1]),
                 "import lena.%s raised %s: %s" % (pkg, st["import"][1], st["import"][2]))
        return
    obs.count("star_names_checked", len(st["names"]))
    obs.count("packages_with___all__" if st["has_all"] else "packages_without___all__")
    for n in st["missing"]:
        obs.check(False, "star-import:lena.%s:%s" % (pkg, n),
                  "lena.%s.__all__ advertises %r, which lena.%s does not define; "
                  "'from lena.%s import *' gives %r" % (pkg, n, pkg, pkg, st["star"]))
    for n in st.get("shadowed_by_submodule", []):
        obs.check(False, "star-import:lena.%s:%s:bound-to-submodule" % (pkg, n),
                  "lena.%s.__all__ advertises %r; the name is bound to the submodule lena.%s.%s "
                  "(which itself defines %r), not to that object: the package no longer "
                  "imports it" % (pkg, n, pkg, n, n))
    for n in st["not_in_star_namespace"]:
        obs.check(False, "star-import:lena.%s:%s:not-bound" % (pkg, n),
                  "'from lena.%s import *' does not bind %r" % (pkg, n))
    if st["star"][0] != "ok" and not st["missing"]:
        obs.fail("star-import:lena.%s:%s" % (pkg, st["star"][1]),
                 "'from lena.%s import *' raised %s: %s" % (pkg, st["star"][1], st["star"][2]))
    obs.count("oracle_evaluations")
    if st["duplicates"]:
        obs.count("duplicate___all___entries", len(st["duplicates"]))


def case_audit(r, obs):
    pkg = r["pkg"]
    res = child({"mode": "audit", "pkg": pkg})
    merge_coverage(res, obs)
    au = res["audit"]
    stats = au["stats"]
    obs.count("functions_audited", stats["functions"])
    obs.count("names_resolved", stats["names_resolved"])
    obs.count("module_attributes_resolved", stats["module_attributes_resolved"])
    obs.count("modules_audited", stats["modules"])
    obs.nontrivial = stats["functions"] > 0
    where = "whole framework imported" if pkg == "*" else "only lena.%s imported (%s loaded)" \
        % (pkg, ",".join(res.get("loaded_subpackages", [])))
    seen = set()
    report_raised(res, obs, seen, where)
    for name, typ, msg in au["import_failures"]:
        obs.count("audit_module_not_importable:%s:%s" % (name, typ))
        if typ in FLAGGED + ("AttributeError", "ImportError") and "lena" in msg \
                and typ != "ModuleNotFoundError":
            obs.fail("import-fails:%s:%s" % (name, typ), "import %s raised %s: %s"
                     % (name, typ, msg))
    for f in au["findings"]:
        site = "%s:%s:%s" % (f["file"], f["qualname"], f["name"])
        if f["exempt"]:
            obs.count("exempt_python2_name:" + site)
            continue
        mech = "%s:%s" % (f["kind"], site)
        if mech in seen:
            continue
        seen.add(mech)
        if f["kind"] == "undefined-name":
            obs.check(False, mech,
                      "live-namespace audit (%s): %s line %s in %s loads the global name %r, "
                      "which neither the module's live namespace nor builtins define"
                      % (where, f["file"], f["line"], f["qualname"], f["name"]))
        else:
            obs.check(False, mech,
                      "live-namespace audit (%s): %s line %s in %s evaluates %s, but that "
                      "module attribute does not exist in this interpreter (nothing imported "
                      "it) and the function does not import it itself"
                      % (where, f["file"], f["line"], f["qualname"], f["name"]))
    obs.check(True, "audit-ran", "")


def case_scenario(r, obs):
    from rv.props import _c20_scenarios as S
    pkg, name = r["pkg"], r["name"]
    full = child({"mode": "scenario", "pkg": pkg, "name": name, "all": True})
    merge_coverage(full, obs)
    recs_all = dict((rec[0], rec) for rec in full["records"])
    if "#no-scenario" in recs_all:
        raise RuntimeError("lena.%s advertises/binds %r but rv/props/_c20_scenarios.py has no "
                           "scenario for it: extend the table" % (pkg, name))
    seen = set()
    report_raised(full, obs, seen, "lena.%s.%s, whole framework imported" % (pkg, name))
    if "#missing" in recs_all:
        obs.nontrivial = True
        obs.check(False, "star-import:lena.%s:%s" % (pkg, name),
                  "lena.%s advertises %r but has no such attribute" % (pkg, name))
        return
    if "#skipped" in recs_all:
        obs.count("skipped_needs_external:lena.%s.%s" % (pkg, name))
    expected = S.expected_of(pkg, name)

    # documented exceptions (judged in the fully imported interpreter)
    for label, exp in sorted(expected.items()):
        if exp is None or label not in recs_all:
            continue
        rec = recs_all[label]
        obs.count("documented_exceptions_checked")
        mech = flagged_record(rec)
        if mech is not None:
            if mech not in seen:
                seen.add(mech)
                obs.fail(mech, "lena.%s.%s scenario %r: documented %s, got %s: %s"
                         % (pkg, name, label, exp, rec[2], rec[4]))
            continue
        got = rec[2] if rec[1] == "exc" else "no-exception"
        ok = rec[1] == "exc" and exp in rec[3]
        obs.check(ok, "wrong-exception:lena.%s:%s:%s:%s" % (pkg, name, label, got),
                  "lena.%s.%s scenario %r: the docstring documents %s for these arguments, "
                  "observed %s" % (pkg, name, label, exp,
                                   ("%s: %s" % (rec[2], rec[4])) if rec[1] == "exc"
                                   else "result " + rec[2]))
    # undefined names reached in the fully imported interpreter
    for label, rec in sorted(recs_all.items()):
        mech = flagged_record(rec)
        if mech is not None and mech not in seen:
            seen.add(mech)
            obs.fail(mech, "lena.%s.%s scenario %r (whole framework imported): %s: %s"
                     % (pkg, name, label, rec[2], rec[4]))

    # only-this-subpackage interpreters against the fully imported one
    for pre in r["orders"]:
        only = child({"mode": "scenario", "pkg": pkg, "name": name, "pre": pre})
        merge_coverage(only, obs)
        how = "only lena.%s imported" % pkg if not pre else \
            "lena.%s then lena.%s imported" % (pre[0], pkg)
        how += " (loaded: %s)" % ",".join(only.get("loaded_subpackages", []))
        report_raised(only, obs, seen, "lena.%s.%s, %s" % (pkg, name, how))
        recs_only = dict((rec[0], rec) for rec in only["records"])
        for label in sorted(set(recs_all) | set(recs_only)):
            if label.startswith("#skipped"):
                continue
            a, o = recs_all.get(label), recs_only.get(label)
            obs.count("labels_compared")
            if not label.startswith("#"):
                obs.nontrivial = True
            if a is not None and o is not None and comparable(a) == comparable(o):
                continue
            mech = flagged_record(o) if o is not None else None
            if mech is None:
                mech = "outcome-differs:lena.%s:%s:%s" % (pkg, name, label)
            if mech in seen:
                obs.count("differences_explained_by_reported_site")
                continue
            seen.add(mech)
            obs.check(False, mech,
                      "lena.%s.%s scenario %r: with %s the outcome is %r, after importing the "
                      "whole framework it is %r"
                      % (pkg, name, label, how, comparable(o) if o else None,
                         comparable(a) if a else None), pre=pre)


RULE += (" Star imports are repeated with jinja2 hidden; advertised names bound to a same-named submodule are flagged; scenarios include partially resolvable static contexts for Write and Cache; the repository's tests run under the RAISE monitor.")
RULE += (' Added: long sessions - string-taking entry points (format_context, format_update_with, '
         'get_recursively, str_to_dict, UpdateContext, SetContext alone and in a Sequence, '
         'MakeFilename, Variable) called thousands of times with a distinct string each time in '
         'one interpreter.')
RULE += (' Added: Cache.drop_cache over something that exists where the cache should be and cannot '
         'be removed as a file (documented LenaEnvironmentError).')
