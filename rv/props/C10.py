"""C10 - selective elements pass the values they do not select through unchanged.

For every selective element E (ToCSV, Write, RenderLaTeX, LaTeXToPDF, PDFToPNG,
HistToGraph, MapBins, IterateBins, RunIf, MapGroup(map_scalars=False)) a case fixes
a list A of values E selects and a list B of values E does not select (the
unselected class is taken per element from E's own selection predicate) and runs the
REAL element on every interleaving of A and B (relative orders kept), each time in a
freshly reset scratch directory and with fresh element and value objects.  Monitors:

  * identity recorder: the outputs that are B objects (``is``) must be exactly B, each
    once, in B's order;
  * snapshot comparison: every B object (data, context, attributes) is deep-equal to
    its snapshot taken before the run;
  * audit-hook log with a marker per pulled input value: while an unselected value
    is being processed no file is opened for writing, no directory made, nothing
    removed/renamed and no process launched; the file tree after the run equals the
    tree after running A alone;
  * the outputs for A (everything that is not a B object) equal the outputs of
    running A alone (as a multiset for LaTeXToPDF, whose completion order is a
    process schedule).
Converters are the stub scripts of ``_out_stubs``.
"""
import copy
import itertools
import os
import shutil
import tempfile

from rv import gen

ID = "C10"
LEVEL = "exploration"
RULE = ("per element configuration (21 configurations of the 10 selective elements): A = "
        "ordered selection of 0..2 (quick) / 0..3 (thorough) values from the element's pool "
        "of selected values, B = ordered selection of 1..2 (quick) / 1..3 (thorough; size 3 "
        "sampled by seed) from the element's pool of unselected values (bare numbers, None, "
        "strings, tuples, lists, dicts, foreign objects, pairs with unrelated / empty / "
        "disabling context, values of the wrong file type); one case = one A with a chunk of "
        "<=8 B lists and runs ALL interleavings of A with each B plus A alone (for A=[]: "
        "every single unselected value and the whole pool at once). Non-trivial: the case "
        "ran at least 2 interleavings containing unselected values")
ASSUMPTIONS = [
    "values the element selects and values it does not select are classified by the "
    "element's own documented predicate (a bare string IS selected by Write; only the "
    "literal False disables via output.write / output.to_csv / histogram.to_graph)",
    "converters are stub scripts; reading a file or stat-ing a path is not counted as "
    "touching the file system (only open-for-writing, mkdir, remove, rename, Popen)",
    "selected values of one case name distinct files, so their outputs cannot depend on "
    "each other through the file system",
    "user callables inside RunIf / MapBins / MapGroup are total, pure and per-value",
]
ANCHORS = [("lena/output/to_csv.py", 247, 337), ("lena/output/write.py", 180, 284),
           ("lena/output/render_latex.py", 196, 228), ("lena/output/latex_to_pdf.py", 71, 175),
           ("lena/output/pdf_to_png.py", 78, 107), ("lena/structures/elements.py", 77, 116),
           ("lena/structures/split_into_bins.py", 94, 131),
           ("lena/structures/split_into_bins.py", 212, 270),
           ("lena/flow/elements.py", 215, 220), ("lena/flow/group_plots.py", 154, 218)]
MUST_REACH = ["lena/output/to_csv.py:ToCSV.run", "lena/output/write.py:Write.run",
              "lena/output/write.py:Write.run.<locals>.is_writable",
              "lena/output/render_latex.py:RenderLaTeX.run",
              "lena/output/latex_to_pdf.py:LaTeXToPDF.run",
              "lena/output/pdf_to_png.py:PDFToPNG.run",
              "lena/structures/elements.py:HistToGraph.run",
              "lena/structures/split_into_bins.py:MapBins.run",
              "lena/structures/split_into_bins.py:IterateBins.run",
              "lena/flow/elements.py:RunIf.run", "lena/flow/group_plots.py:MapGroup.run"]
MUST_COUNT = ["interleavings_run", "identity_checks", "snapshot_checks",
              "audit_marks_for_unselected_values", "selected_output_comparisons",
              "file_tree_comparisons"]
MIN_NONTRIVIAL = {"quick": 300, "thorough": 2500}
EXHAUSTIVE = {"quick": False, "thorough": False}
LEVEL_TEXT = ("Systematic exploration: for each of the ten selective elements every "
              "interleaving of small lists of selected and unselected values (all ordered "
              "selections of size <=2 from per-element pools, size 3 in the thorough tier) is "
              "run on the real element; identity, snapshot, audit-log and metamorphic "
              "(outputs for A independent of B) oracles watch every run. Held on the "
              "interleavings executed; says nothing about value kinds outside the pools.")
LEVEL_NOTE = ("Trusts the CPython audit hook (open/mkdir/remove/rename/Popen events), the stub "
              "converters and the deep-equality snapshots (objects are compared by type, "
              "__dict__ and repr).")
TECHNIQUE = ("metamorphic relation run(interleave(A,B)) = interleave(run(A), B) checked by "
             "identity recorder, snapshots and audit-hook log on all interleavings")


# ------------------------------------------------------------------ foreign objects
class Foreign(object):
    """An object lena knows nothing about."""

    def __init__(self, tag):
        self.tag = tag
        self.payload = {"k": [1, 2, 3]}

    def __repr__(self):
        return "Foreign(%r, %r)" % (self.tag, self.payload)


class WritesItself(object):
    """Data with a method write(filepath) (selected by Write)."""

    def __init__(self, text):
        self.text = text

    def write(self, filepath):
        with open(filepath, "w") as f:
            f.write("SELF:" + self.text)

    def __repr__(self):
        return "WritesItself(%r)" % self.text


def _inc_value(v):
    if isinstance(v, tuple) and len(v) == 2 and isinstance(v[1], dict):
        return (v[0] + 1, v[1])
    return v + 1


def _tag_ran(v):
    return ("ran", v)


def _big_int(v):
    d = v[0] if (isinstance(v, tuple) and len(v) == 2 and isinstance(v[1], dict)) else v
    return isinstance(d, int) and not isinstance(d, bool) and d >= 100


def _double(x):
    return x * 2


def _small_bin(b):
    """select_bins predicate that is not a type test: small integer contents."""
    d = b[0] if (isinstance(b, tuple) and len(b) == 2 and isinstance(b[1], dict)) else b
    return isinstance(d, int) and not isinstance(d, bool) and d < 10


def _last_bin(struct):
    """A user's get_example_bin: the LAST bin of a 1-d histogram / array of bins."""
    import lena.structures
    bins = struct.bins if isinstance(struct, lena.structures.histogram) else struct
    while isinstance(bins, list):
        bins = bins[-1]
    return bins


def _hist_of_small_hists(b):
    import lena.structures
    d = b[0] if (isinstance(b, tuple) and len(b) == 2 and isinstance(b[1], dict)) else b
    return isinstance(d, lena.structures.histogram) and d.bins[0] < 10


# ------------------------------------------------------------------ value builders
# Every builder returns a FRESH value. *env* gives the scratch paths.
class FalsyPredicate(object):
    """A callable selector object that is false in a boolean context (it has a length, 0):
    perfectly good as a predicate."""

    def __init__(self, f):
        self._f = f

    def __call__(self, b):
        return self._f(b)

    def __len__(self):
        return 0


import collections as _collections
Record = _collections.namedtuple("Record", ["name", "write", "size"])


class FlagHolder(object):
    """Data with non-callable attributes named like methods other elements look for."""
    write = True
    run = None
    fill = 0
    scale = 2.5

    def __repr__(self):
        return "FlagHolder()"


def _hist1(v=3):
    import lena.structures
    return lena.structures.histogram([0, 1, 2], [v, v + 1])


def _hist_ctxbins():
    import lena.structures
    return lena.structures.histogram(
        [0, 1, 2], [(2, {"variable": {"name": "n", "type": "count", "count": {"name": "n"}}}),
                    (5, {"variable": {"name": "n", "type": "count", "count": {"name": "n"}}})])


def _hist_float():
    import lena.structures
    return lena.structures.histogram([0, 1, 2], [0.5, 1.5])


def _hist_nd_listbins(dim):
    import lena.structures
    edges = [[0, 1, 2]] + [[0, 1]] * (dim - 1)
    bins = [3, 7]
    cell = lambda k: [k, 2 * k]
    b = [cell(1), cell(2)]
    for _ in range(dim - 1):
        b = [[x] for x in b]
    return lena.structures.histogram(edges, b)


def _hist_nd_int(dim):
    import lena.structures
    edges = [[0, 1, 2]] + [[0, 1]] * (dim - 1)
    b = [3, 4]
    for _ in range(dim - 1):
        b = [[x] for x in b]
    return lena.structures.histogram(edges, b)


def _not_big(v):
    return not _big_int(v)


def _hist2():
    import lena.structures
    return lena.structures.histogram([[0, 1, 2], [0, 1]], [[1], [2]])


def _hist3():
    import lena.structures
    return lena.structures.histogram([[0, 1], [0, 1], [0, 1]], [[[1]]])


def _histhist(ctx_in_bins=False):
    import lena.structures
    a, b = _hist1(5), _hist1(7)
    if ctx_in_bins:
        return lena.structures.histogram([0, 1, 2], [(a, {"inner": 1}), (b, {"inner": 1})])
    return lena.structures.histogram([0, 1, 2], [a, b])


def _dd(d):
    import collections
    out = collections.defaultdict(dict)
    for k, v in d.items():
        out[k] = _dd(v) if isinstance(v, dict) else v
    return out


def _graph():
    import lena.structures
    return lena.structures.graph([[0, 1], [2, 3]])


def _mixed_hist(bins):
    import lena.structures
    return lena.structures.histogram([0, 1, 2], list(bins))


def _histhist_big():
    import lena.structures
    return lena.structures.histogram([0, 1, 2], [_hist1(50), _hist1(70)])


COMMON_B = {
    "int0": lambda env: 0,
    "int": lambda env: 7,
    "float": lambda env: 2.5,
    "none": lambda env: None,
    "true": lambda env: True,
    "str": lambda env: "a plain string",
    "tuple3": lambda env: (1, 2, 3),
    "tuple2": lambda env: (1, 2),
    "tuple1dict": lambda env: ({"a": 1},),
    "list": lambda env: [1, 2],
    "dict": lambda env: {"a": 1},
    "pair_unrelated": lambda env: (3, {"foo": {"bar": 1}}),
    "pair_empty": lambda env: (4, {}),
    "pair_other_output": lambda env: (5, {"output": {"filetype": "zzz", "filename": "nofile",
                                                     "changed": True}}),
    "pair_list_data": lambda env: ([1, 2], {"foo": 1}),
    # a context that is a dict subclass with __missing__: looking at it must not add keys
    "pair_defaultdict": lambda env: (6, _dd({"foo": {"bar": 1}})),
    "record_write_field": lambda env: Record("n", True, 3),
    "record_write_field_pair": lambda env: (Record("rec", True, 3),
                                            {"output": {"filename": "rec"}}),
    "flag_holder_pair": lambda env: (FlagHolder(), {"output": {"filename": "flags"}}),
    "foreign": lambda env: Foreign("bare"),
    "foreign_pair": lambda env: (Foreign("paired"), {"x": {"y": 2}}),
}

SPECIFIC = {
    # ---- unselected values specific to some element
    "hist_nocsv": lambda env: (_hist1(), {"output": {"to_csv": False}}),
    "graph_nocsv": lambda env: (_graph(), {"output": {"to_csv": False}, "k": 1}),
    "hist3d": lambda env: (_hist3(), {"dim": 3}),
    "str_nowrite": lambda env: ("must not be written", {"output": {"write": False,
                                                                 "filename": "forbidden"}}),
    "selfwriter_nowrite": lambda env: (WritesItself("no"), {"output": {"write": False,
                                                                     "filename": "forbidden2"}}),
    "written_path": lambda env: (os.path.join(env["out"], "done.txt"),
                                 {"output": {"filename": "done", "fileext": "txt",
                                             "filepath": os.path.join(env["out"], "done.txt"),
                                             "changed": False}}),
    "num_named": lambda env: (5, {"output": {"filename": "numfile"}}),
    "tex_value": lambda env: (os.path.join(env["work"], "b.tex"),
                              {"output": {"filetype": "tex", "changed": True}}),
    "pdf_value": lambda env: (os.path.join(env["work"], "b.pdf"),
                              {"output": {"filetype": "pdf", "changed": True}}),
    "csv_value": lambda env: (os.path.join(env["work"], "b.csv"),
                              {"output": {"filetype": "csv", "filepath": "b.csv"}}),
    "png_value": lambda env: (os.path.join(env["work"], "b.png"),
                              {"output": {"filetype": "png", "changed": True}}),
    # ---- unselected values that carry the option keys the element reads for selected ones
    "pair_dup_true": lambda env: (5, {"output": {"duplicate_last_bin": True}}),
    "pair_dup_false": lambda env: (6, {"output": {"duplicate_last_bin": False}}),
    "hist_nocsv_dup_true": lambda env: (_hist1(), {"output": {"to_csv": False,
                                                               "duplicate_last_bin": True}}),
    "hist_nocsv_dup_false": lambda env: (_hist1(), {"output": {"to_csv": False,
                                                                "duplicate_last_bin": False}}),
    # data equal to the path Write computes from the context: "already written, skipped";
    # the directory of that path does not exist (and must not be made for a skipped value)
    "written_path_newdir": lambda env: (
        os.path.join(env["out"], "newdir", "sub", "done2.txt"),
        {"output": {"filename": "done2", "fileext": "txt",
                    "dirname": os.path.join("newdir", "sub")}}),
    "str_nowrite_newdir": lambda env: ("not to be written", {"output": {
        "write": False, "filename": "f", "dirname": "nd2"}}),
    "num_newdir": lambda env: (5, {"output": {"filename": "n", "dirname": "nd3"}}),
    "pair_template_key": lambda env: (7, {"output": {"template": "missing.tex",
                                                     "filetype": "txt"}}),
    # first bin int, last bin float (and the reverse): which one decides is the element's
    # get_example_bin option
    "hist_int_float": lambda env: _mixed_hist([3, 4.5]),
    "hist_int_float_pair": lambda env: (_mixed_hist([7, 0.5]), {"variable": {"name": "m"}}),
    "A_hist_float_int": lambda env: _mixed_hist([3.5, 4]),
    "A_hist_float_int_pair": lambda env: (_mixed_hist([1.5, 6]), {"plot": {"name": "m"}}),
    "hist_big": lambda env: _hist1(50),
    "hist_big_pair": lambda env: (_hist1(60), {"variable": {"name": "y"}}),
    "histhist_big": lambda env: _histhist_big(),
    "hist": lambda env: _hist1(),
    "hist_pair": lambda env: (_hist1(), {"variable": {"name": "x"}}),
    "hist_float": lambda env: (_hist_float(), {"h": 1}),
    # histograms of 4 and 5 dimensions whose bins are lists [entries, sum]
    "hist4d_listbins": lambda env: (_hist_nd_listbins(4), {"h": 4}),
    "hist5d_listbins": lambda env: (_hist_nd_listbins(5), {"h": 5}),
    "hist2d_listbins": lambda env: (_hist_nd_listbins(2), {"h": 2}),
    "A_hist4d": lambda env: (_hist_nd_int(4), {"plot": {"name": "h4"}}),
    "hist_nograph": lambda env: (_hist1(), {"histogram": {"to_graph": False}}),
    # bins that are (data, context) pairs, as SplitIntoBins yields them
    "hist_ctxbins_nograph": lambda env: (_hist_ctxbins(), {"histogram": {"to_graph": False}}),
    "A_hist_ctxbins": lambda env: (_hist_ctxbins(), {"plot": {"name": "cb"}}),
    "graph_pair": lambda env: (_graph(), {"g": 1}),
    "small_int": lambda env: (99, {"sel": {"no": 1}}),
    "group_scalar": lambda env: (5, {"group": [{"a": 1}]}),
    # scalars whose context.group is the user's own key (a label, a number, names)
    "group_label_scalar": lambda env: (6, {"group": "signal"}),
    "group_number_scalar": lambda env: (7, {"group": 3}),
    "group_names_scalar": lambda env: (8, {"group": ["a", "b"]}),
    "group_dict_scalar": lambda env: (9, {"group": {"name": "g"}}),
    "no_sel_key": lambda env: (100, {"other": 1}),
    # ---- selected values
    "A_hist": lambda env: _hist1(),
    "A_hist_pair": lambda env: (_hist1(4), {"plot": {"name": "h"}}),
    "A_hist_float": lambda env: (_hist_float(), {"histogram": {"to_graph": True}}),
    "A_hist2": lambda env: (_hist2(), {"output": {"duplicate_last_bin": False}}),
    "A_graph": lambda env: (_graph(), {"plot": {"name": "g"}}),
    "A_text_a": lambda env: ("text a", {"output": {"filename": "fa"}}),
    "A_text_b": lambda env: ("text b", {"output": {"filename": "fb", "dirname": "d/e",
                                                   "changed": True}}),
    "A_text_c": lambda env: ("text c", {"output": {"filename": "fc", "fileext": "dat"},
                                        "z": 1}),
    "A_bare_text": lambda env: "bare text goes to the default file",
    "A_selfwriter": lambda env: (WritesItself("me"), {"output": {"filename": "self"}}),
    "A_csv1": lambda env: (os.path.join(env["work"], "one.csv"),
                           {"output": {"filetype": "csv",
                                       "filepath": os.path.join(env["work"], "one.csv")},
                            "plot": {"name": "one"}}),
    "A_csv2": lambda env: (os.path.join(env["work"], "two.csv"),
                           {"output": {"filetype": "csv",
                                       "filepath": os.path.join(env["work"], "two.csv"),
                                       "changed": True},
                            "plot": {"name": "two"}}),
    "A_csv3": lambda env: ("csv text itself", {"output": {"filetype": "csv", "filepath": "rel.csv"},
                                               "plot": {"name": "three"}}),
    # csv values that name their own template (the element's default one does not exist)
    "A_csv_own1": lambda env: (os.path.join(env["work"], "one.csv"),
                               {"output": {"filetype": "csv", "template": "t.tex",
                                           "filepath": os.path.join(env["work"], "one.csv")},
                                "plot": {"name": "one"}}),
    "A_csv_own2": lambda env: ("csv text", {"output": {"filetype": "csv", "template": "t.tex",
                                                       "filepath": "rel.csv", "changed": True},
                                            "plot": {"name": "two"}}),
    "A_tex1": lambda env: (os.path.join(env["work"], "t1.tex"), {"output": {"filetype": "tex"}}),
    "A_tex2": lambda env: (os.path.join(env["work"], "t2.tex"),
                           {"output": {"filetype": "tex", "changed": True}, "k": 2}),
    "A_tex3": lambda env: (os.path.join(env["work"], "t3.tex"),
                           {"output": {"filetype": "tex", "changed": False}}),
    "A_pdf1": lambda env: (os.path.join(env["work"], "q1.pdf"), {"output": {"filetype": "pdf"}}),
    "A_pdf2": lambda env: (os.path.join(env["work"], "q2.pdf"),
                           {"output": {"filetype": "pdf", "changed": True}, "k": 2}),
    "A_pdf3": lambda env: (os.path.join(env["work"], "q3.pdf"),
                           {"output": {"filetype": "pdf", "changed": False}}),
    "A_histhist": lambda env: _histhist(),
    "A_histhist_pair": lambda env: (_histhist(True), {"variable": {"name": "x"}}),
    "A_histhist2": lambda env: (_histhist(), {"other": 2}),
    "A_big1": lambda env: 100,
    "A_big2": lambda env: (101, {"c": 1}),
    "A_big3": lambda env: (250, {}),
    "A_sel1": lambda env: (1, {"sel": 1}),
    "A_sel2": lambda env: ("s", {"sel": {"x": 2}, "o": 1}),
    "A_sel3": lambda env: (Foreign("selected"), {"sel": 0}),
    "A_group1": lambda env: ([1, 2], {"group": [{"a": 1}, {"a": 2}]}),
    "A_group2": lambda env: ((10, 20, 30), {"group": [{"a": 1, "b": 1}, {"a": 1}, {"a": 1}],
                                            "output": {"changed": False}}),
    "A_group3": lambda env: ([5], {"group": [{}], "c": 3}),
}

ALL_COMMON = sorted(COMMON_B)


def _without(*names):
    return [n for n in ALL_COMMON if n not in names]


# configuration: name -> (A pool, B pool, input files to create in work dir)
CONFIGS = {
    "ToCSV": (["A_hist", "A_hist_pair", "A_hist2", "A_graph"],
              ALL_COMMON + ["hist_nocsv", "graph_nocsv", "hist3d", "tex_value", "pair_dup_true",
                            "pair_dup_false", "hist_nocsv_dup_true", "hist_nocsv_dup_false"],
              []),
    "ToCSV_opts": (["A_hist_pair", "A_graph", "A_hist2"],
                   ["str", "pair_unrelated", "hist_nocsv", "graph_nocsv", "foreign_pair",
                    "pair_dup_true", "hist_nocsv_dup_true"], []),
    # a bare string IS selected by Write
    "Write": (["A_text_a", "A_text_b", "A_text_c", "A_bare_text", "A_selfwriter"],
              _without("str") + ["str_nowrite", "selfwriter_nowrite", "written_path",
                                 "num_named", "hist_pair", "written_path_newdir",
                                 "str_nowrite_newdir", "num_newdir"],
              ["done.txt", "fa.txt", "fc.dat"]),
    "Write_eu": (["A_text_a", "A_text_b", "A_text_c"],
                 ["int", "pair_other_output", "str_nowrite", "written_path", "foreign_pair",
                  "written_path_newdir"],
                 ["done.txt", "fa.txt"]),
    "Write_ow": (["A_text_a", "A_text_b", "A_text_c"],
                 ["int", "pair_other_output", "str_nowrite", "written_path", "foreign_pair"],
                 ["done.txt", "fa.txt"]),
    "RenderLaTeX": (["A_csv1", "A_csv2", "A_csv3"],
                    ALL_COMMON + ["tex_value", "pdf_value", "hist_pair", "str_nowrite",
                                  "pair_template_key"],
                    ["t.tex"]),
    "RenderLaTeX_absent_default": (["A_csv_own1", "A_csv_own2"],
                                   ["int", "str", "pair_unrelated", "tex_value", "pdf_value",
                                    "hist_pair", "foreign_pair", "pair_defaultdict"],
                                   ["t.tex"]),
    "LaTeXToPDF": (["A_tex1", "A_tex2", "A_tex3"],
                   ALL_COMMON + ["pdf_value", "csv_value", "png_value", "hist_pair"],
                   ["t1.tex", "t2.tex", "t3.tex", "t3.pdf", "b.pdf"]),
    "LaTeXToPDF_ow": (["A_tex1", "A_tex3", "A_tex2"],
                      ["int", "str", "pair_unrelated", "pdf_value", "csv_value", "foreign"],
                      ["t1.tex", "t2.tex", "t3.tex", "t3.pdf", "t1.pdf"]),
    "PDFToPNG": (["A_pdf1", "A_pdf2", "A_pdf3"],
                 ALL_COMMON + ["tex_value", "csv_value", "png_value", "hist_pair"],
                 ["q1.pdf", "q2.pdf", "q3.pdf", "q3.png", "b.tex"]),
    "HistToGraph": (["A_hist", "A_hist_pair", "A_hist_float"],
                    ALL_COMMON + ["hist_nograph", "graph_pair", "tex_value"], []),
    # a make_value given as a Variable (its context is composed with that of the bins)
    "HistToGraph_mv": (["A_hist_ctxbins", "A_hist_ctxbins"],
                       ["int", "pair_unrelated", "foreign", "hist_ctxbins_nograph", "graph_pair",
                        "hist_nograph"], []),
    "MapBins": (["A_hist", "A_hist_pair"],
                ALL_COMMON + ["hist_float", "graph_pair", "A_histhist", "A_histhist_pair"], []),
    # select_bins given as a predicate on the bin content, not as a type
    "MapBins_pred": (["A_hist", "A_hist_pair"],
                     ["int", "pair_unrelated", "foreign", "hist_big", "hist_big_pair",
                      "hist_float", "A_histhist"], []),
    # the "arbitrary bin" tested by select_bins is chosen by the user's get_example_bin
    "MapBins_example": (["A_hist", "A_hist_float_int", "A_hist_float_int_pair"],
                        ["int", "pair_unrelated", "hist_float", "hist_int_float",
                         "hist_int_float_pair", "graph_pair"], []),
    "IterateBins_pred": (["A_histhist", "A_histhist_pair"],
                         ["int", "pair_unrelated", "hist", "histhist_big", "graph_pair"], []),
    # the same predicates as objects that are false in a boolean context
    "IterateBins_falsy_pred": (["A_histhist", "A_histhist_pair"],
                               ["int", "pair_unrelated", "hist", "histhist_big", "graph_pair"], []),
    "MapBins_falsy_pred": (["A_hist", "A_hist_pair"],
                           ["int", "pair_unrelated", "foreign", "hist_big", "hist_big_pair",
                            "hist_float", "A_histhist"], []),
    # histograms of more dimensions; bins that are lists
    "MapBins_nd": (["A_hist", "A_hist4d"],
                   ["int", "pair_unrelated", "hist_float", "hist4d_listbins", "hist5d_listbins",
                    "hist2d_listbins", "graph_pair"], []),
    # selectors given as Not(...) objects
    "MapBins_not": (["A_hist", "A_hist_pair"],
                    ["int", "pair_unrelated", "foreign", "hist_float", "graph_pair"], []),
    "IterateBins_not": (["A_histhist", "A_histhist_pair"],
                        ["int", "pair_unrelated", "hist", "hist_pair", "graph_pair"], []),
    "RunIf_not": (["A_big1", "A_big2", "A_big3"], ALL_COMMON + ["small_int", "hist_pair"], []),
    # deep copies of elements (what the elements that copy their sequences run)
    "RunIf_not@copy": (["A_big1", "A_big2", "A_big3"], ALL_COMMON + ["small_int"], []),
    "MapBins_not@copy": (["A_hist", "A_hist_pair"],
                         ["int", "pair_unrelated", "hist_float", "graph_pair"], []),
    "IterateBins_not@copy": (["A_histhist", "A_histhist_pair"],
                             ["int", "pair_unrelated", "hist", "graph_pair"], []),
    "RunIf_ctxkey@copy": (["A_sel1", "A_sel2", "A_sel3"],
                          ["int", "pair_unrelated", "no_sel_key", "hist_pair"], []),
    "MapGroup@copy": (["A_group1", "A_group2", "A_group3"],
                      ["int", "pair_unrelated", "group_scalar", "hist_pair"], []),
    "HistToGraph@copy": (["A_hist", "A_hist_pair", "A_hist_float"],
                         ["int", "pair_unrelated", "hist_nograph", "graph_pair"], []),
    "IterateBins": (["A_histhist", "A_histhist_pair", "A_histhist2"],
                    ALL_COMMON + ["hist", "hist_pair", "hist_float", "graph_pair"], []),
    "RunIf_callable": (["A_big1", "A_big2", "A_big3"],
                       ALL_COMMON + ["small_int", "hist_pair"], []),
    "RunIf_ctxkey": (["A_sel1", "A_sel2", "A_sel3"],
                     ALL_COMMON + ["no_sel_key", "hist_pair"], []),
    "MapGroup": (["A_group1", "A_group2", "A_group3"],
                 ALL_COMMON + ["group_scalar", "hist_pair", "no_sel_key", "group_label_scalar",
                               "group_number_scalar", "group_names_scalar",
                               "group_dict_scalar"], []),
}
ORDER = sorted(CONFIGS)

INPUT_FILES = {
    "done.txt": "already written", "fa.txt": "old content of fa", "fc.dat": "text c",
    "t.tex": "TEMPLATE for \\VAR{ plot.name }\ntable {\\VAR{ output.filepath }}\nend",
    "t1.tex": "tex one", "t2.tex": "tex two", "t3.tex": "tex three",
    "t3.pdf": "OLD PDF three", "t1.pdf": "OLD PDF one", "b.pdf": "bystander pdf",
    "q1.pdf": "pdf one", "q2.pdf": "pdf two", "q3.pdf": "pdf three", "q3.png": "OLD PNG three",
    "b.tex": "bystander tex",
}


def build_element(name, env):
    import lena.core
    import lena.flow
    import lena.output
    import lena.structures
    out = env["out"]
    if name.endswith("@copy"):
        import copy
        return copy.deepcopy(build_element(name[:-len("@copy")], env))
    if name == "MapBins_nd":
        return lena.structures.MapBins(_double, select_bins=int)
    if name == "MapBins_not":
        return lena.structures.MapBins(_double, select_bins=lena.flow.Not(float))
    if name == "IterateBins_not":
        return lena.structures.IterateBins(select_bins=lena.flow.Not(int))
    if name == "RunIf_not":
        return lena.flow.RunIf(lena.flow.Not(_not_big), _tag_ran)
    if name == "ToCSV":
        return lena.output.ToCSV()
    if name == "ToCSV_opts":
        return lena.output.ToCSV(separator=";", header="x;y", row_end=" \\\\",
                                 duplicate_last_bin=False)
    if name == "Write":
        return lena.output.Write(out, verbose=False)
    if name == "Write_eu":
        return lena.output.Write(out, verbose=False, existing_unchanged=True)
    if name == "Write_ow":
        return lena.output.Write(out, verbose=False, overwrite=True)
    if name == "RenderLaTeX":
        return lena.output.RenderLaTeX("t.tex", template_dir=env["work"])
    if name == "RenderLaTeX_absent_default":
        return lena.output.RenderLaTeX("no_such_default.tex", template_dir=env["work"])
    if name == "LaTeXToPDF":
        return lena.output.LaTeXToPDF(verbose=0, create_command=env["stubs"].create_command)
    if name == "LaTeXToPDF_ow":
        return lena.output.LaTeXToPDF(overwrite=True, verbose=0,
                                      create_command=env["stubs"].create_command)
    if name == "PDFToPNG":
        return lena.output.PDFToPNG(verbose=False)
    if name == "HistToGraph":
        return lena.structures.HistToGraph()
    if name == "HistToGraph_mv":
        import lena.variables
        return lena.structures.HistToGraph(
            make_value=lena.variables.Variable("mean", lambda b: b[0], type="stat", unit="u"))
    if name == "MapBins":
        return lena.structures.MapBins(_double, select_bins=int)
    if name == "MapBins_pred":
        return lena.structures.MapBins(_double, select_bins=_small_bin)
    if name == "MapBins_example":
        return lena.structures.MapBins(_double, select_bins=int, get_example_bin=_last_bin)
    if name == "IterateBins_pred":
        return lena.structures.IterateBins(select_bins=_hist_of_small_hists)
    if name == "IterateBins_falsy_pred":
        return lena.structures.IterateBins(select_bins=FalsyPredicate(_hist_of_small_hists))
    if name == "MapBins_falsy_pred":
        return lena.structures.MapBins(_double, select_bins=FalsyPredicate(_small_bin))
    if name == "IterateBins":
        return lena.structures.IterateBins()
    if name == "RunIf_callable":
        return lena.flow.RunIf(_big_int, _tag_ran)
    if name == "RunIf_ctxkey":
        return lena.flow.RunIf("sel", _tag_ran, _tag_ran)
    if name == "MapGroup":
        return lena.flow.MapGroup(_inc_value, map_scalars=False)
    raise ValueError(name)


def build_value(name, env):
    f = COMMON_B.get(name) or SPECIFIC[name]
    return f(env)


# ------------------------------------------------------------------ enumeration
def selections(pool, sizes):
    for k in sizes:
        for sel in itertools.permutations(pool, k):
            yield list(sel)


def cases(tier, seed):
    thorough = tier == "thorough"
    for name in ORDER:
        apool, bpool, _ = CONFIGS[name]
        spawning = name.startswith(("LaTeXToPDF", "PDFToPNG"))
        a_sizes = (0, 1, 2, 3) if thorough else (0, 1, 2)
        alists = list(selections(apool[:3] if not thorough else apool, a_sizes))
        if thorough and len(alists) > 40:
            rng = gen.rng_for(seed, "C10", name, "A")
            small = [a for a in alists if len(a) <= 1]
            alists = small + rng.sample([a for a in alists if len(a) > 1], 40 - len(small))
        b1 = [[b] for b in bpool]
        b2 = [list(p) for p in itertools.permutations(bpool, 2)]
        for ai, alist in enumerate(alists):
            rng = gen.rng_for(seed, "C10", name, ai)
            if not alist:
                # nothing selected: every single B, and the whole pool at once
                yield {"el": name, "A": [], "Bs": [[b] for b in bpool] + [list(bpool)]}
                continue
            blists = list(b1)
            nb2 = (30 if spawning else 80) if thorough else (6 if spawning else 24)
            if len(alist) >= 2 and not thorough:
                nb2 = nb2 // 2
            blists += rng.sample(b2, min(nb2, len(b2)))
            if thorough:
                nb3 = 6 if spawning else 20
                for _ in range(nb3):
                    blists.append(rng.sample(bpool, 3))
                # random larger B with repeats of kinds
                blists.append([rng.choice(bpool) for _ in range(rng.randint(4, 6))])
            if spawning:
                blists = [b for b in blists if len(alist) + len(b) <= 5 or len(b) >= 4]
            # one case (= one scratch directory) runs a chunk of B lists
            size = 4 if spawning else 8
            for i in range(0, len(blists), size):
                yield {"el": name, "A": alist, "Bs": blists[i:i + size]}


def interleavings(na, nb):
    """All merges of range(na) (tagged 'a') and range(nb) (tagged 'b') keeping orders."""
    n = na + nb
    for pos in itertools.combinations(range(n), na):
        pos = set(pos)
        ia = ib = 0
        seq = []
        for i in range(n):
            if i in pos:
                seq.append(("a", ia))
                ia += 1
            else:
                seq.append(("b", ib))
                ib += 1
        yield seq


# ------------------------------------------------------------------ snapshots
def snap(v, depth=0):
    """Deep, comparable snapshot of an arbitrary value."""
    import lena.structures
    if depth > 12:
        return "<deep>"
    if isinstance(v, tuple):
        return ("T",) + tuple(snap(x, depth + 1) for x in v)
    if isinstance(v, list):
        return ("L",) + tuple(snap(x, depth + 1) for x in v)
    if isinstance(v, dict):
        return ("D",) + tuple(sorted(((repr(k), snap(x, depth + 1)) for k, x in v.items())))
    if isinstance(v, (int, float, str, bool)) or v is None:
        return (type(v).__name__, v)
    if isinstance(v, lena.structures.histogram):
        return ("hist", snap(v.edges, depth + 1), snap(v.bins, depth + 1),
                snap(getattr(v, "__dict__", {}).get("ranges"), depth + 1))
    d = getattr(v, "__dict__", None)
    if isinstance(d, dict):
        return ("O", type(v).__name__, snap(d, depth + 1))
    return ("R", type(v).__name__, repr(v))


def tree(root):
    out = {}
    for d, dirs, files in os.walk(root):
        for x in dirs:
            out[os.path.join(d, x) + os.sep] = None
        for fn in files:
            p = os.path.join(d, fn)
            try:
                with open(p, newline="") as f:
                    out[p] = f.read()
            except (IOError, OSError):
                out[p] = "<unreadable>"
    return out


TOUCH = ("mkdir", "remove", "rename", "popen", "rmtree")


def touching(ev, is_write):
    if ev[0] == "open":
        return is_write(ev)
    return ev[0] in TOUCH


class Case(object):
    def __init__(self, r, obs):
        from rv.props import _out_stubs
        self.r = r
        self.obs = obs
        self.name = r["el"]
        self.root = os.path.realpath(tempfile.mkdtemp(prefix="rv_c10_"))
        self.work = os.path.join(self.root, "w")
        os.mkdir(self.work)
        self.stubs = None
        if self.name.startswith(("LaTeXToPDF", "PDFToPNG")):
            self.stubs = _out_stubs.Stubs(os.path.join(self.root, "bin"),
                                          os.path.join(self.root, "stub.log"))
        self.env = {"work": self.work, "out": self.work, "stubs": self.stubs}

    def reset_dir(self):
        """Bring the work directory back to its initial state (input files only)."""
        if not CONFIGS[self.name][2] and not os.listdir(self.work):
            return
        for d, dirs, files in os.walk(self.work, topdown=False):
            for fn in files:
                os.remove(os.path.join(d, fn))
            for x in dirs:
                os.rmdir(os.path.join(d, x))
        for fn in CONFIGS[self.name][2]:
            with open(os.path.join(self.work, fn), "w") as f:
                f.write(INPUT_FILES[fn])
            # input files are old (LaTeXToPDF compares mtimes when output.changed is absent);
            # an existing pdf is newer than its tex
            t = 1000000000 + (50 if fn.endswith((".pdf", ".png")) else 0)
            os.utime(os.path.join(self.work, fn), (t, t))

    def run_flow(self, order, avals, bvals):
        """Run the element on the merged flow. Returns (outputs, events-by-input-index,
        tail events, tree)."""
        from rv.monitors import audit
        el = build_element(self.name, self.env)
        vals = [avals[i] if k == "a" else bvals[i] for k, i in order]

        def feed():
            for i, v in enumerate(vals):
                audit.mark("in:%d" % i)
                yield v
            audit.mark("eof")
        audit.start(self.root)
        try:
            outs = list(el.run(feed()))
        finally:
            log = audit.stop()
        per = {}
        cur = None
        for ev in log:
            if ev[0] == "mark":
                cur = ev[1]
                per.setdefault(cur, [])
            elif cur is not None:
                per[cur].append(ev)
        if self.stubs is not None:
            self.obs.count("stub_invocations", len(self.stubs.new_invocations()))
        return outs, per, tree(self.work)

    def close(self):
        if self.stubs is not None:
            self.stubs.restore_path()
        shutil.rmtree(self.root, ignore_errors=True)


_REPORTED = {}      # mech -> violations listed by this worker process (see limit_repeats)


def run_case(r, obs):
    from rv.props._out_stubs import is_write_event
    c = Case(r, obs)
    try:
        if c.stubs is not None:
            c.stubs.install_path()
        name = c.name
        anames = r["A"]
        multiset = name.startswith("LaTeXToPDF")

        def fresh_a():
            return [build_value(n, c.env) for n in anames]

        # ---- baseline: A alone
        c.reset_dir()
        tree0 = tree(c.work)
        base_out, base_per, base_tree = c.run_flow([("a", i) for i in range(len(anames))],
                                                   fresh_a(), [])
        base_snap = [snap(v) for v in base_out]
        if multiset:
            base_snap = sorted(base_snap, key=repr)
        desc0 = "%s A=%r" % (name, anames)
        blists = r["Bs"]
        nint = 0
        for bl in blists:
            bnames_now = bl
            for order in interleavings(len(anames), len(bnames_now)):
                nint += 1
                c.reset_dir()
                avals = fresh_a()
                bvals = [build_value(n, c.env) for n in bnames_now]
                bsnaps = [snap(v) for v in bvals]
                desc = "%s A=%r B=%r order=%s" % (
                    name, anames, bnames_now, "".join(k for k, _ in order))
                outs, per, tr = c.run_flow(order, avals, bvals)
                obs.count("interleavings_run")
                # 1. identity and order of the unselected values
                bid = {}
                for j, b in enumerate(bvals):
                    bid.setdefault(id(b), []).append(j)
                got_b = [v for v in outs if id(v) in bid]
                obs.count("identity_checks")
                same = len(got_b) == len(bvals) and all(x is y for x, y in zip(got_b, bvals))
                if not same:
                    # classify: equal copies instead of the same objects / lost / reordered
                    got_snaps = [snap(v) for v in outs]
                    missing = [bnames_now[j] for j, b in enumerate(bvals)
                               if not any(v is b for v in outs)]
                    copies = [n for n, s in zip(bnames_now, bsnaps)
                              if n in missing and s in got_snaps]
                    if missing and len(copies) == len(missing):
                        shape = "equal-copy-instead-of-same-object"
                    elif missing:
                        shape = "lost-or-altered"
                    elif len(got_b) > len(bvals):
                        shape = "duplicated"
                    else:
                        shape = "reordered"
                    obs.fail("unselected-not-passed-as-is:%s:%s" % (name, shape),
                             "%s: unselected values %r came out as %r (all outputs %r)"
                             % (desc, bvals, got_b, outs), missing=missing)
                # 2. unselected values are not modified
                obs.count("snapshot_checks", len(bvals))
                for j, b in enumerate(bvals):
                    after = snap(b)
                    obs.check(after == bsnaps[j],
                              "unselected-value-modified:%s:%s" % (name, bnames_now[j]),
                              "%s: unselected value %s changed from %r to %r"
                              % (desc, bnames_now[j], bsnaps[j], after))
                # 3. no file-system / process event while an unselected value is processed
                for pos, (k, i) in enumerate(order):
                    if k != "b":
                        continue
                    evs = per.get("in:%d" % pos, [])
                    obs.count("audit_marks_for_unselected_values")
                    bad = [e for e in evs if touching(e, is_write_event)]
                    obs.check(not bad, "filesystem-touched-for-unselected:%s:%s"
                              % (name, sorted(set(e[0] for e in bad))[0] if bad else ""),
                              "%s: while processing unselected %s: %r"
                              % (desc, bnames_now[i], bad))
                obs.count("file_tree_comparisons")
                obs.check(tr == base_tree, "file-tree-depends-on-unselected:%s" % name,
                          "%s: files after the run %r differ from the run of A alone %r"
                          % (desc, sorted(set(tr.items()) ^ set(base_tree.items()))[:6],
                             sorted(base_tree)))
                # 4. outputs for the selected values do not depend on B
                if not same:
                    # the remaining outputs are polluted by the copies of B values
                    obs.count("selected_output_comparisons_skipped")
                    continue
                rest = [snap(v) for v in outs if id(v) not in bid]
                if multiset:
                    rest = sorted(rest, key=repr)
                obs.count("selected_output_comparisons")
                obs.check(rest == base_snap, "selected-output-depends-on-unselected:%s" % name,
                          "%s: outputs for selected values %r, A alone gives %r"
                          % (desc, rest, base_snap))
        if nint >= 2 and any(blists):
            obs.nontrivial = True
        # the baseline itself must have done something for selected values (sanity of pools)
        if anames:
            obs.check(len(base_out) >= 1, "harness:selected-pool-produces-nothing:%s" % name,
                      "%s: A alone produced no output" % desc0)
    finally:
        c.close()
        from rv.props import _out_stubs
        _out_stubs.limit_repeats(obs, _REPORTED, 4)
RULE += (' Added: unselected data with non-callable attributes named write / run / fill / scale (a '
         'namedtuple with a boolean field "write", a flag object); selector predicates given as '
         'callable objects that are false in a boolean context.')
RULE += (' Added: HistToGraph with make_value given as a Variable over histograms whose bins are '
         '(data, context) pairs, beside such a histogram with histogram.to_graph False.')
RULE += (' Added: scalars whose context.group is a label, a number, a list of names or a dict among '
         'the unselected values of MapGroup(map_scalars=False).')

RULE += (' Round 10: Not(...) selectors for MapBins / IterateBins / RunIf; deep copies of the selective elements; 4- and 5-dimensional histograms with list-valued bins.')
