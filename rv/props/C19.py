"""C19 - output files always match the current data and nothing unchanged is redone.

History checker.  A case builds the real pipeline

    ToCSV, MakeFilename, Write, RenderLaTeX, Write, LaTeXToPDF, PDFToPNG

(optionally with GroupBy/group_plots or MapGroup in front of RenderLaTeX) in its
own scratch directory, with the stub converters of ``_out_stubs`` (sh scripts
that log their argv and write an artefact whose content is a digest of what they
read), and drives it through a history of runs.  Between runs the data of each
plot and the template are kept or changed and any subset of the files on disk is
deleted.  Pure pass-through ``Tap`` callables between the stages record the
yielded (data, context.output) pairs; the audit-hook log records every
open-for-writing / mkdir / remove / rename / Popen made by the process while the
pipeline runs.

After EVERY run the oracle
  * recomputes the csv and tex texts from scratch from the CURRENT data and
    template and compares them with the disk,
  * checks the disk invariant pdf == digest(tex, csv files it names) and
    png == digest(pdf),
  * demands a converter launch whenever something the artefact is rendered from
    was written in this run or the artefact was missing,
  * checks output.changed: true after a stage whose file's content changed, and
    never true upstream and not-true downstream,
  * checks the yielded paths (output_directory/dirname/filename.fileext, exist),
  * for a run with unchanged inputs: no file opened for writing, no mkdir /
    remove / rename, no converter launched (audit log and stub log).
A separate enumerated table checks the MakeFilename naming rules against a
reference model.
"""
import copy
import itertools
import os
import shutil
import tempfile

from rv import gen

ID = "C19"
LEVEL = "fault_enumeration"
RULE = ("histories of runs of the real output pipeline in a scratch directory: run 0 on an "
        "empty directory, then steps = (keep/change the data of each plot) x (keep/change "
        "the template) x (delete any subset of the csv/tex/pdf/png files). 1 plot, default "
        "settings: ALL histories of 3 runs (64x64 step pairs) in both tiers, thorough adds "
        "the 4-run histories whose first step is one of 16 representatives (16x64x64); all "
        "histories of 2 (quick) / 3 (thorough) runs for each of 12 settings (Write "
        "existing_unchanged / overwrite / two differently configured Write instances, "
        "LaTeXToPDF overwrite, PDFToPNG overwrite, dirname, reused pipeline objects, "
        "Write's default file name, bystander values + verbose, default pdflatex command); "
        "2 plots grouped by GroupBy+group_plots or MapGroup: all 2-run histories, seeded "
        "samples of 3-run histories and of 3-plot groups; 2-3 ungrouped plots: seeded "
        "samples (up to 4 runs in thorough); LaTeXToPDF+PDFToPNG on the user's own tex "
        "files (mtime comparison): all 2-run (quick) / 3-run (thorough) histories of 2 "
        "files. One case = one prefix of steps plus a fan of alternatives for the last "
        "step (disk snapshot restored between alternatives). MakeFilename: all chains of "
        "<=3 elements from a 14-element vocabulary x 9 contexts. Non-trivial: the case "
        "executed >=2 pipeline runs, the audit log saw a write and a stub converter logged "
        "an invocation (or: a MakeFilename chain changed the context)")
ASSUMPTIONS = [
    "converters are the stub scripts of rv/props/_out_stubs.py (deterministic digests); real "
    "pdflatex/pdftoppm behaviour (aux files, failures, timing) is not exercised",
    "between two runs time advances by at least one mtime tick: instead of sleeping, the "
    "driver sets the mtime of every file in the output directory to a fixed past instant "
    "after each run (os.utime), preserving their relative order, so lena's own tex-vs-pdf "
    "mtime comparison never sees equal stamps produced by timer granularity",
    "files are only deleted between runs, never edited by hand; the template file gets a "
    "distinct explicit mtime per version (jinja2 reload check)",
    "a created file (missing before the run) counts as a file whose content changed",
    "for Write(existing_unchanged=True) the csv/tex content oracle is suspended for files "
    "that existed (documented: they are assumed unchanged); the disk invariants "
    "pdf=digest(tex,csv), png=digest(pdf) and the regeneration duty still apply",
    "extra work in a run whose inputs did change (e.g. an identical file rewritten) is "
    "counted, not flagged: the statement forbids work only for unchanged runs",
]
ANCHORS = [("lena/output/write.py", 79, 120), ("lena/output/write.py", 180, 304),
           ("lena/output/make_filename.py", 100, 194),
           ("lena/output/latex_to_pdf.py", 71, 175), ("lena/output/latex_to_pdf.py", 176, 210),
           ("lena/output/pdf_to_png.py", 12, 33), ("lena/output/pdf_to_png.py", 78, 107),
           ("lena/output/render_latex.py", 183, 228), ("lena/output/to_csv.py", 248, 337),
           ("lena/flow/group_plots.py", 73, 105), ("lena/flow/group_plots.py", 137, 218),
           ("lena/flow/group_plots.py", 221, 244)]
MUST_REACH = [
    "lena/output/write.py:Write.run", "lena/output/write.py:Write._make_filename",
    "lena/output/write.py:Write._write_data",
    "lena/output/latex_to_pdf.py:LaTeXToPDF.run",
    "lena/output/latex_to_pdf.py:LaTeXToPDF.run.<locals>.launch",
    "lena/output/pdf_to_png.py:PDFToPNG.run", "lena/output/pdf_to_png.py:_run_command",
    "lena/output/render_latex.py:RenderLaTeX.run", "lena/output/to_csv.py:ToCSV.run",
    "lena/output/make_filename.py:MakeFilename.__call__",
    "lena/flow/group_plots.py:group_plots", "lena/flow/group_plots.py:MapGroup.run",
    "lena/flow/group_plots.py:_update_with_group",
]
MUST_COUNT = ["pipeline_runs", "audit_events", "audit_write_opens", "stub_invocations",
              "files_compared", "changed_flag_checks", "unchanged_runs_checked",
              "regeneration_duties_checked", "mkfn_chains"]
MIN_NONTRIVIAL = {"quick": 150, "thorough": 1500}
EXHAUSTIVE = {"quick": False, "thorough": False}
LEVEL_TEXT = ("Enumeration of fault/change histories: every history of 3 runs (thorough: plus "
              "16x64x64 histories of 4 runs) of the single-plot pipeline over {keep,change data} x {keep,change "
              "template} x all 16 deletion subsets per step is executed on the real elements "
              "with stub converters, and all shorter histories for every Write/LaTeXToPDF/"
              "PDFToPNG setting and for grouped plots; after each run the disk, the audit log, "
              "the stub log and the yielded contexts are checked against expectations "
              "recomputed from the current inputs. Held on the histories enumerated; says "
              "nothing about real pdflatex/pdftoppm, hand-edited files or longer histories.")
LEVEL_NOTE = ("Trusts jinja2 (expected tex is rendered by an independent jinja2 environment), "
              "the sh/sed/cat stub scripts, the CPython audit hook for open/Popen events, and "
              "os.utime-controlled mtimes in place of elapsed time.")
TECHNIQUE = ("history/fault enumeration with stub converters, audit-hook event log and "
             "recompute-from-scratch disk oracle after every run")

KINDS = ["csv", "tex", "pdf", "png"]
PAST = 1000000000  # mtime base for aged files (2001): older than anything written "now"

JINJA_SYNTAX = {
    "block_start_string": r'\BLOCK{', "block_end_string": '}',
    "variable_start_string": r'\VAR{', "variable_end_string": '}',
    "comment_start_string": r'\#{', "comment_end_string": '}',
    "line_statement_prefix": '%-', "line_comment_prefix": '%#',
    "trim_blocks": True, "lstrip_blocks": True, "autoescape": False,
}

DEFAULT_SET = {"w1": "default", "w2": "default", "l2p_over": False, "p2p_over": False,
               "dirname": False, "reuse": False, "defname": False, "extra": False,
               "verbose": False, "defcmd": False,
               # "slow": the source of the flow is slower than the converters (a pause after
               # every value), so that conversions finish while the flow is still being read
               "slow": False,
               # "hold": the converters keep working until the source of the flow is exhausted
               "hold": False}


def _paused(flow):
    import time
    for v in flow:
        yield v
        time.sleep(0.05)


def _held(flow, logpath):
    """The converters launched for this flow keep working until the source is exhausted (they
    wait for the file LOG.go, see _out_stubs): every conversion is outstanding when the flow
    ends, whatever the machine's speed."""
    for name in (logpath + ".go",):
        if os.path.exists(name):
            os.remove(name)
    with open(logpath + ".hold", "w"):
        pass
    try:
        for v in flow:
            yield v
    finally:
        with open(logpath + ".go", "w"):
            pass
        os.remove(logpath + ".hold")


def settings(**kw):
    s = dict(DEFAULT_SET)
    s.update(kw)
    return s


SETTINGS = [
    ("eu", settings(w1="existing_unchanged", w2="existing_unchanged")),
    ("ow", settings(w1="overwrite", w2="overwrite")),
    ("w2ow", settings(w2="overwrite")),
    ("w1eu", settings(w1="existing_unchanged")),
    ("w2eu", settings(w2="existing_unchanged")),
    ("l2pow", settings(l2p_over=True)),
    ("p2pow", settings(p2p_over=True)),
    ("dir", settings(dirname=True)),
    ("reuse", settings(reuse=True)),
    ("defname", settings(defname=True)),          # no MakeFilename: Write's default name
    ("extra", settings(extra=True, verbose=True)),  # bystander values, verbose messages
    ("defcmd", settings(defcmd=True, dirname=True)),  # LaTeXToPDF's default pdflatex command
]
GROUP_OK = 8      # SETTINGS[:GROUP_OK] are meaningful for the group pipelines too


# ------------------------------------------------------------------ step space
def artefacts(pipe, nplots):
    """Names of the files a pipeline maintains, in pipeline order."""
    if pipe == "single":
        return ["%s%d" % (k, i) for i in range(nplots) for k in KINDS]
    if pipe == "direct":
        # the tex files are the user's input here: only derived files are deleted
        return ["%s%d" % (k, i) for i in range(nplots) for k in ("pdf", "png")]
    return ["csv%d" % i for i in range(nplots)] + ["texg", "pdfg", "pngg"]


def all_steps(pipe, nplots):
    arts = artefacts(pipe, nplots)
    out = []
    for dmask in range(1 << nplots):
        for tmpl in ((0,) if pipe == "direct" else (0, 1)):
            for m in range(1 << len(arts)):
                out.append({"data": [dmask >> i & 1 for i in range(nplots)], "tmpl": tmpl,
                            "del": [a for j, a in enumerate(arts) if m >> j & 1]})
    return out


def rand_step(rng, pipe, nplots):
    arts = artefacts(pipe, nplots)
    pdel = rng.choice([0.0, 0.15, 0.3, 0.5])
    return {"data": [int(rng.random() < 0.4) for _ in range(nplots)],
            "tmpl": int(rng.random() < 0.3),
            "del": [a for a in arts if rng.random() < pdel]}


def chunks(lst, n):
    for i in range(0, len(lst), n):
        yield lst[i:i + n]


def cases(tier, seed):
    one = all_steps("single", 1)          # 64 steps
    thorough = tier == "thorough"
    # (a) single plot, default settings: all histories of 3 (quick) / 4 (thorough) runs
    if not thorough:
        for s1 in one:
            yield {"k": "hist", "pipe": "single", "n": 1, "set": DEFAULT_SET,
                   "prefix": [s1], "fan": "all"}
    else:
        # 4 runs: first step from 16 representatives (4 change patterns x 4 deletion
        # patterns), second and third step from all 64
        first16 = [s for s in one if s["del"] in ([], ["csv0"], ["tex0"], ["pdf0", "png0"])]
        for s1 in first16:
            for s2 in one:
                yield {"k": "hist", "pipe": "single", "n": 1, "set": DEFAULT_SET,
                       "prefix": [s1, s2], "fan": "all"}
        for s1 in one:
            yield {"k": "hist", "pipe": "single", "n": 1, "set": DEFAULT_SET,
                   "prefix": [s1], "fan": "all"}
    # (a2) the whole output directory removed between two runs of the same pipeline objects
    for name, st in [("default", DEFAULT_SET)] + list(SETTINGS):
        for d1 in (0, 1):
            if d1 and st["defname"]:
                continue        # two plots cannot share Write's default file name
            for d2 in (0, 1):
                yield {"k": "hist", "pipe": "single", "n": 1 + d1, "set": st,
                       "prefix": [{"data": [d1] * (1 + d1), "tmpl": 0, "del": []},
                                  {"data": [d2] * (1 + d1), "tmpl": 0, "del": ["DIR"]}],
                       "fan": [{"data": [0] * (1 + d1), "tmpl": 0, "del": []},
                               {"data": [1] * (1 + d1), "tmpl": 1, "del": ["DIR"]}]}
    # (b) every other setting: all histories of 2 (quick) / 3 (thorough) runs
    for name, st in SETTINGS:
        if not thorough:
            for part in chunks(one, 16):
                yield {"k": "hist", "pipe": "single", "n": 1, "set": st, "prefix": [],
                       "fan": part}
            # and a seeded sample of 3-run histories
            for j in range(6):
                rng = gen.rng_for(seed, "C19", "set3", name, j)
                yield {"k": "hist", "pipe": "single", "n": 1, "set": st,
                       "prefix": [rng.choice(one)], "fan": rng.sample(one, 12)}
        else:
            for s1 in one:
                yield {"k": "hist", "pipe": "single", "n": 1, "set": st, "prefix": [s1],
                       "fan": "all"}
    # (c) two plots in one group (GroupBy + group_plots, or MapGroup)
    for pipe in ("group", "mapgroup"):
        two = all_steps(pipe, 2)          # 4 * 2 * 32 = 256 steps
        for part in chunks(two, 16):
            yield {"k": "hist", "pipe": pipe, "n": 2, "set": DEFAULT_SET, "prefix": [],
                   "fan": part}
        nsample = 160 if thorough else 10
        for j in range(nsample):
            rng = gen.rng_for(seed, "C19", pipe, j)
            st = DEFAULT_SET if j % 3 else rng.choice(SETTINGS[:GROUP_OK])[1]
            npl = 2 if j % 4 else 3
            if npl == 2:
                yield {"k": "hist", "pipe": pipe, "n": 2, "set": st,
                       "prefix": [rng.choice(two)],
                       "fan": rng.sample(two, 64 if thorough else 12)}
            else:
                yield {"k": "hist", "pipe": pipe, "n": 3, "set": st,
                       "prefix": [rand_step(rng, pipe, 3)
                                  for _ in range(rng.randint(0, 2 if thorough else 1))],
                       "fan": [rand_step(rng, pipe, 3) for _ in range(24 if thorough else 8)]}
    # (d) 2-3 ungrouped plots in one flow: seeded sample
    nsample = 400 if thorough else 16
    for j in range(nsample):
        rng = gen.rng_for(seed, "C19", "multi", j)
        npl = rng.choice([2, 2, 3])
        st = DEFAULT_SET if j % 2 else rng.choice(
            [x for x in SETTINGS if not x[1]["defname"]])[1]
        yield {"k": "hist", "pipe": "single", "n": npl, "set": st,
               "prefix": [rand_step(rng, "single", npl)
                          for _ in range(rng.randint(0, 2 if thorough else 1))],
               "fan": [rand_step(rng, "single", npl) for _ in range(16 if thorough else 8)]}
    # (d1) tens of plots in one flow (more conversions outstanding at once than a pool of
    # processes would take)
    for j, npl in enumerate([34, 40] if not thorough else [33, 34, 40, 48, 70]):
        rng = gen.rng_for(seed, "C19", "many", j)
        yield {"k": "hist", "pipe": "single", "n": npl, "set": DEFAULT_SET, "prefix": [],
               "fan": [{"data": [int(rng.random() < 0.4) for _ in range(npl)], "tmpl": 0,
                        "del": []}]}
        # ... and with converters that are all still working when the flow ends
        yield {"k": "hist", "pipe": "single", "n": npl, "set": settings(hold=True), "prefix": [],
               "fan": [{"data": [int(rng.random() < 0.4) for _ in range(npl)], "tmpl": 0,
                        "del": []}]}
    for npl in (2, 3):
        yield {"k": "hist", "pipe": "single", "n": npl, "set": settings(hold=True), "prefix": [],
               "fan": [{"data": [1] * npl, "tmpl": 0, "del": []},
                       {"data": [0] * npl, "tmpl": 1, "del": ["pdf0"]}]}
    # (d2) the same with a source slower than the converters (conversions of earlier values
    # have finished when later values arrive), emphasis on deleted pdf files
    nsample = 120 if thorough else 10
    for j in range(nsample):
        rng = gen.rng_for(seed, "C19", "slow", j)
        npl = rng.choice([2, 3])
        st = settings(slow=True, l2p_over=(j % 3 == 0))
        arts = artefacts("single", npl)

        def pdf_step():
            return {"data": [int(rng.random() < 0.3) for _ in range(npl)], "tmpl": 0,
                    "del": [a for a in arts if (a.startswith("pdf") and rng.random() < 0.6)
                            or rng.random() < 0.1]}
        yield {"k": "hist", "pipe": "single", "n": npl, "set": st,
               "prefix": [{"data": [0] * npl, "tmpl": 0, "del": []}],
               "fan": [pdf_step() for _ in range(8 if thorough else 4)]}
    # (e) LaTeXToPDF fed with the user's own tex files (no Write: output.changed absent,
    #     lena compares mtimes), 2 files: all 2-run (quick) / 3-run (thorough) histories
    dsteps = all_steps("direct", 2)        # 4 * 16 = 64 steps
    for st in (DEFAULT_SET, settings(defcmd=True)):
        if thorough:
            for s1 in dsteps:
                yield {"k": "hist", "pipe": "direct", "n": 2, "set": st, "prefix": [s1],
                       "fan": "all"}
        else:
            for part in chunks(dsteps, 16):
                yield {"k": "hist", "pipe": "direct", "n": 2, "set": st, "prefix": [],
                       "fan": part}
            for j in range(6):
                rng = gen.rng_for(seed, "C19", "direct", j)
                yield {"k": "hist", "pipe": "direct", "n": 2, "set": st,
                       "prefix": [rng.choice(dsteps)], "fan": rng.sample(dsteps, 12)}
    # (g) Write against an existing file: sizes around 64 KiB x relation of the new text to
    # the existing content
    for size in (0, 10, 4095, 65535, 65536, 65537, 131072, 131077, 200000):
        for opt in ("default", "overwrite", "existing_unchanged"):
            yield {"k": "writetable", "size": size, "opt": opt}
            if size in (10, 4095, 65536):
                # text with characters that take several bytes in the file
                yield {"k": "writetable", "size": size, "opt": opt, "nonascii": 1}
    # (h) a converter that fails for some tex files, fast and slow flows
    for nfiles in (2, 3, 4):
        for failmask in range(1, 1 << nfiles):
            for slow in (0, 1):
                if nfiles == 4 and failmask % 3:
                    continue
                yield {"k": "latexfail", "n": nfiles, "fail": failmask, "slow": slow}
                if nfiles < 4:
                    for how in ("KILLLATEX", "TERMLATEX"):
                        yield {"k": "latexfail", "n": nfiles, "fail": failmask, "slow": slow,
                               "how": how}
    # (i) names formatted from values that are equal but print differently
    for si in range(len(TYPED_SEQS)):
        for where in ("filename", "dirname", "writedir"):
            for dup in (0, 1):
                yield {"k": "typednames", "seq": si, "where": where, "dup": dup}
    # (j) tables rendered from the data part, selected by a user selector
    for ci in range(len(TABLE_CTXS)):
        for nvals in (1, 2, 3):
            for from_data in (0, 1):
                yield {"k": "tables", "ctx": ci, "n": nvals, "from_data": from_data}
    # (f) MakeFilename naming rules
    for ci in range(len(MK_CONTEXTS)):
        for first in range(len(MK_VOCAB)):
            yield {"k": "mkfn", "ctx": ci, "first": first}


# ------------------------------------------------------------------ expectations
def plot_name(i):
    """Names of the plots: base names that end in the characters of ".pdf" are names like any
    other (p1_pdf.pdf -> p1_pdf.png)."""
    return "p%d%s" % (i, ("", "_pdf", "d", ".f")[i % 4])


def hist_bins(i, version):
    return [version + 100 * i, 1 + i, 2]


HIST_EDGES = [0, 1, 2, 3]


def expected_csv(i, version):
    bins = hist_bins(i, version)
    lines = ["%f,%f" % (float(e), float(b)) for e, b in zip(HIST_EDGES[:-1], bins)]
    lines.append("%f,%f" % (float(HIST_EDGES[-1]), float(bins[-1])))
    return "\n".join(lines)


def template_text(pipe, tver):
    if pipe == "single":
        return ("TEMPLATE v%d\nplot \\VAR{ plot.name }\n"
                "table {\\VAR{ output.filepath }}\nend v%d" % (tver, tver))
    return ("GROUP TEMPLATE v%d of \\VAR{ grp }\n\\BLOCK{ for item in group }\n"
            "table {\\VAR{ item.output.filepath }}\n\\BLOCK{ endfor }\nend v%d" % (tver, tver))


_TEMPLATES = {}
RAW_TEXT = "RAW TEXT\nwritten once"


class Tap(object):
    """Pass-through Call element recording what flows past."""

    def __init__(self, name, rec):
        self.name = name
        self.rec = rec

    def __call__(self, value):
        data, context = value if (isinstance(value, tuple) and len(value) == 2
                                  and isinstance(value[1], dict)) else (value, {})
        self.rec.append((self.name,
                         data if isinstance(data, str) else copy.deepcopy(data)
                         if isinstance(data, list) else repr(data),
                         copy.deepcopy(context)))
        return value


ABSENT = "<absent>"


def flag_of(context):
    out = context.get("output")
    if not isinstance(out, dict):
        return ABSENT
    return out.get("changed", ABSENT)


class World(object):
    """One scratch directory with the pipeline, its inputs and its monitors."""

    def __init__(self, recipe, obs):
        from rv.props import _out_stubs
        self.S = _out_stubs
        self.r = recipe
        self.obs = obs
        self.pipe = recipe["pipe"]
        self.n = recipe["n"]
        self.set = recipe["set"]
        self.root = os.path.realpath(tempfile.mkdtemp(prefix="rv_c19_"))
        self.out = os.path.join(self.root, "out")
        self.tdir = os.path.join(self.root, "tmpl")
        os.mkdir(self.out)
        os.mkdir(self.tdir)
        self.stubs = _out_stubs.Stubs(os.path.join(self.root, "bin"),
                                      os.path.join(self.root, "stub.log"))
        self.versions = [0] * self.n
        self.tver = 0
        self.taps = []
        self.seq = None
        self.nruns = 0
        self.sub = os.path.join("sub", "g") if self.set["dirname"] else ""
        self.five = 5000005          # bystander object of the "extra" setting
        if self.pipe == "direct":
            for i in range(self.n):
                self.write_direct_tex(i)
        else:
            self.write_template()

    # ---------------------------------------------------------------- inputs
    def write_template(self):
        path = os.path.join(self.tdir, "t.tex")
        with open(path, "w") as f:
            f.write(template_text(self.pipe, self.tver))
        os.utime(path, (PAST + 1000 + self.tver, PAST + 1000 + self.tver))

    def write_direct_tex(self, i):
        """pipe "direct": the user maintains the tex files himself."""
        path = self.path_of("tex%d" % i)
        os.makedirs(os.path.dirname(path), exist_ok=True)
        with open(path, "w") as f:
            f.write("DIRECT TEX of p%d v%d" % (i, self.versions[i]))
        # written "between the runs": later than every file of the previous run
        # (aged to PAST + 10 * nruns + rank, rank <= 3), earlier than the next run
        t = PAST + 10 * self.nruns + 5
        os.utime(path, (t, t))

    def path_of(self, art):
        kind, who = art[:3], art[3:]
        if who == "g":
            name = "comb_g"
        elif who == "raw":
            name = "raw"
        elif self.set["defname"]:
            name = "myout"
        else:
            name = plot_name(int(who))
        return os.path.join(self.out, self.sub, name + "." + kind)

    def chains(self):
        """Render chains: list of (key, [csv artefact names], tex, pdf, png)."""
        if self.pipe == "single":
            return [(str(i), ["csv%d" % i], "tex%d" % i, "pdf%d" % i, "png%d" % i)
                    for i in range(self.n)]
        if self.pipe == "direct":
            return [(str(i), [], "tex%d" % i, "pdf%d" % i, "png%d" % i)
                    for i in range(self.n)]
        return [("g", ["csv%d" % i for i in range(self.n)], "texg", "pdfg", "pngg")]

    def flow(self):
        import lena.structures
        if self.pipe == "direct":
            return [(self.path_of("tex%d" % i),
                     {"output": {"filetype": "tex"}, "plot": {"name": plot_name(i)}})
                    for i in range(self.n)]
        fl = [(lena.structures.histogram(list(HIST_EDGES), hist_bins(i, self.versions[i])),
               {"plot": {"name": plot_name(i)}, "grp": "g"}) for i in range(self.n)]
        if self.set["extra"]:
            # bystanders: a bare number, a string that must not be written, and a text
            # that the first Write writes and the second Write must recognise as written
            fl = [self.five] + fl[:1] + [
                ("NOT TO BE WRITTEN", {"output": {"write": False}}),
                (RAW_TEXT, {"plot": {"name": "raw"}, "grp": "g",
                            "output": {"filetype": "txt"}})] + fl[1:]
        return fl

    def expected_tex(self, chain):
        t = _TEMPLATES.get((self.pipe, self.tver))
        if t is None:
            import jinja2
            env = jinja2.Environment(**JINJA_SYNTAX)
            t = _TEMPLATES[(self.pipe, self.tver)] = env.from_string(
                template_text(self.pipe, self.tver))
        key, csvs = chain[0], chain[1]
        if self.pipe == "single":
            i = int(key)
            ctx = {"plot": {"name": plot_name(i)}, "grp": "g",
                   "output": {"filepath": self.path_of(csvs[0])}}
        else:
            ctx = {"grp": "g", "group": [{"output": {"filepath": self.path_of(c)}}
                                         for c in csvs]}
        return t.render(ctx)

    # -------------------------------------------------------------- pipeline
    def build(self):
        import lena.core
        import lena.flow
        import lena.output
        st = self.set
        rec = self.taps

        verbose = bool(st["verbose"])
        l2p_kw = {} if st["defcmd"] else {"create_command": self.stubs.create_command}
        if self.pipe == "direct":
            return lena.core.Sequence(
                lena.output.LaTeXToPDF(overwrite=st["l2p_over"], verbose=int(verbose), **l2p_kw),
                Tap("l2p", rec),
                lena.output.PDFToPNG(overwrite=st["p2p_over"], verbose=verbose),
                Tap("p2p", rec))

        def mkwrite(mode):
            if st["defname"]:
                return lena.output.Write(self.out, "myout", verbose=verbose,
                                         existing_unchanged=(mode == "existing_unchanged"),
                                         overwrite=(mode == "overwrite"))
            return lena.output.Write(self.out, verbose=verbose,
                                     existing_unchanged=(mode == "existing_unchanged"),
                                     overwrite=(mode == "overwrite"))
        w1 = mkwrite(st["w1"])
        w2 = w1 if st["w1"] == st["w2"] else mkwrite(st["w2"])
        mk = {"dirname": "sub/{{grp}}"} if st["dirname"] else {}
        member = [lena.output.ToCSV()] + (
            [] if st["defname"] else [lena.output.MakeFilename("{{plot.name}}", **mk)]) + [
                w1, Tap("w1", rec)]
        tail = [lena.output.RenderLaTeX("t.tex", template_dir=self.tdir), w2, Tap("w2", rec),
                lena.output.LaTeXToPDF(overwrite=st["l2p_over"], verbose=int(verbose), **l2p_kw),
                Tap("l2p", rec),
                lena.output.PDFToPNG(overwrite=st["p2p_over"], verbose=verbose),
                Tap("p2p", rec)]
        if self.pipe == "single":
            els = member + tail
        elif self.pipe == "group":
            els = member + [lena.flow.GroupBy("grp"), lena.flow.group_plots, Tap("grp", rec),
                            lena.output.MakeFilename("comb_{{grp}}", **mk)] + tail
        else:
            els = [lena.flow.GroupBy("grp"), lena.flow.group_plots,
                   lena.flow.MapGroup(*member), Tap("grp", rec),
                   lena.output.MakeFilename("comb_{{grp}}", **mk)] + tail
        return lena.core.Sequence(*els)

    # ------------------------------------------------------------------ disk
    def disk(self):
        snap = {}
        for d, _, files in os.walk(self.out):
            for fn in files:
                p = os.path.join(d, fn)
                snap[p] = self.S.read_text(p)
        return snap

    def snapshot(self):
        snap = {}
        for d, _, files in os.walk(self.out):
            for fn in files:
                p = os.path.join(d, fn)
                snap[p] = (self.S.read_text(p), os.stat(p).st_mtime_ns)
        return {"files": snap, "versions": list(self.versions), "tver": self.tver,
                "nruns": self.nruns}

    def restore(self, snap):
        for d, _, files in os.walk(self.out):
            for fn in files:
                os.remove(os.path.join(d, fn))
        for p, (text, mt) in snap["files"].items():
            with open(p, "w", newline="") as f:
                f.write(text)
            os.utime(p, ns=(mt, mt))
        self.versions = list(snap["versions"])
        self.nruns = snap["nruns"]
        if self.tver != snap["tver"]:
            self.tver = snap["tver"]
            self.write_template()

    def age_files(self):
        """Replace elapsed time: every file written in the last run gets a fixed
        past mtime (relative order csv < tex < pdf < png kept)."""
        rank = {".csv": 0, ".tex": 1, ".pdf": 2, ".png": 3}
        for d, _, files in os.walk(self.out):
            for fn in files:
                p = os.path.join(d, fn)
                if os.stat(p).st_mtime > PAST + 500000000:      # not aged yet
                    t = PAST + 10 * self.nruns + rank.get(os.path.splitext(fn)[1], 5)
                    os.utime(p, (t, t))

    # ------------------------------------------------------------------ step
    def apply(self, step):
        """Apply the between-run changes of *step*; return list of deleted artefacts
        that existed."""
        for i, ch in enumerate(step["data"]):
            if ch:
                self.versions[i] += 1
                if self.pipe == "direct":
                    self.write_direct_tex(i)
        if step["tmpl"]:
            self.tver += 1
            self.write_template()
        deleted = []
        todo = list(step["del"])
        if "DIR" in todo:
            # the whole output directory is removed (not only files in it)
            todo = artefacts(self.pipe, self.n)
        for art in todo:
            p = self.path_of(art)
            if os.path.exists(p):
                os.remove(p)
                deleted.append(art)
        if "DIR" in step["del"] and self.pipe != "direct":
            shutil.rmtree(self.out, ignore_errors=True)
        return deleted

    def run(self):
        """One pipeline run under the audit log. Returns (results, events, stublog, exc)."""
        from rv.monitors import audit
        if self.seq is None or not self.set["reuse"]:
            self.seq = self.build()
        del self.taps[:]
        flow = self.flow()
        audit.start(self.root)
        audit.mark("run-begin")
        exc = None
        results = []
        import contextlib
        import io
        self.stdout = io.StringIO()
        try:
            with contextlib.redirect_stdout(self.stdout):
                if self.set.get("hold"):
                    flow = _held(flow, self.stubs.logpath)
                results = list(self.seq.run(_paused(flow) if self.set.get("slow")
                                            else flow))
        except Exception as e:  # pylint: disable=broad-except
            import sys
            import traceback
            from rv import worker
            lf = worker.lena_frame(sys.exc_info()[2])
            if lf is None:
                raise
            exc = ("%s@%s:%s" % (type(e).__name__, lf[0], lf[1]),
                   "".join(traceback.format_exception(type(e), e, e.__traceback__))[-1200:])
            self.seq = None
        audit.mark("run-end")
        events = audit.stop()[1:-1]
        stublog = self.stubs.new_invocations()
        self.nruns += 1
        return results, events, stublog, exc

    def close(self):
        self.stubs.restore_path()
        shutil.rmtree(self.root, ignore_errors=True)


from rv.props._out_stubs import is_write_event  # noqa: E402


# ------------------------------------------------------------------ the oracle
def check_run(w, obs, history, step, pre, results, events, stublog, exc, first):
    """Oracle for one run. Returns True when the disk is consistent afterwards
    (the history may be continued)."""
    S = w.S
    post = w.disk()
    hist_txt = "history=%s settings=%s pipe=%s/%d" % (
        [compact(s) for s in history], {k: v for k, v in w.set.items()
                                        if v != DEFAULT_SET[k]}, w.pipe, w.n)
    consistent = True
    obs.count("pipeline_runs")
    obs.count("audit_events", len(events))
    obs.count("stub_invocations", len(stublog))
    if exc is not None:
        obs.fail("exception-in-run:" + exc[0], "pipeline run raised: %s\n%s" % (exc[1], hist_txt))
        return False

    written = [os.path.realpath(ev[1]) for ev in events if is_write_event(ev)
               and os.path.realpath(ev[1]).startswith(w.out + os.sep)]
    obs.count("audit_write_opens", len(written))
    written_set = set(written)
    popens = [ev[1] for ev in events if ev[0] == "popen"]
    other_fs = [ev for ev in events if ev[0] in ("remove", "rename", "rmtree")]
    mkdirs = [ev for ev in events if ev[0] == "mkdir"]
    latex_for = set(l[1] for l in stublog if l[0] == "latex")
    ppm_for = set(l[1] for l in stublog if l[0] == "pdftoppm")

    # every stub invocation must be visible as a Popen of this process (monitor cross-check)
    obs.check(len(popens) == len(stublog), "monitor-mismatch:popen-vs-stub-log",
              "audit saw %d Popen, stubs logged %d invocations; %s"
              % (len(popens), len(stublog), hist_txt))

    taps = {}
    for name, data, ctx in w.taps:
        taps.setdefault(name, []).append((data, ctx))

    def tap_for(name, path):
        for data, ctx in taps.get(name, []):
            if data == path:
                return ctx
        return None

    w1mode, w2mode = w.set["w1"], w.set["w2"]
    unchanged_inputs = (not first and not any(step["data"]) and not step["tmpl"]
                        and not step["deleted"])

    def cause_of(art, path, kind):
        if path in written_set:
            return "%s-%s" % (kind, "created" if pre.get(path) is None else "rewritten")
        return None

    for chain in w.chains():
        key, csv_arts, tex_art, pdf_art, png_art = chain
        csv_paths = [w.path_of(a) for a in csv_arts]
        tex_p, pdf_p, png_p = w.path_of(tex_art), w.path_of(pdf_art), w.path_of(png_art)

        # ---- 1. csv files: content from current data, path rule, flag after Write
        member_flags = []
        for a, p in zip(csv_arts, csv_paths):
            i = int(a[3:])
            cur = expected_csv(i, w.versions[i])
            obs.count("files_compared")
            if w1mode != "existing_unchanged" or pre.get(p) is None:
                if not obs.check(post.get(p) == cur, "file-content-wrong:csv:" + (
                        "missing" if post.get(p) is None else
                        "stale" if post.get(p) == pre.get(p) else "garbled"),
                        "csv %s holds %r, current data gives %r; %s"
                        % (p, post.get(p), cur, hist_txt)):
                    consistent = False
            ctx = tap_for("w1", p)
            if not obs.check(ctx is not None, "yielded-path-wrong:write-csv",
                             "first Write yielded %r, expected path %s; %s"
                             % ([d for d, _ in taps.get("w1", [])], p, hist_txt)):
                consistent = False
                continue
            oc = ctx.get("output", {})
            rule = os.path.join(w.out, oc.get("dirname", ""),
                                "%s.%s" % (oc.get("filename"), oc.get("fileext")))
            obs.check(rule == p and post.get(p) is not None, "write-path-rule:csv",
                      "yielded %s but output_directory/dirname/filename.fileext = %s "
                      "(exists=%s); %s" % (p, rule, post.get(p) is not None, hist_txt))
            f = flag_of(ctx)
            member_flags.append(f)
            obs.count("changed_flag_checks")
            if pre.get(p) != post.get(p):
                obs.check(f is True, "write-changed-flag-not-true:csv-%s"
                          % ("created" if pre.get(p) is None else "rewritten"),
                          "Write %s %s (content %s) but yielded output.changed=%r; %s"
                          % ("created" if pre.get(p) is None else "rewrote", p,
                             "new" if pre.get(p) is None else "differs", f, hist_txt))

        # ---- 2. group stage (flag combination)
        up_flag = member_flags[0] if member_flags else ABSENT
        up_name = "write1"
        if w.pipe in ("group", "mapgroup"):
            any_true = any(f is True for f in member_flags)
            gtaps = taps.get("grp", [])
            if obs.check(len(gtaps) == 1, "group-stage-yield-count",
                         "group stage yielded %d values; %s" % (len(gtaps), hist_txt)):
                gf = flag_of(gtaps[0][1])
                obs.count("changed_flag_checks")
                obs.check(not any_true or gf is True, "changed-flag-lost:members->%s" % w.pipe,
                          "member flags %r but group output.changed=%r; %s"
                          % (member_flags, gf, hist_txt))
                up_flag = gf
                up_name = w.pipe

        # ---- 3. tex file
        direct = w.pipe == "direct"
        cur_tex = ("DIRECT TEX of p%s v%d" % (key, w.versions[int(key)]) if direct
                   else w.expected_tex(chain))
        obs.count("files_compared")
        if direct:
            obs.check(post.get(tex_p) == cur_tex, "harness:direct-tex-touched",
                      "the user's tex %s was modified: %r; %s" % (tex_p, post.get(tex_p),
                                                                  hist_txt))
        elif w2mode != "existing_unchanged" or pre.get(tex_p) is None:
            if not obs.check(post.get(tex_p) == cur_tex, "file-content-wrong:tex:" + (
                    "missing" if post.get(tex_p) is None else
                    "stale" if post.get(tex_p) == pre.get(tex_p) else "garbled"),
                    "tex %s holds %r, current template+context give %r; %s"
                    % (tex_p, post.get(tex_p), cur_tex, hist_txt)):
                consistent = False
        ctx2 = tap_for("w2", tex_p)
        f2 = ABSENT
        if direct:
            pass
        elif obs.check(ctx2 is not None, "yielded-path-wrong:write-tex",
                     "second Write yielded %r, expected %s; %s"
                     % ([d for d, _ in taps.get("w2", [])], tex_p, hist_txt)):
            oc = ctx2.get("output", {})
            rule = os.path.join(w.out, oc.get("dirname", ""),
                                "%s.%s" % (oc.get("filename"), oc.get("fileext")))
            obs.check(rule == tex_p and post.get(tex_p) is not None, "write-path-rule:tex",
                      "yielded %s but output_directory/dirname/filename.fileext = %s; %s"
                      % (tex_p, rule, hist_txt))
            f2 = flag_of(ctx2)
            obs.count("changed_flag_checks", 2)
            if pre.get(tex_p) != post.get(tex_p):
                obs.check(f2 is True, "write-changed-flag-not-true:tex-%s"
                          % ("created" if pre.get(tex_p) is None else "rewritten"),
                          "Write %s %s but yielded output.changed=%r; %s"
                          % ("created" if pre.get(tex_p) is None else "rewrote", tex_p, f2,
                             hist_txt))
            obs.check(up_flag is not True or f2 is True,
                      "changed-flag-lost:%s->write2" % up_name,
                      "output.changed was True after %s but %r after the second Write; %s"
                      % (up_name, f2, hist_txt))
        else:
            consistent = False

        # ---- 4. pdf: regeneration duty, disk invariant, flag
        causes = [c for c in [cause_of(a, p, "csv") for a, p in zip(csv_arts, csv_paths)]
                  + [cause_of(tex_art, tex_p, "tex")] if c]
        for pref in ("csv-created", "csv-rewritten", "tex-created", "tex-rewritten"):
            if pref in causes:
                cause = pref
                break
        else:
            cause = "pdf-missing" if pre.get(pdf_p) is None else None
        if direct and not first and step["data"][int(key)]:
            cause = "tex-rewritten-by-user"
            causes.append(cause)
        launched = tex_p in latex_for
        why = ("input-changed-flag-absent-mtime-comparison" if direct else
               "input-changed-flag-not-true" if f2 is not True
               else "converter-skipped-despite-changed-true")
        obs.count("regeneration_duties_checked")
        inv_pdf = post.get(pdf_p) is not None and post.get(tex_p) is not None and \
            post.get(pdf_p) == S.pdf_digest(post[tex_p], post.get)
        obs.count("files_compared")
        if cause is not None and not launched:
            obs.fail("%s:%s:%s" % ("stale-pdf" if not inv_pdf else "pdf-not-regenerated",
                                   why, cause),
                     "pdf %s had to be regenerated (%s) but LaTeXToPDF launched nothing for it "
                     "(flag at its input: %r); pdf on disk %s what its tex/csv give; %s"
                     % (pdf_p, ", ".join(causes) or cause, f2,
                        "DIFFERS from" if not inv_pdf else "equals", hist_txt),
                     pdf_on_disk=post.get(pdf_p))
            consistent = False
        elif not inv_pdf:
            obs.fail("stale-pdf:%s" % ("launched-but-wrong-content" if launched
                                       else "unexplained"),
                     "pdf %s = %r is not the digest of tex+csv on disk %r; %s"
                     % (pdf_p, post.get(pdf_p),
                        S.pdf_digest(post.get(tex_p) or "", post.get), hist_txt))
            consistent = False
        ctx3 = tap_for("l2p", pdf_p)
        f3 = ABSENT
        if obs.check(ctx3 is not None, "yielded-path-wrong:latextopdf",
                     "LaTeXToPDF yielded %r, expected %s; %s"
                     % ([d for d, _ in taps.get("l2p", [])], pdf_p, hist_txt)):
            f3 = flag_of(ctx3)
            obs.count("changed_flag_checks", 2)
            obs.check(pre.get(pdf_p) == post.get(pdf_p) or f3 is True,
                      "converter-changed-flag-not-true:pdf",
                      "pdf content changed but output.changed=%r after LaTeXToPDF; %s"
                      % (f3, hist_txt))
            obs.check(f2 is not True or f3 is True, "changed-flag-lost:write2->latextopdf",
                      "output.changed True before LaTeXToPDF, %r after; %s" % (f3, hist_txt))
        else:
            consistent = False

        # ---- 5. png
        need_png = "pdf-regenerated" if launched else (
            "png-missing" if pre.get(png_p) is None else None)
        ppm = pdf_p in ppm_for
        inv_png = post.get(png_p) is not None and post.get(pdf_p) is not None and \
            post.get(png_p) == S.png_digest(post[pdf_p])
        obs.count("regeneration_duties_checked")
        obs.count("files_compared")
        whyp = ("input-changed-flag-not-true" if f3 is not True
                else "converter-skipped-despite-changed-true")
        if need_png is not None and not ppm:
            obs.fail("%s:%s:%s" % ("stale-png" if not inv_png else "png-not-regenerated",
                                   whyp, need_png),
                     "png %s had to be regenerated (%s) but PDFToPNG launched nothing "
                     "(flag at its input: %r); %s" % (png_p, need_png, f3, hist_txt))
            consistent = False
        elif not inv_png:
            # a stale pdf explains nothing here: the png is judged against the pdf on disk
            obs.fail("stale-png:%s" % ("launched-but-wrong-content" if ppm else "unexplained"),
                     "png %s = %r is not the digest of the pdf on disk; %s"
                     % (png_p, post.get(png_p), hist_txt))
            consistent = False
        ctx4 = tap_for("p2p", png_p)
        if obs.check(ctx4 is not None, "yielded-path-wrong:pdftopng",
                     "PDFToPNG yielded %r, expected %s; %s"
                     % ([d for d, _ in taps.get("p2p", [])], png_p, hist_txt)):
            f4 = flag_of(ctx4)
            obs.count("changed_flag_checks", 2)
            obs.check(pre.get(png_p) == post.get(png_p) or f4 is True,
                      "converter-changed-flag-not-true:png",
                      "png content changed but output.changed=%r after PDFToPNG; %s"
                      % (f4, hist_txt))
            obs.check(f3 is not True or f4 is True, "changed-flag-lost:latextopdf->pdftopng",
                      "output.changed True before PDFToPNG, %r after; %s" % (f4, hist_txt))
        else:
            consistent = False

        # ---- 6. end to end (recomputed from scratch from the current inputs)
        if consistent and w1mode != "existing_unchanged" and w2mode != "existing_unchanged":
            cur_csv = {p: expected_csv(int(a[3:]), w.versions[int(a[3:])])
                       for a, p in zip(csv_arts, csv_paths)}
            e_pdf = S.pdf_digest(cur_tex, cur_csv.get)
            obs.count("files_compared", 2)
            obs.check(post.get(pdf_p) == e_pdf and post.get(png_p) == S.png_digest(e_pdf),
                      "end-to-end-stale-unexplained",
                      "pdf/png differ from the from-scratch expectation although every "
                      "stage-local check passed; %s" % hist_txt)

    # ---- 7. yielded values of the whole pipeline
    exp_final = [w.path_of(c[4]) for c in w.chains()]
    if w.set["extra"] and w.pipe == "single":
        raw_p = w.path_of("txtraw")
        exp_final += [str(w.five), "NOT TO BE WRITTEN", raw_p]
        obs.count("files_compared")
        if not obs.check(post.get(raw_p) == RAW_TEXT, "file-content-wrong:txt-written-twice"
                         if post.get(raw_p) == raw_p else "file-content-wrong:txt",
                         "text file %s holds %r, expected %r; %s"
                         % (raw_p, post.get(raw_p), RAW_TEXT, hist_txt)):
            consistent = False
        obs.check(any(v is w.five for v in results), "bystander-not-passed",
                  "the bare number fed to the pipeline was not yielded as is; %s" % hist_txt)
        extra_files = {raw_p}
    else:
        extra_files = set()
    expected_files = set(w.path_of(a) for c in w.chains() for a in c[1] + list(c[2:]))
    expected_files |= extra_files
    obs.check(set(post) <= expected_files, "unexpected-file-written",
              "files on disk %r, expected only %r; %s"
              % (sorted(set(post) - expected_files), sorted(expected_files), hist_txt))
    exp_final.sort()
    got_final = sorted(str(v[0]) if isinstance(v, tuple) else str(v) for v in results)
    if not obs.check(got_final == exp_final, "yielded-values-wrong:final",
                     "pipeline yielded %r, expected the png paths %r; %s"
                     % (got_final, exp_final, hist_txt)):
        consistent = False
    for v in results:
        if isinstance(v, tuple) and isinstance(v[0], str) and v[0].startswith(w.root):
            obs.check(os.path.exists(v[0]), "yielded-file-missing",
                      "yielded path %s does not exist; %s" % (v[0], hist_txt))

    # ---- 8. a run with unchanged inputs does nothing
    no_forced = (w1mode != "overwrite" and w2mode != "overwrite"
                 and not w.set["l2p_over"] and not w.set["p2p_over"])
    if unchanged_inputs and no_forced:
        obs.count("unchanged_runs_checked")
        kinds = sorted(set(os.path.splitext(p)[1][1:] for p in written))
        obs.check(not written, "unchanged-run-wrote-file:" + "+".join(kinds),
                  "run with unchanged inputs opened for writing: %r; %s" % (written, hist_txt))
        tools = sorted(set(l[0] for l in stublog)) or sorted(
            set(os.path.basename(a[0]) for a in popens if a))
        obs.check(not stublog and not popens,
                  "unchanged-run-launched-converter:" + "+".join(tools),
                  "run with unchanged inputs launched %r; %s" % (stublog or popens, hist_txt))
        obs.check(not other_fs and not mkdirs, "unchanged-run-touched-filesystem",
                  "run with unchanged inputs did %r; %s" % (other_fs + mkdirs, hist_txt))
    elif not first and no_forced:
        # counted, not flagged: work on a plot whose own inputs did not change
        for chain in w.chains():
            if w.pipe == "single":
                i = int(chain[0])
                own = [w.path_of(a) for a in chain[1] + list(chain[2:])]
                if not step["data"][i] and not step["tmpl"] and \
                        not any(a in step["deleted"] for a in chain[1] + list(chain[2:])):
                    if any(p in written_set for p in own) or own[1] in latex_for:
                        obs.count("redo_of_unchanged_plot_in_changed_run")
    return consistent


def compact(step):
    return "d%s%s%s" % ("".join(str(x) for x in step["data"]), "T" if step["tmpl"] else "",
                        ("-" + ",".join(step["del"])) if step["del"] else "")


def run_history(r, obs):
    from rv.monitors import audit
    w = World(r, obs)
    try:
        w.stubs.install_path()
        history = []

        def do(step, first=False):
            st = dict(step)
            st["deleted"] = w.apply(step) if not first else []
            history.append(step)
            pre = w.disk()
            results, events, stublog, exc = w.run()
            ok = check_run(w, obs, history, st, pre, results, events, stublog, exc, first)
            w.age_files()
            return ok, events, stublog

        init = {"data": [0] * w.n, "tmpl": 0, "del": []}
        ok, ev, sl = do(init, first=True)
        saw_write = any(is_write_event(e) for e in ev)
        saw_stub = bool(sl)
        nruns = 1
        for step in r["prefix"]:
            if not ok:
                obs.count("histories_cut_after_inconsistent_disk")
                return
            ok, ev, sl = do(step)
            nruns += 1
        if not ok:
            obs.count("histories_cut_after_inconsistent_disk")
            return
        fan = all_steps(w.pipe, w.n) if r["fan"] == "all" else r["fan"]
        snap = w.snapshot()
        base_hist = list(history)
        for j, step in enumerate(fan):
            if j:
                w.restore(snap)
                del history[:]
                history.extend(base_hist)
                if w.set["reuse"]:
                    pass    # the same pipeline objects keep running (that is the point)
            ok2, ev, sl = do(step)
            nruns += 1
            obs.count("histories")
        if nruns >= 2 and (saw_write or w.pipe == "direct") and saw_stub:
            obs.nontrivial = True
    finally:
        audit.stop()
        w.close()


# ------------------------------------------------------------------ MakeFilename table
# element recipes: (kind, format string, overwrite)
MK_VOCAB = [
    ("filename", "{{plot.name}}", False), ("filename", "fixed", False),
    ("filename", "{{output.filename}}_x", True), ("filename", "new_{{plot.name}}", True),
    ("filename", "{{nokey}}", False),
    ("prefix", "A_", False), ("prefix", "B{{plot.name}}_", False), ("prefix", "C_", True),
    ("suffix", "_Y", False), ("suffix", "_Z", True), ("suffix", "_{{nokey}}", False),
    ("dirname", "dir/{{plot.name}}", False), ("dirname", "odir", True),
    ("fileext", "ext", False),
]
MK_CONTEXTS = [
    None,                                   # bare data, no context
    {}, {"plot": {"name": "a"}},
    {"plot": {"name": "a"}, "output": {"filename": "old"}},
    {"plot": {"name": "a"}, "output": {"prefix": "E_"}},
    {"plot": {"name": "a"}, "output": {"suffix": "_S", "prefix": "E_"}},
    {"plot": {"name": "a"}, "output": {"filename": "old", "prefix": "E_", "dirname": "dd",
                                       "fileext": "pdf"}},
    {"output": {"filename": "old", "suffix": "_S"}},
    {"plot": {"name": "a"}, "output": {"filetype": "csv", "changed": False}},
    # existing names that are empty strings are still existing names
    {"plot": {"name": "a"}, "output": {"filename": "old", "fileext": "", "dirname": ""}},
    # (an empty existing prefix/suffix is not generated: whether the empty string is removed
    # after it was "applied" is unobservable in any file name, the model would over-demand)
    {"plot": {"name": "a"}, "output": {"fileext": ""}},
    {"plot": {"name": "a"}, "output": {"filename": "", "dirname": ""}},
]


def _fmt(fs, context):
    """Reference for format_context on simple {{a.b}} fields; KeyError if missing."""
    import re

    def sub(m):
        cur = context
        for part in m.group(1).split("."):
            if not isinstance(cur, dict) or part not in cur:
                raise KeyError(m.group(1))
            cur = cur[part]
        return str(cur)
    return re.sub(r"\{\{([^}]*)\}\}", sub, fs)


def mk_model(context, el):
    """Reference model of one MakeFilename(kind=fs, overwrite=ow) call on *context*
    (modified in place), following the docstrings."""
    kind, fs, ow = el
    out = context.get("output", {})
    if kind in ("filename", "dirname", "fileext") and kind in out and not ow:
        return
    try:
        res = _fmt(fs, context)
    except KeyError:
        return
    if kind in ("prefix", "suffix"):
        existing = out.get(kind)
        if existing and not ow:
            res = res + existing if kind == "prefix" else existing + res
    elif kind == "filename":
        res = out.get("prefix", "") + res + out.get("suffix", "")
        out.pop("prefix", None)
        out.pop("suffix", None)
    context.setdefault("output", out)[kind] = res


def run_mkfn(r, obs):
    import lena.output
    ctx0 = MK_CONTEXTS[r["ctx"]]
    first = r["first"]
    tails = [()]
    for n in (1, 2):
        tails.extend(itertools.product(range(len(MK_VOCAB)), repeat=n))
    for tail in tails:
        chain = [MK_VOCAB[first]] + [MK_VOCAB[j] for j in tail]
        real_ctx = copy.deepcopy(ctx0)
        value = (7, real_ctx) if real_ctx is not None else 7
        model = copy.deepcopy(ctx0) if ctx0 is not None else {}
        desc = "chain %r on context %r" % (chain, ctx0)
        obs.count("mkfn_chains")
        for kind, fs, ow in chain:
            el = lena.output.MakeFilename(**{kind: fs, "overwrite": ow})
            before = copy.deepcopy(value[1]) if isinstance(value, tuple) else {}
            value = el(value)
            after = value[1] if isinstance(value, tuple) else {}
            mk_model(model, (kind, fs, ow))
            bo, ao = before.get("output", {}), after.get("output", {})
            # never replaces an existing name unless overwrite is set
            if not ow:
                for key in ("filename", "dirname", "fileext"):
                    if key in bo:
                        obs.check(ao.get(key) == bo[key],
                                  "makefilename-replaced-existing-%s" % key,
                                  "MakeFilename(%s=%r) changed existing output.%s %r -> %r "
                                  "without overwrite; %s" % (kind, fs, key, bo[key],
                                                             ao.get(key), desc))
        got = value[1] if isinstance(value, tuple) else {}
        if got != (ctx0 if ctx0 is not None else {}):
            obs.nontrivial = True
        # prefix and suffix applied exactly once to a file name made from them:
        # every affix token occurs in the final name as often as in the model's
        fn = got.get("output", {}).get("filename")
        mfn = model.get("output", {}).get("filename")
        affix_bad = None
        if isinstance(fn, str) and isinstance(mfn, str):
            for tok in ("A_", "Ba_", "C_", "E_", "_Y", "_Z", "_S"):
                if fn.count(tok) != mfn.count(tok):
                    affix_bad = (tok, fn.count(tok), mfn.count(tok))
        if affix_bad:
            obs.check(False, "makefilename-affix-not-once",
                      "affix %r occurs %d time(s) in file name %r, expected %d (%r); %s"
                      % (affix_bad[0], affix_bad[1], fn, affix_bad[2], mfn, desc))
        else:
            go, mo = got.get("output", {}), model.get("output", {})
            differ = sorted(k for k in set(go) | set(mo) if go.get(k, ABSENT) != mo.get(k, ABSENT))
            obs.check(got == model, "makefilename-model-differs:" + (
                "+".join(differ) if differ else "outside-output"),
                "context after %s is %r, reference model gives %r" % (desc, got, model))
        if isinstance(value, tuple):
            obs.check(value[0] == 7, "makefilename-data-changed", "data part changed; " + desc)


def run_latexfail(r, obs):
    """LaTeXToPDF / PDFToPNG over tex files of which some cannot be converted: every file named
    by a yielded value exists, and the convertible ones are all converted."""
    import shutil
    import tempfile
    import time
    import lena.core
    import lena.output
    from rv.props import _out_stubs
    obs.nontrivial = True
    n, failmask, slow = r["n"], r["fail"], r["slow"]
    root = os.path.realpath(tempfile.mkdtemp(prefix="rv_c19_f_"))
    stubs = _out_stubs.Stubs(os.path.join(root, "bin"), os.path.join(root, "stub.log"))
    stubs.install_path()
    try:
        texs = []
        for i in range(n):
            p = os.path.join(root, "t%d.tex" % i)
            with open(p, "w") as f:
                f.write("doc %d\n%s\nend" % (i, r.get("how", "FAILLATEX")
                                               if failmask >> i & 1 else "fine"))
            texs.append(p)

        def flow():
            for p in texs:
                yield (p, {"output": {"filetype": "tex", "changed": True}})
                if slow:
                    time.sleep(0.06)        # the converter (a few ms) has finished by now
        seq = lena.core.Sequence(
            lena.output.LaTeXToPDF(verbose=0, create_command=stubs.create_command),
            lena.output.PDFToPNG(verbose=False))
        import contextlib
        import io
        with contextlib.redirect_stdout(io.StringIO()):
            out = list(seq.run(flow()))
        obs.count("converter_failure_runs")
        missing = [v[0] for v in out if isinstance(v, tuple) and isinstance(v[0], str)
                   and not os.path.exists(v[0])]
        obs.check(not missing, "yielded-file-does-not-exist:converter-%s:%s-flow"
                  % ("failed" if "how" not in r else "killed-by-signal",
                     "slow" if slow else "fast"),
                  "LaTeXToPDF/PDFToPNG over %d tex files (failing: %s, %s flow) yielded %r, of "
                  "which %r do not exist" % (n, [i for i in range(n) if failmask >> i & 1],
                                             "slow" if slow else "fast",
                                             [v[0] for v in out], missing))
        good = sorted(os.path.join(root, "t%d.png" % i) for i in range(n)
                      if not failmask >> i & 1)
        got = sorted(v[0] for v in out if isinstance(v, tuple))
        obs.check(got == good, "yielded-values-wrong:converter-failed",
                  "yielded %r, the convertible files give %r" % (got, good))
        for i in range(n):
            if not failmask >> i & 1:
                pdf = os.path.join(root, "t%d.pdf" % i)
                obs.check(os.path.exists(pdf), "pdf-missing:convertible-file",
                          "%s was not produced" % pdf)
    finally:
        stubs.restore_path()
        shutil.rmtree(root, ignore_errors=True)


def _text(n, salt=""):
    """Deterministic text of *n* characters made of csv-like lines."""
    out, i = [], 0
    while sum(len(x) + 1 for x in out) < n + 40:
        out.append("%d.000000,%d%s" % (i, (i * 7919) % 1000, salt))
        i += 1
    return "\n".join(out)[:n]


def run_writetable(r, obs):
    """Write given text for a file that exists: afterwards the file holds exactly the new text
    and output.changed is true iff the content changed (existing_unchanged: the file is
    documented to be left alone)."""
    import shutil
    import tempfile
    import lena.output
    size, opt = r["size"], r["opt"]
    obs.nontrivial = True
    new = _text(size)
    if r.get("nonascii"):
        new = ("\u00b5m, 20 \u00b0C, caf\u00e9 \u2192 \u2713\n" + new)[:max(size, 12)]
        size = len(new)
    relations = {
        "equal": new,
        "existing-is-strict-prefix": new[:max(0, size - 7)],
        "existing-is-prefix-of-half": new[:size // 2],
        "existing-is-longer": new + "\n9,9",
        "differs-at-last-char": (new[:-1] + "#") if size else "#",
        "differs-in-the-middle": (new[:size // 2] + "#" + new[size // 2 + 1:]) if size else "##",
        "differs-at-first-char": ("#" + new[1:]) if size else "###",
        "existing-empty": "",
    }
    d = tempfile.mkdtemp(prefix="rv_c19_w_")
    try:
        for rel, old in sorted(relations.items()):
            kw = {"verbose": False}
            if opt != "default":
                kw[opt] = True
            w = lena.output.Write(d, **kw)
            path = os.path.join(d, "t.csv")
            with open(path, "w") as f:
                f.write(old)
            for prev_changed in (None, False, True):
                with open(path, "w") as f:
                    f.write(old)
                ctx = {"output": {"filename": "t", "fileext": "csv"}}
                if prev_changed is not None:
                    ctx["output"]["changed"] = prev_changed
                res = list(w.run(iter([(new, ctx)])))
                obs.count("write_table_rows")
                with open(path) as f:
                    on_disk = f.read()
                flag = res[0][1].get("output", {}).get("changed") if res and \
                    isinstance(res[0], tuple) else "no-result"
                differs = old != new
                if opt == "existing_unchanged":
                    exp_disk, exp_flag = old, bool(prev_changed)
                elif opt == "overwrite":
                    exp_disk, exp_flag = new, True
                else:
                    exp_disk, exp_flag = new, (True if differs else bool(prev_changed))
                sz = "over-64KiB" if size > 65536 else "up-to-64KiB"
                obs.check(on_disk == exp_disk,
                          "file-content-wrong:write-existing:%s:%s:%s" % (opt, rel, sz),
                          "Write(%s) of %d characters over an existing file (%s, %d characters): "
                          "the file now holds %d characters%s"
                          % (opt, len(new), rel, len(old), len(on_disk),
                             "" if len(on_disk) > 60 else " %r" % on_disk))
                obs.check(bool(flag) == exp_flag and flag != "no-result",
                          "write-changed-flag-wrong:existing:%s:%s:%s" % (opt, rel, sz),
                          "Write(%s) of %d characters over an existing file (%s), incoming "
                          "output.changed=%r: yielded output.changed=%r, expected %r"
                          % (opt, len(new), rel, prev_changed, flag, exp_flag))
    finally:
        shutil.rmtree(d, ignore_errors=True)


TYPED_SEQS = [[1, 1.0], [1.0, 1], [True, 1, 1.0], [0, 0.0, False], [0.0, -0.0], [2, 2.0, 2],
              ["1", 1], [1, 2, 3], ["a", "a"], [1, 1], ["Dec:1.0", "Dec:1.00"],
              ["Frac:2/2", 1], [[1, 2], [1, 2]], ["mut"]]


def _typed_value(x):
    import decimal
    import fractions
    if isinstance(x, str) and x.startswith("Dec:"):
        return decimal.Decimal(x[4:])
    if isinstance(x, str) and x.startswith("Frac:"):
        a, b = x[5:].split("/")
        return fractions.Fraction(int(a), int(b))
    return x


def run_typednames(r, obs):
    """One MakeFilename (+ Write with a formatted directory) over a flow whose consecutive
    values carry format arguments that are equal but print differently (1, 1.0, True) - or the
    same mutable object changed in place between two values: every value gets the name and the
    file its own context gives, and every named file holds its own value's text."""
    import shutil
    import tempfile
    import lena.core
    import lena.output
    obs.nontrivial = True
    seq_r, where, dup = TYPED_SEQS[r["seq"]], r["where"], r["dup"]
    d = tempfile.mkdtemp(prefix="rv_c19_t_")
    try:
        if seq_r == ["mut"]:
            shared = [1]
            vals = [shared, shared, shared]
        else:
            vals = [_typed_value(x) for x in seq_r]
        mk = lena.output.MakeFilename("run_{{run}}") if where != "dirname" else \
            lena.output.MakeFilename("f{{i}}", dirname="d_{{run}}")
        wdir = d if where != "writedir" else os.path.join(d, "o_{{sel}}")
        els = [mk, lena.output.Write(wdir, verbose=False)]
        pipe = lena.core.Sequence(*els)
        if dup:
            pipe = copy.deepcopy(pipe)

        def flow():
            for i, v in enumerate(vals):
                if seq_r == ["mut"]:
                    v[0] = i + 1           # the same list, changed in place
                yield ("text of value %d" % i,
                       {"run": v, "i": i, "output": {"fileext": "txt"}})
        static = {"sel": "x"}
        if where == "writedir":
            pipe._set_context(static)
        out = []
        expected = []
        for i, res in enumerate(pipe.run(flow())):
            out.append(res)
        for i, v in enumerate(vals):
            shown = "[%d]" % (i + 1) if seq_r == ["mut"] else "{}".format(v)
            if where == "dirname":
                rel = os.path.join("d_" + shown, "f%d.txt" % i)
            else:
                rel = "run_%s.txt" % shown
            base = d if where != "writedir" else os.path.join(d, "o_x")
            expected.append(os.path.join(base, rel))
        obs.count("typed_name_flows")
        got_paths = [res[0] if isinstance(res, tuple) else res for res in out]
        obs.check(got_paths == expected, "file-name-differs-from-format:equal-but-differently-"
                  "printed-arguments" + (":deep-copied-pipeline" if dup else ""),
                  "MakeFilename/Write over the flow of run values %r yielded files %r, the format "
                  "strings give %r" % (seq_r, [os.path.relpath(p, d) for p in got_paths
                                               if isinstance(p, str)],
                                       [os.path.relpath(p, d) for p in expected]))
        # the last value written to a path is what the file holds
        last_text = {}
        for i, p in enumerate(expected):
            last_text[p] = "text of value %d" % i
        for p, text in sorted(last_text.items()):
            try:
                with open(p) as f:
                    on_disk = f.read()
            except OSError:
                on_disk = None
            obs.check(on_disk == text, "file-content-wrong:typed-names",
                      "file %s holds %r, the (last) value named so has %r (run values %r)"
                      % (os.path.relpath(p, d), on_disk, text, seq_r))
    finally:
        shutil.rmtree(d, ignore_errors=True)


# contexts of table values: without any output key, with an empty one, with other output keys
TABLE_CTXS = [None, {}, {"output": {}}, {"output": {"dirname": "tabs"}},
              {"output": {"filetype": "csv"}}, {"other": {"k": 1}}]


def run_tables(r, obs):
    """RenderLaTeX(select_data=user selector, from_data=...) -> MakeFilename -> Write over
    several table values (dicts of rows) whose contexts have no output part or a partial one,
    interleaved with values that are not selected; two runs, the second with one table changed:
    every file is named from its own value, holds the text rendered from its own data,
    and is flagged changed exactly when its content changed."""
    import shutil
    import tempfile
    import lena.core
    import lena.output
    obs.nontrivial = True
    base = TABLE_CTXS[r["ctx"]]
    n, from_data = r["n"], r["from_data"]
    d = tempfile.mkdtemp(prefix="rv_c19_tab_")
    try:
        tdir = os.path.join(d, "templates")
        os.makedirs(tdir)
        with open(os.path.join(tdir, "tab.tex"), "w") as f:
            f.write("TABLE \\VAR{ title }\n\\BLOCK{ for row in rows }\n"
                    "\\VAR{ row[0] } & \\VAR{ row[1] }\n\\BLOCK{ endfor }\nend")
        odir = os.path.join(d, "out")

        def is_table(val):
            data = val[0] if isinstance(val, tuple) else val
            return isinstance(data, dict) and "rows" in data

        def build():
            return lena.core.Sequence(
                lena.output.RenderLaTeX("tab.tex", template_dir=tdir, select_data=is_table,
                                        from_data=bool(from_data)),
                lena.output.MakeFilename("{{title}}"),
                lena.output.Write(odir, verbose=False))

        def flow(version):
            for i in range(n):
                table = {"title": "t%d" % i,
                         "rows": [[i, version if i == 0 else 7], [i + 1, 3]]}
                if base is None and from_data:
                    ctx = {}
                else:
                    ctx = copy.deepcopy(base) if base is not None else {}
                ctx["title"] = table["title"]
                if not from_data:
                    ctx["rows"] = table["rows"]
                yield (table, ctx)
                yield 1000 + i                       # not selected, no context, not writable
            return

        def expected_text(i, version):
            rows = [[i, version if i == 0 else 7], [i + 1, 3]]
            return "TABLE t%d\n" % i + "".join("%s & %s\n" % (a, b) for a, b in rows) + "end"

        pipe = build()
        for run_i, version in enumerate((1, 1, 2)):
            if run_i == 2 and r["ctx"] % 2:
                pipe = build()              # a new pipeline object for the last run
            out = list(pipe.run(flow(version)))
            obs.count("table_runs")
            tables = [v for v in out if isinstance(v, tuple)]
            others = [v for v in out if not isinstance(v, tuple)]
            obs.check(len(tables) == n and len(others) == n,
                      "flow-length-changed:tables",
                      "run %d of the table pipeline over %d tables and %d other values yielded "
                      "%d tuples and %d others" % (run_i, n, n, len(tables), len(others)))
            for i, v in enumerate(tables[:n]):
                path, ctx = v
                sub = (base or {}).get("output", {}).get("dirname", "")
                exp_path = os.path.join(odir, sub, "t%d.tex" % i)
                obs.check(path == exp_path, "file-name-differs-from-format:tables",
                          "run %d: table %d (context %r, from_data=%r) was written to %r, its "
                          "own title gives %r" % (run_i, i, base, from_data,
                                                  os.path.relpath(str(path), d),
                                                  os.path.relpath(exp_path, d)))
                try:
                    with open(exp_path) as f:
                        on_disk = f.read()
                except OSError:
                    on_disk = None
                obs.check(on_disk == expected_text(i, version), "file-content-wrong:tables",
                          "run %d: file %s holds %r, the table named so renders to %r"
                          % (run_i, os.path.relpath(exp_path, d), on_disk,
                             expected_text(i, version)))
                flag = ctx.get("output", {}).get("changed") if isinstance(ctx, dict) else None
                if run_i == 0 or (run_i == 2 and i == 0):
                    # (a file created without the flag is the recorded open finding)
                    obs.check(flag is True, "write-changed-flag-not-true:tex-%s"
                              % ("created" if run_i == 0 else "rewritten"),
                              "run %d: Write %s the file of table %d but yielded "
                              "output.changed=%r" % (run_i, "created" if run_i == 0 else "rewrote",
                                                     i, flag))
                else:
                    obs.check(not flag, "write-changed-flag-wrong:tables",
                              "run %d: table %d is unchanged but yielded output.changed=%r"
                              % (run_i, i, flag))
                oc = ctx.get("output", {}) if isinstance(ctx, dict) else {}
                obs.check(oc.get("filename") == "t%d" % i and oc.get("fileext") == "tex"
                          and oc.get("filetype") == "tex",
                          "context-output-wrong:tables",
                          "run %d: table %d yielded context.output %r" % (run_i, i, oc))
            ids = [id(v[1].get("output")) for v in tables if isinstance(v[1], dict)]
            obs.check(len(set(ids)) == len(ids), "output-context-shared-between-values:tables",
                      "run %d: %d tables yielded %d distinct context.output objects"
                      % (run_i, len(ids), len(set(ids))))
    finally:
        shutil.rmtree(d, ignore_errors=True)


_REPORTED = {}          # mech -> number of violations reported by this worker process
MAX_PER_MECH = 4        # per worker process; further repeats are counted, not listed


def run_case(r, obs):
    try:
        if r["k"] == "hist":
            run_history(r, obs)
        elif r["k"] == "mkfn":
            run_mkfn(r, obs)
        elif r["k"] == "writetable":
            run_writetable(r, obs)
        elif r["k"] == "latexfail":
            run_latexfail(r, obs)
        elif r["k"] == "typednames":
            run_typednames(r, obs)
        elif r["k"] == "tables":
            run_tables(r, obs)
        else:
            raise ValueError(r["k"])
    finally:
        from rv.props import _out_stubs
        _out_stubs.limit_repeats(obs, _REPORTED, MAX_PER_MECH)


RULE += (' Added: Write against an existing file (9 sizes around 64 KiB x 8 relations of the new text to the existing content x 3 option sets x 3 incoming flags); MakeFilename contexts with empty existing names.')
RULE += (' Added: converters terminated by a signal (KILL / TERM) instead of exiting with a status; '
         'one MakeFilename / Write over flows whose consecutive values carry format arguments that '
         'are equal but print differently (1 / 1.0 / True, Decimal 1.0 / 1.00, a list changed in '
         'place), original and deep-copied pipeline.')
RULE += (' Added: tables - RenderLaTeX(select_data=user selector, from_data on/off) -> MakeFilename '
         '-> Write over 1..3 table values whose contexts have no output part (or an empty / '
         'partial one) interleaved with unselected values, three runs (same, same, one table '
         'changed): own name, own content, changed flag, distinct context.output objects.')
RULE += (' Added: Write of text with non-ASCII characters over an existing file (same relations).')

RULE += (' Round 10: 34 and 40 plots in one flow (thorough: up to 70).')
