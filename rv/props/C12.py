"""C12 - histogram and graph arithmetic, scaling and conversions keep every cell.

Deciding monitors: live contracts with snapshots (rv/props/_c12_contracts.py) on the real
histogram.scale / add / set_nevents and graph.scale (evaluated however the rescale is
reached: direct, ScaleTo, scale_to, GroupScale), and reference oracles in the workload
for hist_to_graph, iter_bins / iter_bins_with_edges / iter_cells and the CSV writers.
"""
import copy
import itertools
import math
import random
from fractions import Fraction

from rv import gen
from rv.props import _c12_contracts as con
from rv.props._c06_monitor import flat_bins, unify_edges

ID = "C12"
REPO_TESTS = "C12"   # the repository's tests also run under this property's monitors
LEVEL = "exploration"
RULE = ("seeded random 1-3-dimensional histograms with list edges (uniform ints/floats, "
        "random non-uniform, mixed, a few extreme widths that exercise the domain guard) and "
        "int / float / mixed / zero / cancelling contents and n_out_of_range; graphs with "
        "1..3 coordinates, 0..3 error fields in every unambiguous naming (incl. prefix-related "
        "names), 0..8 points, scale None / 0 / number. Case kinds: histogram rescale and graph "
        "rescale (routes: direct, ScaleTo, scale_to, GroupScale with number or selector, "
        "allow_* flags; twice in a row), add (equal edges, shifted / longer / shorter / other "
        "dimension edges; weights != 0), set_nevents (+-include_out_of_range), hist_to_graph "
        "(left/right/middle, make_value, scale), iterator agreement incl. iter_cells ranges "
        "and coord_ranges, hist1d/2d_to_csv and ToCSV (separators, header, row ends, "
        "duplicate_last_bin by argument and by context). Non-trivial: the operation acted on "
        "a structure with at least one non-zero cell / point (or is a rejection case)")
ASSUMPTIONS = ["list edges, numeric cells (ints/floats, no NaN/inf)",
               "exact cell volume, integral, s/old and products inside [1e-200, 1e200] "
               "(otherwise the call is discarded and counted)",
               "a stored scale is fresh (the docs leave recomputing after fills to the user)",
               "nearly-equal edges (1e-9 < rel. difference <= 1e-6) are not generated for add"]
ANCHORS = [("lena/structures/histogram.py", 166, 207), ("lena/structures/histogram.py", 265, 323),
           ("lena/structures/histogram.py", 330, 369),
           ("lena/structures/hist_functions.py", 299, 391),
           ("lena/structures/hist_functions.py", 438, 612),
           ("lena/structures/graph.py", 195, 271), ("lena/output/to_csv.py", 120, 180),
           ("lena/output/to_csv.py", 224, 337), ("lena/flow/group_scale.py", 8, 98),
           ("lena/structures/elements.py", 119, 138)]
MUST_REACH = ["lena/structures/histogram.py:histogram.scale",
              "lena/structures/histogram.py:histogram.add",
              "lena/structures/histogram.py:histogram.set_nevents",
              "lena/structures/histogram.py:histogram.get_nevents",
              "lena/structures/hist_functions.py:integral",
              "lena/structures/hist_functions.py:hist_to_graph",
              "lena/structures/hist_functions.py:iter_bins",
              "lena/structures/hist_functions.py:iter_bins_with_edges",
              "lena/structures/hist_functions.py:iter_cells",
              "lena/structures/graph.py:graph.scale",
              "lena/output/to_csv.py:hist1d_to_csv", "lena/output/to_csv.py:hist2d_to_csv",
              "lena/output/to_csv.py:ToCSV.run", "lena/flow/group_scale.py:scale_to",
              "lena/flow/group_scale.py:GroupScale.__call__",
              "lena/structures/elements.py:ScaleTo.__call__"]
MUST_COUNT = ["contract_evals_hist_rescale", "contract_evals_hist_scale_computed",
              "contract_evals_hist_recomputed_scale", "contract_evals_graph_rescale",
              "contract_evals_add", "contract_evals_set_nevents", "contract_cells_compared",
              "graph_points_compared", "iterator_cells_compared", "csv_rows_parsed",
              "rejections_observed"]
MIN_NONTRIVIAL = {"quick": 5000, "thorough": 150000}
NCASES = {"quick": 12000, "thorough": 400000}
NBIG = {"quick": 60, "thorough": 3000}
LEVEL_TEXT = ("Seeded random exploration; every call of the real histogram.scale/add/"
              "set_nevents and graph.scale is judged by a contract with exact rational "
              "arithmetic (4 ulp per cell, forward-error bound for the recomputed integral), "
              "conversions are compared with an index-product reference. Held on the K "
              "evaluations in the evidence; calls outside the overflow guard are discarded and "
              "counted; says nothing about non-numeric cells, tuple edges, ROOT/numpy structures.")
LEVEL_NOTE = ("Trusts Fraction arithmetic, math.ulp and Python float parsing; iter_cells with "
              "coord_ranges is only checked for self-consistency (its inclusion rule is not "
              "part of the property).")
TECHNIQUE = "live contracts with snapshots (exact rational oracle) + reference-model conversions"

U = Fraction(1, 2 ** 53)


# ------------------------------------------------------------------ generators
def g_axis(rng, nb):
    kind = rng.choice(["uint", "uint", "ufloat", "ufloat", "random", "random", "mixed",
                       "extreme", "extreme"] if rng.random() < 0.3 else
                      ["uint", "uint", "ufloat", "ufloat", "random", "random", "mixed"])
    n = nb + 1
    if kind == "uint":
        a, st = rng.randint(-10, 10), rng.choice([1, 1, 2, 5, 100])
        arr = [a + i * st for i in range(n)]
    elif kind == "ufloat":
        a = rng.choice([0.0, -1.0, 0.5, rng.uniform(-10, 10)])
        h = rng.choice([0.1, 0.25, 1.0, 1 / 3.0, 2.5, 1e-3, rng.uniform(0.01, 50)])
        arr = [a + i * h for i in range(n)]
    elif kind == "random":
        sc = 10.0 ** rng.randint(-3, 4)
        arr = sorted(rng.uniform(-1, 1) * sc for _ in range(n))
    elif kind == "mixed":
        arr = sorted(rng.choice([rng.randint(-30, 30), rng.uniform(-30, 30)]) for _ in range(n))
    else:
        sc = rng.choice([1e-150, 1e-110, 1e-80, 1e80, 1e110, 1e150])
        arr = sorted(rng.uniform(-1, 1) * sc for _ in range(n))
    out = []
    for x in arr:
        if not out or x > out[-1]:
            out.append(x)
    while len(out) < 2:
        out.append(out[-1] + 1)
    return out


def g_content(rng, kind):
    if kind == "ints":
        return rng.randint(-5, 50)
    if kind == "posints":
        return rng.randint(0, 30)
    if kind == "floats":
        return rng.uniform(-1, 1) * 10 ** rng.randint(-4, 5)
    if kind == "posfloats":
        return rng.uniform(0, 1) * 10 ** rng.randint(-2, 3)
    if kind == "zeros":
        return rng.choice([0, 0, 0.0])
    return rng.choice([rng.randint(-5, 50), rng.uniform(-100, 100), 0, 0.5, 2.0])


def nest(flat, nbins):
    out = list(flat)
    for n in reversed(nbins[1:]):
        out = [out[i:i + n] for i in range(0, len(out), n)]
    return out


def g_hist(rng, dim=None, ckind=None, big=False):
    dim = dim or rng.choice([1, 1, 1, 2, 2, 3])
    maxb = {1: 12, 2: 5, 3: 3}[dim]
    if big:
        lo, hi = {1: (65, 2100), 2: (9, 50), 3: (5, 13)}[dim]
        axes = [g_axis(rng, rng.choice([lo, hi, rng.randint(lo, hi), rng.randint(lo, hi)]))
                for _ in range(dim)]
    else:
        axes = [g_axis(rng, rng.randint(1, maxb)) for _ in range(dim)]
    nbins = [len(a) - 1 for a in axes]
    ncell = 1
    for n in nbins:
        ncell *= n
    ckind = ckind or rng.choice(["ints", "ints", "posints", "floats", "floats", "posfloats",
                                 "mixed", "zeros", "cancel"])
    if ckind == "cancel":
        half = [rng.randint(1, 9) for _ in range(ncell)]
        flat = [v if i % 2 == 0 else -half[i - 1] for i, v in enumerate(half)]
        if ncell % 2:
            flat[-1] = 0
    else:
        flat = [g_content(rng, ckind) for _ in range(ncell)]
    oor = rng.choice([0, 0, rng.randint(1, 20), rng.uniform(0, 50), 2.5])
    return {"edges": axes[0] if dim == 1 else axes, "bins": nest(flat, nbins), "oor": oor}


NAME_POOLS = [["x", "y", "z"], ["E", "time", "n"], ["a", "ab", "abc"], ["x", "xx", "x2"],
              ["t", "value", "w"], ["y", "x", "error"]]
SUFFIXES = ["", "_low", "_high", "_low_90%_cl", "_stat", "_1"]


def g_graph(rng, scale=None):
    nc = rng.choice([1, 2, 2, 2, 3, 3])
    names = list(rng.choice(NAME_POOLS)[:nc])
    if rng.random() < 0.3:
        rng.shuffle(names)
    fields = list(names)
    for _ in range(rng.choice([0, 0, 1, 1, 2, 3])):
        f = "error_" + rng.choice(names) + rng.choice(SUFFIXES)
        if f not in fields:
            fields.append(f)
    npts = rng.choice([0, 1, 2, 3, 5, 8])
    kind = rng.choice(["ints", "floats", "mixed"])
    coords = [[g_content(rng, kind) for _ in range(npts)] for _ in fields]
    if scale is None:
        scale = rng.choice(["none", "zero", "zerof", "num", "num", "num", "num", "num"])
    sc = {"none": None, "zero": 0, "zerof": 0.0}.get(scale, "num")
    if sc == "num":
        sc = g_target(rng)
    gr = {"coords": coords, "fields": fields, "scale": sc}
    if len(fields) >= 2 and rng.random() < 0.3:
        # the same list object given for two fields (symmetric errors passed as low and
        # high error, a y = x graph made from one list, errors equal to the values)
        pairs = [[i, j] for i in range(len(fields)) for j in range(i + 1, len(fields))]
        gr["alias"] = rng.sample(pairs, min(len(pairs), rng.choice([1, 1, 2])))
    return gr


def g_target(rng):
    return rng.choice([1, 2, 10, -3, 1000, 0.5, 1e-3, 2.5e4, 1.0, 7,
                       rng.uniform(-1, 1) * 10 ** rng.randint(-6, 8) or 1.5,
                       rng.randint(1, 10 ** 6)])


ROUTES = ["direct", "direct", "ScaleTo", "ScaleTo-bare", "scale_to", "GroupScale",
          "GroupScale-sel", "GroupScale-allow"]


def cases(tier, seed):
    n = NCASES[tier]
    for j, (edges, ncell) in enumerate([([0, 1, 2, 3], 3), ([[0, 1, 2], [0, 5, 6]], 4),
                                        ([0, 10], 1)]):
        for w in (1, 2, -1, 0.5):
            for explicit in (True, False):
                rng = gen.rng_for(seed, "C12", "objects", j, w, explicit)
                yield {"k": "add_objects", "edges": edges, "w": w, "explicit": explicit,
                       "a": [rng.randint(-5, 9) for _ in range(ncell)],
                       "b": [rng.randint(-5, 9) for _ in range(ncell)]}
    # histograms of hundreds to thousands of cells
    for i in range(NBIG[tier]):
        rng = gen.rng_for(seed, "C12big", i)
        k = rng.choice(["hscale", "hscale", "nevents", "conv"])
        h = g_hist(rng, ckind=rng.choice(["posints", "posfloats", "ints", "floats"]), big=True)
        if k == "hscale":
            yield {"k": k, "hist": h, "s": [g_target(rng), g_target(rng)],
                   "route": rng.choice(ROUTES), "pre": rng.random() < 0.5,
                   "mate": g_graph(rng, "num"), "big": 1}
        elif k == "nevents":
            yield {"k": k, "hist": h, "n": rng.choice([1, 100, 2.5, 10 ** 6]),
                   "incl": rng.random() < 0.5, "big": 1}
        else:
            h = g_hist(rng, dim=rng.choice([1, 2]), big=True)
            yield {"k": k, "hist": h, "coord": rng.choice(["left", "right", "middle"]),
                   "mv": None, "gscale": rng.choice([None, True, 5]),
                   "fn_str": False, "rs": rng.randint(0, 10 ** 9), "big": 1}
    for i in range(n):
        rng = gen.rng_for(seed, "C12", i)
        k = rng.choice(["hscale", "hscale", "hscale", "gscale", "gscale", "gscale", "add", "add",
                        "nevents", "conv", "conv", "csv", "csv"])
        if k == "hscale":
            yield {"k": k, "hist": g_hist(rng), "s": [g_target(rng), g_target(rng)],
                   "route": rng.choice(ROUTES), "pre": rng.random() < 0.5,
                   "mate": g_graph(rng, "num")}
        elif k == "gscale":
            yield {"k": k, "graph": g_graph(rng), "s": [g_target(rng), g_target(rng)],
                   "route": rng.choice(ROUTES),
                   "mate": g_hist(rng, ckind=rng.choice(["posints", "posfloats"]))}
        elif k == "add":
            a = g_hist(rng)
            rel = rng.choice(["same", "same", "same", "same", "same-object", "shifted", "moved",
                              "longer", "shorter", "dim+1", "dim-1"])
            yield {"k": k, "a": a, "rel": rel, "bkind": rng.choice(["ints", "floats", "mixed"]),
                   "boor": rng.choice([0, 3, 1.5]),
                   "w": rng.choice([1, 1, -1, 2, 0.5, 3.25, -2, 1e-3, 100,
                                    rng.uniform(-5, 5) or 1]),
                   "how": rng.choice(["pos", "kw", "default"]), "rs": rng.randint(0, 10 ** 9)}
        elif k == "nevents":
            yield {"k": k, "hist": g_hist(rng), "n": rng.choice(
                [1, 10, 1000, 0.5, 1e6, 123.25, rng.randint(1, 10 ** 5), rng.uniform(0.1, 1e4),
                 -2]), "incl": rng.random() < 0.5}
        elif k == "conv":
            h = g_hist(rng, ckind=rng.choice(["ints", "floats", "mixed", "posints"]))
            yield {"k": k, "hist": h, "coord": rng.choice(["left", "right", "middle"]),
                   "mv": rng.choice([None, None, "pair", "neg", "triple"]),
                   "gscale": rng.choice([None, True, 5, 2.5]),
                   "fn_str": rng.random() < 0.3, "rs": rng.randint(0, 10 ** 9)}
        else:
            h = g_hist(rng, dim=rng.choice([1, 1, 2, 2]),
                       ckind=rng.choice(["ints", "floats", "mixed", "posints"]))
            yield {"k": k, "hist": h, "sep": rng.choice([",", ",", ";", "\t", " ", " | ", "{{", "}", " {0} ", "{}", "%s", "\\"]),
                   "header": rng.choice([None, None, "x,y", "# header"]),
                   "dup": rng.choice([True, False]),
                   "ctxdup": rng.choice([None, None, True, False]),
                   "row_end": rng.choice(["", "", "\\\\", ";"]),
                   "last_row_end": rng.choice(["", "", "\\\\"]),
                   "with_ctx": rng.random() < 0.6}
    for coord in ["center", "LEFT", "", None]:
        yield {"k": "bad_coord", "coord": coord}
    for what in ["add-non-histogram", "field_names-list", "selector-none", "selector-two",
                 "group-not-a-list", "unknown-scale-Graph", "unknown-scale-Graph-allowed",
                 "zero-scale-Graph"]:
        yield {"k": "reject", "what": what}


# ------------------------------------------------------------------ builders
def setup_worker(tier):
    con.attach()


def build_hist(hr, lena):
    import copy
    h = lena.structures.histogram(copy.deepcopy(hr["edges"]), bins=copy.deepcopy(hr["bins"]))
    if hr.get("oor"):
        # real API: a value far outside every axis, with that weight
        E = unify_edges(hr["edges"])
        far = [a[-1] + abs(a[-1]) + 1 for a in E]
        h.fill(far[0] if len(E) == 1 else far, hr["oor"])
    return h


def build_graph(gr, lena):
    import copy
    coords = copy.deepcopy(gr["coords"])
    for i, j in gr.get("alias", []):
        coords[j] = coords[i]
    return lena.structures.graph(coords, field_names=tuple(gr["fields"]), scale=gr["scale"])


def cells_of(h, lena):
    """[(index, content, edges tuple)] by index product + get_bin_on_index."""
    E = unify_edges(h.edges)
    out = []
    for idx in itertools.product(*[range(len(a) - 1) for a in E]):
        out.append((idx, lena.structures.get_bin_on_index(list(idx), h.bins),
                    tuple((E[d][i], E[d][i + 1]) for d, i in enumerate(idx))))
    return out


def nonzero(h):
    return any(c != 0 for c in flat_bins(h.bins, len(unify_edges(h.edges))))


# ------------------------------------------------------------------ cases
def run_case(r, obs):
    import lena.core
    import lena.flow
    import lena.output
    import lena.structures
    con.attach()        # idempotent; --replay runs a case without setup_worker
    try:
        {"hscale": _hscale, "gscale": _gscale, "add": _add, "nevents": _nevents,
         "conv": _conv, "csv": _csv, "bad_coord": _bad_coord,
         "reject": _reject, "add_objects": _add_objects}[r["k"]](r, obs, lena)
    finally:
        con.flush(obs)


class Acc(object):
    """A bin content that is an object (bins may hold vectors, accumulators, histograms...):
    supports a + b, a * w and the in-place a += b, which changes the object itself."""

    def __init__(self, v, log=None):
        self.v = v

    def __add__(self, other):
        return Acc(self.v + (other.v if isinstance(other, Acc) else other))

    __radd__ = __add__

    def __iadd__(self, other):
        self.v += other.v if isinstance(other, Acc) else other
        return self

    def __mul__(self, w):
        return Acc(self.v * w)

    __rmul__ = __mul__

    def __eq__(self, other):
        return isinstance(other, Acc) and self.v == other.v

    def __ne__(self, other):
        return not self == other

    def __repr__(self):
        return "Acc(%r)" % (self.v,)


def _add_objects(r, obs, lena):
    """histogram.add with bins that are objects: cell-wise a + w*b in a NEW histogram, the
    operands (and the objects in their bins) unchanged."""
    from fractions import Fraction
    obs.nontrivial = True
    edges = r["edges"]
    va, vb, w = r["a"], r["b"], r["w"]

    def mk(vals):
        nested = [Acc(Fraction(v)) for v in vals]
        if isinstance(edges[0], list):
            n1 = len(edges[1]) - 1
            nested = [nested[i:i + n1] for i in range(0, len(nested), n1)]
        return lena.structures.histogram(copy_edges(edges), bins=nested)

    def flat(h):
        out = []
        for row in h.bins:
            out.extend(row if isinstance(row, list) else [row])
        return out
    a, b = mk(va), mk(vb)
    a_objs, b_objs = flat(a), flat(b)
    res = a.add(b, w) if w != 1 or r["explicit"] else a.add(b)
    obs.count("contract_evals_add_objects")
    exp = [Fraction(x) + Fraction(w) * Fraction(y) for x, y in zip(va, vb)]
    got = [c.v for c in flat(res)]
    obs.check(got == exp, "add-wrong-cells:object-bins",
              "histogram.add with object bins %r + %r * %r gives %r, expected %r"
              % (va, w, vb, got, [float(e) for e in exp]))
    obs.check([c.v for c in a_objs] == [Fraction(v) for v in va]
              and [c.v for c in b_objs] == [Fraction(v) for v in vb]
              and all(x is y for x, y in zip(flat(a), a_objs)),
              "add-modifies-operand:object-bins",
              "after a.add(b, %r) the objects in the bins of the operands hold %r and %r, they "
              "held %r and %r" % (w, [float(c.v) for c in a_objs], [float(c.v) for c in b_objs],
                                  va, vb))
    obs.check(not any(x is y for x in flat(res) for y in a_objs + b_objs),
              "add-result-shares-bin-objects-with-operand",
              "the result of add() holds the very bin objects of an operand")


def copy_edges(e):
    import copy
    return copy.deepcopy(e)


def _rescale(route, s, target, mate, lena, obs):
    """Rescale *target* to *s* by *route*. Returns 'ok' or 'rejected'."""
    LVE = lena.core.LenaValueError
    ctx = {"tag": {"a": 1}}
    try:
        if route == "direct":
            res = target.scale(s)
            obs.check(res is None, "rescale-returns-value", "scale(%r) returned %r" % (s, res))
        elif route in ("ScaleTo", "ScaleTo-bare"):
            val = (target, ctx) if route == "ScaleTo" else target
            res = lena.structures.ScaleTo(s)(val)
            obs.check(isinstance(res, tuple) and len(res) == 2 and res[0] is target and
                      (res[1] is ctx if route == "ScaleTo" else res[1] == {}),
                      "ScaleTo-result-shape", "ScaleTo(%r)(%r) returned %r" % (s, val, res))
        elif route == "scale_to":
            group = [(target, ctx), (mate, {"m": 1})]
            res = lena.flow.scale_to(s, group)
            obs.check(res is None and group[0][0] is target, "scale_to-result", "%r" % (res,))
        elif route in ("GroupScale", "GroupScale-allow"):
            allow = route.endswith("allow")
            group = [(mate, {"m": 1}), (target, ctx)]
            res = lena.flow.GroupScale(s, allow_zero_scale=allow, allow_unknown_scale=allow)(group)
            obs.check(res is group, "GroupScale-result", "GroupScale returned %r" % (res,))
        elif route == "GroupScale-sel":
            group = [(target, ctx), (mate, {"m": 1})]
            res = lena.flow.GroupScale(type(mate))(group)
            obs.check(res is group, "GroupScale-result", "GroupScale returned %r" % (res,))
        else:
            raise AssertionError(route)
    except LVE:
        obs.count("rejections_observed")
        return "rejected"
    return "ok"


def _hscale(r, obs, lena):
    h = build_hist(r["hist"], lena)
    mate = build_graph(r["mate"], lena)
    if r["pre"]:
        h.scale()
    route = r["route"]
    s1, s2 = r["s"]
    if route == "GroupScale-sel":
        s1 = mate.scale()          # everything is scaled to the mate's scale
    out = _rescale(route, s1, h, mate, lena, obs)
    old_zero = None
    if out == "rejected":
        # contract has judged the exception; the statement side: the scale must be zero
        sc = h.scale()
        mate_bad = not mate.scale()
        obs.check(sc == 0 or mate_bad, "hist-rescale-rejected-nonzero-scale",
                  "rescale of %r to %r by %s raised LenaValueError, scale() = %r"
                  % (h, s1, route, sc))
        obs.nontrivial = True
        return
    sc = h.scale()
    if route == "GroupScale-allow" and sc == 0:
        obs.count("zero_scale_ignored_by_allow")
        obs.nontrivial = True
        return
    obs.check(sc == s1, "hist-scale-after-rescale-not-s",
              "after rescale to %r by %s scale() = %r" % (s1, route, sc))
    h.scale(recompute=True)          # the get-contract compares it with the exact integral
    # a second rescale uses the stored scale
    out2 = "ok"
    try:
        h.scale(s1)
        h.scale(s2)
    except lena.core.LenaValueError:
        out2 = "rejected"
        obs.count("rejections_observed")
    if out2 == "ok":
        obs.check(h.scale() == s2, "hist-scale-after-rescale-not-s",
                  "after second rescale to %r scale() = %r" % (s2, h.scale()))
        h.scale(recompute=True)
    if nonzero(h):
        obs.nontrivial = True


def _gscale(r, obs, lena):
    g = build_graph(r["graph"], lena)
    mate = build_hist(r["mate"], lena)
    route = r["route"]
    s1, s2 = r["s"]
    old = g.scale()
    if route == "GroupScale-sel":
        s1 = mate.scale()
    out = _rescale(route, s1, g, mate, lena, obs)
    if out == "rejected":
        mate_bad = mate.scale() == 0
        obs.check(not old or mate_bad, "graph-rescale-rejected-known-scale",
                  "rescale of %r to %r by %s raised LenaValueError" % (g, s1, route))
        obs.nontrivial = True
        return
    if route == "GroupScale-allow" and not old:
        obs.check(g.scale() == old or (g.scale() is None and old is None),
                  "graph-allow-zero-scale-changed", "%r" % (g,))
        obs.count("zero_scale_ignored_by_allow")
        obs.nontrivial = True
        return
    obs.check(g.scale() == s1, "graph-scale-after-rescale-not-s",
              "after rescale to %r by %s scale() = %r" % (s1, route, g.scale()))
    try:
        g.scale(s2)
        obs.check(g.scale() == s2, "graph-scale-after-rescale-not-s",
                  "after second rescale to %r scale() = %r" % (s2, g.scale()))
    except lena.core.LenaValueError:
        obs.count("rejections_observed")
    if g.coords and any(v != 0 for v in g.coords[g.dim - 1]):
        obs.nontrivial = True


def _other_edges(ar, rel, rng):
    import copy
    e = copy.deepcopy(ar["edges"])
    E = e if isinstance(e[0], list) else [e]
    ax = rng.randrange(len(E))
    if rel == "shifted":
        E[ax][:] = [x + 1 for x in E[ax]]
    elif rel == "moved":
        j = rng.randrange(len(E[ax]))
        if j < len(E[ax]) - 1:
            E[ax][j] = E[ax][j] + (E[ax][j + 1] - E[ax][j]) / 2.0
        else:
            E[ax][j] = E[ax][j] + (E[ax][j] - E[ax][j - 1]) / 2.0
    elif rel == "longer":
        E[ax].append(E[ax][-1] + (E[ax][-1] - E[ax][-2]))
    elif rel == "shorter":
        if len(E[ax]) <= 2:
            E[ax][:] = [x + 1 for x in E[ax]]
        else:
            E[ax].pop()
    elif rel == "dim+1":
        E = E + [[0, 1, 2]]
    elif rel == "dim-1":
        E = E[:-1] if len(E) > 1 else [[x + 1 for x in E[0]]]
    return E[0] if len(E) == 1 else E


def _add(r, obs, lena):
    rng = random.Random(r["rs"])
    a = build_hist(r["a"], lena)
    rel = r["rel"]
    if rel == "same-object":
        eb = a.edges
    else:
        eb = _other_edges(r["a"], rel, rng)
    Eb = unify_edges(eb)
    nb = [len(x) - 1 for x in Eb]
    ncell = 1
    for n in nb:
        ncell *= n
    try:
        b = lena.structures.histogram(
            eb, bins=nest([g_content(rng, r["bkind"]) for _ in range(ncell)], nb))
    except lena.core.LenaValueError:
        obs.count("discarded_generated_edges_not_increasing")
        return
    if r["boor"]:
        far = [x[-1] + abs(x[-1]) + 1 for x in Eb]
        b.fill(far[0] if len(Eb) == 1 else far, r["boor"])
    w = r["w"]
    # operands whose scale was computed (or set by a rescale) before the addition
    pre_scaled = rng.random()
    try:
        if pre_scaled < 0.35:
            a.scale()
        elif pre_scaled < 0.5 and a.scale() != 0:
            a.scale(rng.choice([1, 2.5, 100]))
        if 0.3 < pre_scaled < 0.6:
            b.scale()
        if pre_scaled < 0.6 and rng.random() < 0.5:
            # an operand changed after its scale was computed (its stored scale is stale, which
            # is the user's business for that operand - not for the sum, a new histogram)
            Ea = unify_edges(a.edges)
            pt = [x[0] + (x[1] - x[0]) / 3.0 for x in Ea]
            a.fill(pt[0] if len(Ea) == 1 else pt, rng.choice([1, 2, 7.5]))
            obs.count("add_operands_filled_after_scale")
        obs.count("add_operands_scaled_before")
    except Exception:  # pylint: disable=broad-except
        pass
    res = None
    try:
        if r["how"] == "default" or w == 1 and r["how"] == "pos" and rng.random() < 0.5:
            res = a.add(b)
        elif r["how"] == "kw":
            res = a.add(b, weight=w)
        else:
            res = a.add(b, w)
        obs.count("add_returned")
        # the sum used like any histogram: its scale, then a rescale (both under contract)
        s0 = res.scale()
        if s0 != 0 and con.fin(s0):
            res.scale(rng.choice([1, 3, 0.5]))
    except lena.core.LenaValueError:
        obs.count("rejections_observed")
    except Exception:  # pylint: disable=broad-except
        # the contract recorded the wrong exception type (mech add-unequal-edges-wrong-exception)
        obs.count("add_raised_other_exception")
    obs.nontrivial = True


def _nevents(r, obs, lena):
    h = build_hist(r["hist"], lena)
    n, incl = r["n"], r["incl"]
    try:
        if incl:
            res = h.set_nevents(n, include_out_of_range=True)
        else:
            res = h.set_nevents(n)
        obs.check(res is None, "set_nevents-returns-value", "%r" % (res,))
    except lena.core.LenaValueError:
        obs.count("rejections_observed")
        obs.nontrivial = True
        return
    # the real get_nevents is the sum of the contents (the contract has tied that sum to n)
    got = h.get_nevents(include_out_of_range=True) if incl else h.get_nevents()
    flat = flat_bins(h.bins, len(unify_edges(h.edges)))
    vals = list(flat) + ([h.n_out_of_range] if incl else [])
    exact = sum((Fraction(v) for v in vals), Fraction(0))
    S = sum((abs(Fraction(v)) for v in vals), Fraction(0))
    obs.count("get_nevents_compared")
    obs.check(abs(Fraction(got) - exact) <= (len(vals) + 2) * U * S, "get_nevents-is-not-the-sum",
              "get_nevents(%r) = %r, contents sum to %r" % (incl, got, float(exact)))
    if nonzero(h):
        obs.nontrivial = True


MAKE_VALUE = {
    "pair": (lambda v: (v, abs(v) ** 0.5), 2),
    "neg": (lambda v: -v, 1),
    "triple": (lambda v: (v, v * 0.5, v * 2), 3),
}


def _conv(r, obs, lena):
    h = build_hist(r["hist"], lena)
    ref = cells_of(h, lena)
    E = unify_edges(h.edges)
    dim = len(E)
    rng = random.Random(r["rs"])
    # ---- hist_to_graph
    mv, nval = MAKE_VALUE.get(r["mv"], (None, 1))
    cnames = ["x", "y", "z", "v"][:dim + 1]
    fields = cnames + ["error_%s%s" % (cnames[-1], sfx) for sfx in ["", "_low"][:nval - 1]]
    fn = ",".join(fields) if r["fn_str"] else tuple(fields)
    kw = {}
    if r["gscale"] is not None:
        kw["scale"] = r["gscale"]
    g = lena.structures.hist_to_graph(h, make_value=mv, get_coordinate=r["coord"],
                                      field_names=fn, **kw)
    exp_cols = [[] for _ in fields]
    for idx, content, edges in ref:
        if r["coord"] == "left":
            pt = [lo for lo, hi in edges]
        elif r["coord"] == "right":
            pt = [hi for lo, hi in edges]
        else:
            pt = [(Fraction(lo) + Fraction(hi)) / 2 for lo, hi in edges]
        val = content if mv is None else mv(content)
        val = list(val) if isinstance(val, tuple) else [val]
        for col, x in zip(exp_cols, pt + val):
            col.append(x)
    ok = isinstance(g, lena.structures.graph) and len(g.coords) == len(exp_cols) and \
        all(len(a) == len(b) for a, b in zip(g.coords, exp_cols))
    if ok:
        for ci, (got, exp) in enumerate(zip(g.coords, exp_cols)):
            for a, b in zip(got, exp):
                if isinstance(b, Fraction):
                    if not con.within_ulps(a, b, 2):
                        ok = False
                elif a != b:
                    ok = False
    obs.count("graph_points_compared", len(ref))
    obs.check(ok, "hist_to_graph-points-differ:" + r["coord"],
              "hist_to_graph(histogram(%r, %r), get_coordinate=%r, make_value=%r) has coords %r, "
              "expected one point per cell in index order: %r"
              % (h.edges, h.bins, r["coord"], r["mv"], getattr(g, "coords", g),
                 [[float(x) if isinstance(x, Fraction) else x for x in c] for c in exp_cols]))
    obs.check(getattr(g, "field_names", None) == tuple(fields), "hist_to_graph-field-names",
              "field names %r, expected %r" % (getattr(g, "field_names", None), fields))
    if r["gscale"] is None:
        obs.check(g.scale() is None, "hist_to_graph-scale", "default scale is %r" % (g.scale(),))
    elif r["gscale"] is True:
        obs.check(g.scale() == h.scale(), "hist_to_graph-scale",
                  "scale=True gave %r, histogram scale %r" % (g.scale(), h.scale()))
    else:
        obs.check(g.scale() == r["gscale"], "hist_to_graph-scale", "%r" % (g.scale(),))
    # ---- one HistToGraph element converting two histograms with the same number of bins and
    # the same outer edges but different inner edges: each graph has its own coordinates
    def moved(edges_):
        out = []
        for a in unify_edges(edges_):
            a = list(a)
            for j in range(1, len(a) - 1):
                a[j] = a[j] + (a[j + 1] - a[j]) / 3.0
            out.append(a)
        return out if len(out) > 1 else out[0]
    if any(len(a) > 2 for a in E):
        h_moved = lena.structures.histogram(moved(h.edges), bins=copy.deepcopy(h.bins))
        el_g = lena.structures.HistToGraph(get_coordinate=r["coord"])
        both = list(el_g.run(iter([(h, {}), (h_moved, {})]))) + \
            list(el_g.run(iter([(h_moved, {})])))
        alone = [lena.structures.hist_to_graph(x, get_coordinate=r["coord"])
                 for x in (h, h_moved, h_moved)]
        obs.count("graph_points_compared", 3 * len(ref))
        okc = len(both) == 3 and all(
            isinstance(b[0], lena.structures.graph) and b[0].coords == a.coords
            for b, a in zip(both, alone))
        obs.check(okc, "hist_to_graph-points-differ:one-element-several-binnings",
                  "one HistToGraph element over histograms with edges %r and %r (same number of "
                  "bins, same range): graphs %r, hist_to_graph of each gives %r"
                  % (h.edges, h_moved.edges, [getattr(b[0], "coords", b) for b in both],
                     [a.coords for a in alone]))
    # ---- a make_value that fails for one cell (next() on an exhausted iterator of per-bin
    # corrections raises StopIteration): an error, never a graph with fewer points than cells
    import lena.variables
    for nok in sorted(set([0, len(ref) // 2])):
        if nok >= len(ref):
            continue

        def mkf(nok=nok):
            it = iter(range(nok))
            return lambda v: (lena.flow.get_data(v) if not isinstance(v, (int, float)) else v,
                              next(it))[0]
        for route in ("function", "element"):
            try:
                if route == "function":
                    gg = lena.structures.hist_to_graph(h, make_value=mkf(),
                                                       get_coordinate=r["coord"])
                    npts = len(gg.coords[0])
                else:
                    outv = list(lena.structures.HistToGraph(
                        lena.variables.Variable("corr", mkf()),
                        get_coordinate=r["coord"]).run(iter([(h, {})])))
                    npts = len(outv[0][0].coords[0]) if outv and isinstance(
                        outv[0][0], lena.structures.graph) else None
            except (StopIteration, RuntimeError):
                obs.count("make_value_failures_propagated")
                continue
            obs.check(npts == len(ref) or npts is None,
                      "hist_to_graph-loses-cells:make_value-raises-StopIteration",
                      "make_value raises StopIteration for cell no. %d of %d; %s returned a graph "
                      "with %r point(s) instead of failing"
                      % (nok, len(ref), "hist_to_graph" if route == "function" else
                         "HistToGraph.run", npts))
    # ---- the three iterators agree with the index product (content, index, edges)
    ib = list(lena.structures.iter_bins(h.bins))
    obs.check(ib == [(idx, c) for idx, c, _ in ref], "iter_bins-differs",
              "iter_bins(%r) = %r" % (h.bins, ib))
    ibe = list(lena.structures.iter_bins_with_edges(h.bins, h.edges))
    obs.check(ibe == [(c, e) for _, c, e in ref], "iter_bins_with_edges-differs",
              "iter_bins_with_edges(%r, %r) = %r" % (h.bins, h.edges, ibe))

    def norm(cells):
        return [(tuple(c.index), c.bin, tuple(tuple(p) for p in c.edges)) for c in cells]
    ic = list(lena.structures.iter_cells(h))
    obs.check(norm(ic) == ref and all(isinstance(c, lena.structures.HistCell) for c in ic),
              "iter_cells-differs", "iter_cells(histogram(%r, %r)) = %r" % (h.edges, h.bins, ic))
    obs.count("iterator_cells_compared", 3 * len(ref))
    # index ranges = the corresponding slice
    nb = [len(a) - 1 for a in E]
    for _ in range(3):
        ranges = []
        for n in nb:
            lo = rng.choice([None, 0, rng.randint(0, n)])
            up = rng.choice([None, n, rng.randint(0, n)])
            ranges.append((lo, up))
        exp = [c for c in ref if all((lo or 0) <= i < (n if up is None else up)
                                     for i, (lo, up), n in zip(c[0], ranges, nb))]
        got = norm(lena.structures.iter_cells(h, ranges=tuple(ranges)))
        obs.count("iterator_cells_compared", len(exp))
        obs.check(got == exp, "iter_cells-ranges-differ",
                  "iter_cells(histogram(%r, ..), ranges=%r) yields indices %r, slice is %r"
                  % (h.edges, ranges, [c[0] for c in got], [c[0] for c in exp]))
    # documented rejections
    bad = [(-1, None)] + [(None, None)] * (dim - 1)
    _expect(obs, lena, lena.core.LenaValueError, "iter_cells-negative-range-accepted",
            lambda: list(lena.structures.iter_cells(h, ranges=tuple(bad))))
    bad = [(None, None)] * (dim - 1) + [(0, nb[-1] + 1)]
    _expect(obs, lena, lena.core.LenaValueError, "iter_cells-too-large-range-accepted",
            lambda: list(lena.structures.iter_cells(h, ranges=tuple(bad))))
    full = tuple([(None, None)] * dim)
    _expect(obs, lena, lena.core.LenaTypeError, "iter_cells-both-ranges-accepted",
            lambda: list(lena.structures.iter_cells(
                h, ranges=full, coord_ranges=tuple((a[0], a[-1]) for a in E))))
    # coord_ranges: only self-consistency of what is yielded (inclusion rule not in the property)
    cr = []
    for a in E:
        w = a[-1] - a[0]
        x, y = sorted([rng.uniform(a[0] - 0.3 * w, a[-1] + 0.3 * w),
                       rng.uniform(a[0] - 0.3 * w, a[-1] + 0.3 * w)])
        cr.append((x, y))
    got = norm(lena.structures.iter_cells(h, coord_ranges=tuple(cr)))
    refmap = dict((c[0], c) for c in ref)
    obs.count("iterator_cells_compared", len(got))
    obs.check(all(c[0] in refmap and refmap[c[0]] == c for c in got) and
              [c[0] for c in got] == sorted(set(c[0] for c in got)),
              "iter_cells-coord_ranges-inconsistent",
              "iter_cells(histogram(%r, %r), coord_ranges=%r) = %r" % (h.edges, h.bins, cr, got))
    if nonzero(h):
        obs.nontrivial = True


def _expect(obs, lena, exc_type, mech, thunk):
    try:
        thunk()
    except exc_type:
        obs.count("rejections_observed")
        obs.count("oracle_evaluations")
    except Exception as e:  # pylint: disable=broad-except
        obs.fail(mech.replace("accepted", "wrong-exception"), "raised %r instead of %s"
                 % (e, exc_type.__name__))
    else:
        obs.fail(mech, "no %s raised" % exc_type.__name__)


def _bad_coord(r, obs, lena):
    obs.nontrivial = True
    h = lena.structures.histogram([0, 1, 2], bins=[1, 2])
    _expect(obs, lena, lena.core.LenaValueError, "hist_to_graph-bad-get_coordinate-accepted",
            lambda: lena.structures.hist_to_graph(h, get_coordinate=r["coord"]))


def _reject(r, obs, lena):
    """Documented rejections around the operations of the property (small table)."""
    obs.nontrivial = True
    what = r["what"]
    h = lena.structures.histogram([0, 1, 2], bins=[1, 2])
    h2 = lena.structures.histogram([0, 1, 3], bins=[1, 1])
    g = lena.structures.graph([[0, 1], [2, 3]], scale=2)
    LVE, LTE = lena.core.LenaValueError, lena.core.LenaTypeError
    if what == "add-non-histogram":
        _expect(obs, lena, LTE, "add-non-histogram-accepted", lambda: h.add([1, 2]))
    elif what == "field_names-list":
        _expect(obs, lena, LTE, "hist_to_graph-list-field_names-accepted",
                lambda: lena.structures.hist_to_graph(h, field_names=["x", "y"]))
    elif what == "selector-none":
        _expect(obs, lena, LVE, "scale_to-no-candidate-accepted",
                lambda: lena.flow.scale_to(lena.structures.graph, [(h, {}), (h2, {})]))
    elif what == "selector-two":
        _expect(obs, lena, LVE, "scale_to-two-candidates-accepted",
                lambda: lena.flow.scale_to(lena.structures.histogram, [(h, {}), (h2, {}), (g, {})]))
        obs.check(h.bins == [1, 2] and h2.bins == [1, 1] and g.coords == [[0, 1], [2, 3]],
                  "scale_to-rejected-but-changed", "%r %r %r" % (h, h2, g))
    elif what == "group-not-a-list":
        _expect(obs, lena, LVE, "GroupScale-iterator-accepted",
                lambda: lena.flow.GroupScale(2)(iter([(h, {})])))
    else:
        pts = [((0,), (1,)), ((1,), (3,))]
        G = lena.structures.Graph(list(pts), scale=0 if what.startswith("zero") else None,
                                  sort=False)
        if what == "unknown-scale-Graph-allowed":
            lena.flow.scale_to(5, [(G, {}), (h, {})], allow_unknown_scale=True)
            obs.check(G.points == pts and h.scale() == 5, "scale_to-allow-unknown-scale",
                      "%r %r" % (G, h))
        else:
            _expect(obs, lena, LVE, "scale_to-unknown-or-zero-scale-accepted",
                    lambda: lena.flow.scale_to(5, [(G, {}), (h, {})]))
            obs.check(G.points == pts, "scale_to-rejected-but-changed", "%r" % (G,))


def _csv_expected(h, dup):
    E = unify_edges(h.edges)
    if len(E) == 1:
        n = len(E[0]) - 1
        rows = [(E[0][i], h.bins[i]) for i in range(n)]
        if dup:
            rows.append((E[0][n], h.bins[n - 1]))
        return rows
    n0, n1 = len(E[0]) - 1, len(E[1]) - 1
    rows = []
    for ix in range(n0 + (1 if dup else 0)):
        for iy in range(n1 + (1 if dup else 0)):
            rows.append((E[0][ix], E[1][iy], h.bins[min(ix, n0 - 1)][min(iy, n1 - 1)]))
    return rows


def _parse_rows(lines, sep):
    out = []
    for ln in lines:
        out.append(tuple(float(t) for t in ln.split(sep)))
    return out


def _rows_close(got, exp):
    if len(got) != len(exp):
        return False
    for g, e in zip(got, exp):
        if len(g) != len(e):
            return False
        for a, b in zip(g, e):
            if abs(Fraction(a) - Fraction(b)) > Fraction(5000001, 10 ** 13) + \
                    abs(Fraction(b)) * Fraction(1, 2 ** 51):
                return False
    return True


def _csv(r, obs, lena):
    h = build_hist(r["hist"], lena)
    dim = len(unify_edges(h.edges))
    sep, header, dup = r["sep"], r["header"], r["dup"]
    func = lena.output.hist1d_to_csv if dim == 1 else lena.output.hist2d_to_csv
    snapshot = (repr(h.edges), repr(h.bins))
    # the line generators
    lines = list(func(h, header=header, separator=sep, duplicate_last_bin=dup))
    exp = _csv_expected(h, dup)
    ncell = len(_csv_expected(h, False))
    body = lines[1:] if header else lines
    obs.check(not header or (lines and lines[0] == header), "csv-header-missing",
              "first line %r, header %r" % (lines[:1], header))
    _judge_rows(obs, body, sep, exp, dup, h, "hist%dd_to_csv" % dim)
    # defaults: separator ',', duplicate_last_bin True
    lines = list(func(h))
    _judge_rows(obs, lines, ",", _csv_expected(h, True), True, h, "hist%dd_to_csv-defaults" % dim)
    # the element
    el = lena.output.ToCSV(separator=sep, header=header, duplicate_last_bin=dup,
                           row_end=r["row_end"], last_row_end=r["last_row_end"])
    eff_dup = dup
    ctx = {"n": {"k": 1}}
    if r["ctxdup"] is not None:
        ctx["output"] = {"duplicate_last_bin": r["ctxdup"]}
        eff_dup = r["ctxdup"]
    val = (h, ctx) if (r["with_ctx"] or r["ctxdup"] is not None) else h
    res = list(el.run([val, "passes", 17]))
    obs.check(len(res) == 3 and res[1] == "passes" and res[2] == 17, "ToCSV-flow-shape",
              "ToCSV.run yielded %r" % (res,))
    ok = len(res) >= 1 and isinstance(res[0], tuple) and len(res[0]) == 2 and \
        isinstance(res[0][0], str)
    obs.check(ok, "ToCSV-value-shape", "ToCSV yielded %r for a histogram" % (res[:1],))
    if ok:
        text = res[0][0]
        lre, re_ = r["last_row_end"], r["row_end"]
        good_end = text.endswith(lre)
        if lre:
            text = text[:len(text) - len(lre)]
        tl = text.split("\n")
        if re_:
            good_end = good_end and all(t.endswith(re_) for t in tl[:-1])
            tl = [t[:len(t) - len(re_)] if t.endswith(re_) else t for t in tl[:-1]] + tl[-1:]
        obs.check(good_end, "ToCSV-row-ends", "row_end %r last_row_end %r text %r"
                  % (re_, lre, res[0][0]))
        if header:
            obs.check(tl[0] == header, "csv-header-missing", "first line %r" % (tl[:1],))
            tl = tl[1:]
        _judge_rows(obs, tl, sep, _csv_expected(h, eff_dup), eff_dup, h,
                    "ToCSV" + (":context-duplicate_last_bin" if r["ctxdup"] is not None else ""))
    # one element, several histograms in one run: the option a value carries in its context
    # holds for that value only; the next one without the key gets the element's own setting
    el2 = lena.output.ToCSV(separator=sep, duplicate_last_bin=dup)
    seq_vals = [(copy_hist(h, lena), {"output": {"duplicate_last_bin": not dup}}),
                copy_hist(h, lena),
                (copy_hist(h, lena), {"k": 1}),
                (copy_hist(h, lena), {"output": {"duplicate_last_bin": dup}}),
                (copy_hist(h, lena), {"output": {"duplicate_last_bin": not dup}}),
                copy_hist(h, lena)]
    effs = [not dup, dup, dup, dup, not dup, dup]
    import copy as _copy
    import pickle as _pickle
    # the element itself, a deep copy and a pickle round trip of it (MapBins, SplitIntoBins and
    # Vectorize copy their sequences; a copied ToCSV is a ToCSV with the same options)
    variants = [("", el2), (":deep-copied-element", _copy.deepcopy(el2))]
    try:
        variants.append((":unpickled-element", _pickle.loads(_pickle.dumps(el2))))
    except Exception:  # pylint: disable=broad-except
        obs.count("elements_not_picklable")
    for vname, elv in variants:
        vals = _copy.deepcopy(seq_vals)
        res2 = list(elv.run(iter(vals)))
        obs.check(len(res2) == len(vals), "ToCSV-flow-shape", "ToCSV.run yielded %d values "
                  "for %d histograms" % (len(res2), len(vals)))
        for pos, (y, eff) in enumerate(zip(res2, effs)):
            if not (isinstance(y, tuple) and len(y) == 2 and isinstance(y[0], str)):
                obs.fail("ToCSV-value-shape", "ToCSV yielded %r" % (y,))
                break
            _judge_rows(obs, y[0].split("\n"), sep, _csv_expected(h, eff), eff, h,
                        "ToCSV:value-%d-of-a-flow-with-differing-context-options%s"
                        % (pos, vname))
    # a run abandoned right after a value whose context overrides the option (next() once, then
    # the generator is closed / dropped), then a new run of the same element: its own setting
    for how in ("close", "drop", "throw"):
        el3 = lena.output.ToCSV(separator=sep, duplicate_last_bin=dup)
        g3 = el3.run(iter([(copy_hist(h, lena), {"output": {"duplicate_last_bin": not dup}}),
                           copy_hist(h, lena)]))
        first = next(g3)
        if how == "close":
            g3.close()
        elif how == "throw":
            try:
                g3.throw(KeyError("consumer failed"))
            except KeyError:
                pass
        del g3
        res3 = list(el3.run(iter([copy_hist(h, lena)])))
        obs.count("abandoned_csv_runs")
        if len(res3) == 1 and isinstance(res3[0], tuple) and isinstance(res3[0][0], str):
            _judge_rows(obs, res3[0][0].split("\n"), sep, _csv_expected(h, dup), dup, h,
                        "ToCSV:run-after-an-abandoned-run-with-a-context-option")
        else:
            obs.fail("ToCSV-value-shape", "ToCSV yielded %r" % (res3,))
        if isinstance(first, tuple) and isinstance(first[0], str):
            _judge_rows(obs, first[0].split("\n"), sep, _csv_expected(h, not dup), not dup, h,
                        "ToCSV:first-value-of-an-abandoned-run")
    obs.check((repr(h.edges), repr(h.bins)) == snapshot, "csv-modifies-histogram", "%r" % (h,))
    if nonzero(h) and ncell:
        obs.nontrivial = True


def copy_hist(h, lena):
    import copy
    return lena.structures.histogram(copy.deepcopy(h.edges), bins=copy.deepcopy(h.bins))


def _judge_rows(obs, body, sep, exp, dup, h, what):
    try:
        got = _parse_rows(body, sep)
    except ValueError:
        obs.fail("csv-row-does-not-parse:" + what,
                 "%s(histogram(%r, %r)) with separator %r gave lines %r" % (what, h.edges, h.bins,
                                                                           sep, body))
        return
    obs.count("csv_rows_parsed", len(got))
    if len(got) != len(exp):
        obs.fail("csv-row-count:" + what,
                 "%s(histogram(%r, %r), duplicate_last_bin=%r): %d rows, expected %d"
                 % (what, h.edges, h.bins, dup, len(got), len(exp)))
        return
    obs.check(_rows_close(got, exp), "csv-rows-differ:" + what,
              "%s(histogram(%r, %r), duplicate_last_bin=%r) parses back to %r, expected %r"
              % (what, h.edges, h.bins, dup, got, exp))


RULE += (' A third of the graphs use one list object for two fields; one ToCSV element runs over six histograms whose contexts carry differing duplicate_last_bin options.')
RULE += (' Added: make_value functions that raise StopIteration for one cell (hist_to_graph must '
         'fail, not return fewer points); a ToCSV run abandoned (closed / dropped / failed '
         'consumer) right after a value with a context option, followed by a new run of the element.')
RULE += (' Added: csv separators made of braces, format directives and a backslash.')

RULE += (' Round 10: histograms of 65..2100 (1-d), 9..50 squared, 5..13 cubed cells for scale, set_nevents, hist_to_graph.')
