"""Reference model for C08: lookup, writer, deleter, renderers, generators.

Pure Python, never imports lena.
"""
import itertools

ABSENT = type("ABSENT", (), {"__repr__": lambda s: "ABSENT"})()
KEYS = ("a", "b", "c")
# leaves: numbers, strings (also strings equal to key names), falsy, lists (one containing a key)
LEAVES = [1, 0, 5, "x", "a", "b", "", None, True, [1, "b"], ["a"], 2.5, {}]


def cp(v):
    if type(v) is dict:
        return {k: cp(x) for k, x in v.items()}
    if type(v) is list:
        return [cp(x) for x in v]
    if type(v) is tuple:
        return tuple(cp(x) for x in v)
    return v


def isd(v):
    return isinstance(v, dict)


def get(ctx, path):
    """The addressed item or ABSENT (a path through a non-dict is ABSENT)."""
    cur = ctx
    for k in path:
        if not isd(cur) or k not in cur:
            return ABSENT
        cur = cur[k]
    return cur


def tname(v):
    return type(v).__name__


def tclass(v):
    """Coarse class of a non-dict value met on a path: str | list | scalar."""
    if isinstance(v, str):
        return "str"
    if isinstance(v, (list, tuple)):
        return "list"
    return "scalar"


def shape(ctx, path):
    """How *path* relates to *ctx*: present | absent | path-through-<type> | empty-key."""
    if not path:
        return "empty-key"
    cur = ctx
    for k in path:
        if not isd(cur):
            return "path-through-" + tclass(cur)
        if k not in cur:
            return "absent"
        cur = cur[k]
    return "present"


def merge(d, other):
    """In-place model of update_recursively."""
    for k, v in other.items():
        if not isd(v):
            d[k] = v
        elif k in d:
            if not isd(d[k]):
                d[k] = {}
            merge(d[k], v)
        else:
            d[k] = v


def write(ctx, path, val, recursively=True):
    """In-place reference writer (path non-empty): intermediate non-dicts are
    replaced by dicts; the last key is merged (recursively) or replaced."""
    sub = ctx
    for k in path[:-1]:
        if k not in sub or not isd(sub[k]):
            sub[k] = {}
        sub = sub[k]
    last = path[-1]
    if recursively:
        merge(sub, {last: val})
    else:
        sub[last] = val
    return ctx


def delete(ctx, path):
    """In-place reference deleter (path non-empty)."""
    parent = get(ctx, path[:-1])
    if isd(parent) and path[-1] in parent:
        del parent[path[-1]]
    return ctx


def contains(ctx, path):
    """Reference for lena.context.contains (path non-empty, proper components)."""
    if len(path) == 1:
        return path[0] in ctx
    prefix = get(ctx, path[:-1])
    if prefix is ABSENT:
        return False
    if isd(prefix):
        return path[-1] in prefix
    return str(prefix) == path[-1]


def all_paths(maxlen, keys=KEYS):
    out = []
    for n in range(0, maxlen + 1):
        for p in itertools.product(keys, repeat=n):
            out.append(list(p))
    return out


def leaf_items(ctx, path=()):
    for k, v in ctx.items():
        if isd(v) and v:
            for x in leaf_items(v, path + (k,)):
                yield x
        else:
            yield list(path + (k,)), v


def extra_paths(ctx):
    """Paths ending in the string form of a leaf (the documented 'stringified leaf' rule
    of contains) and in a foreign word."""
    out = []
    for p, v in leaf_items(ctx):
        if isd(v):
            continue
        s = str(v)
        if s and "." not in s:
            out.append(p + [s])
        out.append(p + ["zz"])
    # words that are the text of some value, under prefixes that do not exist (or are scalars)
    for pre in ([], ["zz"], ["zz", "zz"], ["a", "zz"], ["b"], ["c", "a"]):
        for word in ("None", "True", "0"):
            if pre or word:
                out.append(pre + [word])
    return out


def rand_ctx(rng, maxdepth=3, keys=KEYS, p_dict=0.5, leaves=LEAVES):
    d = {}
    for k in keys:
        if rng.random() < 0.3:
            continue
        if maxdepth > 1 and rng.random() < p_dict:
            d[k] = rand_ctx(rng, maxdepth - 1, keys, p_dict, leaves)
        else:
            d[k] = cp(rng.choice(leaves))
    return d


# ---- templates: list of pieces ["lit", text] | ["fld", path, conv]
def template_str(pieces):
    out = []
    for p in pieces:
        if p[0] == "lit":
            out.append(p[1])
        else:
            out.append("{{" + ".".join(p[1]) + (p[2] if len(p) > 2 and p[2] else "") + "}}")
    return "".join(out)


def fields(pieces):
    return [p for p in pieces if p[0] == "fld"]


def render_format(pieces, ctx):
    """str.format semantics (format_context): ABSENT if a field is absent."""
    out = []
    for p in pieces:
        if p[0] == "lit":
            out.append(p[1])
            continue
        v = get(ctx, p[1])
        if v is ABSENT:
            return ABSENT
        conv = p[2] if len(p) > 2 else None
        if conv == "!r":
            out.append(repr(v))
        elif conv == "!s":
            out.append(str(v))
        else:
            out.append("{}".format(v))
    return "".join(out)


def render_jinja(pieces, ctx):
    """(text with absent fields rendered as '', number of absent fields)."""
    out, missing = [], 0
    for p in pieces:
        if p[0] == "lit":
            out.append(p[1])
            continue
        v = get(ctx, p[1])
        if v is ABSENT:
            missing += 1
        else:
            out.append(str(v))
    return "".join(out), missing


LITS = ["x", "_", "-", " ", "lit", "a.b", "p:q", "1"]


def rand_template(rng, ctx, convs=(None, None, "!r", "!s"), maxfields=3):
    present = [p for p, _ in leaf_items(ctx)] if ctx else []
    # also inner (dict-valued) paths
    inner = [p[:-1] for p in present if len(p) > 1]
    nf = rng.randint(0, maxfields)
    pieces = []
    if rng.random() < 0.5:
        pieces.append(["lit", rng.choice(LITS)])
    for _ in range(nf):
        r = rng.random()
        if present and r < 0.55:
            path = rng.choice(present)
        elif inner and r < 0.7:
            path = rng.choice(inner)
        else:
            path = [rng.choice(KEYS) for _ in range(rng.randint(1, 4))]
        pieces.append(["fld", list(path), rng.choice(convs)])
        if rng.random() < 0.6:
            pieces.append(["lit", rng.choice(LITS)])
    return pieces


# ---- to_string: type-aware canonical form
def canon(v):
    if isinstance(v, dict):
        return ("D",) + tuple((k, canon(v[k])) for k in sorted(v))
    if isinstance(v, list):
        return ("L",) + tuple(canon(x) for x in v)
    return (type(v).__name__, v)


def shuffled(rng, v):
    """Same content, different key insertion order at every level."""
    if isinstance(v, dict):
        ks = list(v)
        rng.shuffle(ks)
        return {k: shuffled(rng, v[k]) for k in ks}
    if isinstance(v, list):
        return [shuffled(rng, x) for x in v]
    return v


JLEAVES = [0, 1, -1, 2, True, False, None, "", "a", "1", "true", "null", "a\"b", "é",
           1.5, 1.0, [], [1], [1, 2], [2, 1], ["1"], [[1]], [{"a": 1}], {}, "{}", "[]"]


def rand_json(rng, maxdepth=3, keys=("a", "b", "c", "ab", "")):
    d = {}
    for k in keys:
        if rng.random() < 0.45:
            continue
        if maxdepth > 1 and rng.random() < 0.35:
            d[k] = rand_json(rng, maxdepth - 1, keys)
        else:
            d[k] = cp(rng.choice(JLEAVES))
    return d


def mutate_json(rng, d):
    """A (usually) different value: change one leaf / key / type."""
    d = cp(d)
    cur = d
    while True:
        if not cur:
            cur[rng.choice(["a", "b"])] = cp(rng.choice(JLEAVES))
            return d
        k = rng.choice(sorted(cur))
        if isinstance(cur[k], dict) and rng.random() < 0.6:
            cur = cur[k]
            continue
        r = rng.random()
        if r < 0.2:
            del cur[k]
        elif r < 0.4:
            cur[k + "x"] = cur.pop(k)
        else:
            cur[k] = cp(rng.choice(JLEAVES))
        return d
