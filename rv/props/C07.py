"""C07 - nested-dictionary algebra: intersection, difference, update_recursively, update_nested.

Exhaustive enumeration of small nested dictionaries; every execution of the real
functions is watched by (a) contracts attached to the real functions at every
binding site (so recursive and internal callers - Split static context,
Zip._create_context, group_plots - are judged too) and (b) a law checker in
run_case that compares with a reference model of the containment order
(rv/props/_c07_model.py): meet, difference, recursive update, reconstruction.
"""
import copy
import itertools

from rv.props import _c07_model as M

ID = "C07"
REPO_TESTS = "C07"   # the repository's tests also run under this property's monitors
LEVEL = "exploration"
RULE = ("exhaustive over nested dicts with keys {a,b}: quick = all ordered pairs of the 361 "
        "dicts of depth<=2 with leaves {0,1,{}} plus all ordered pairs of the 81 dicts of "
        "depth<=1 with leaves {0,1,False,'','s',None,{},[]} (with the order-theoretic "
        "'greatest lower bound' check against all 81 candidates) plus all triples of the 36 "
        "depth<=1 dicts with leaves {0,1,'',{},[]}; thorough = all ordered pairs of the 3025 "
        "dicts of depth<=2 with leaves {0,1,'',None,{},[]}, all pairs (first component every "
        "12th dict, seed-rotated) of the 7921 dicts with all 8 leaves, all triples of the 81 "
        "8-leaf depth<=1 dicts; every pair at level in {-1,0,1,2}. Not exhaustive, seeded: "
        "random pairs/triples of depth<=3 (independent and locally perturbed partners) at "
        "level in {-1,0,1,2,3}; real users (Split._get_context, Zip._create_context, "
        "group_plots) on sampled contexts. One case = one d1 against the whole domain (or a "
        "chunk of sampled tuples). Non-trivial: the case saw at least one pair with a "
        "non-empty intersection and a non-empty difference")
ASSUMPTIONS = [
    "equality is Python == (0 == False, 1 == True), as lena itself compares",
    "dictionaries are finite trees without sharing between arguments (no recursive dicts)",
    "update_nested is only given an *other* whose chain other[key][key]... consists of "
    "dictionaries (the docs do not define a scalar other[key])",
    "update_recursively: *other* is required to compare equal to its snapshot after the call "
    "(it is not documented as modified; aliasing of its sub-dicts into d is allowed)",
]
ANCHORS = [("lena/context/functions.py", 63, 99), ("lena/context/functions.py", 329, 406),
           ("lena/context/functions.py", 526, 641), ("lena/flow/zip.py", 79, 92)]
MUST_REACH = ["lena/context/functions.py:intersection", "lena/context/functions.py:difference",
              "lena/context/functions.py:update_recursively",
              "lena/context/functions.py:update_nested",
              "lena/context/functions.py:update_nested.<locals>.get_most_nested_subdict_with",
              "lena/core/split.py:LenaSplit._get_context", "lena/flow/zip.py:Zip._create_context",
              "lena/flow/group_plots.py:group_plots"]
MUST_COUNT = ["contract_evals", "pairs", "triples", "reconstructions", "greatest_checks",
              "update_nested_calls"]
MIN_NONTRIVIAL = {"quick": 300, "thorough": 4000}
EXHAUSTIVE = {"quick": True, "thorough": True}
LEVEL_TEXT = ("Exhaustive enumeration of all ordered pairs (and triples of the depth-1 "
              "dictionaries) of nested dictionaries over two keys, depth <= 2, with truthy and "
              "falsy scalar, empty-dict and empty-list leaves, at every recursion level that "
              "can matter for that depth; each execution of the real functions is compared "
              "with a reference model of the containment order (meet, difference, recursive "
              "update), the algebraic laws (commutative, associative, idempotent, "
              "reconstruction) are evaluated on the real outputs, contracts attached to the "
              "real functions judge every call including recursive ones and the real users. "
              "Complete for the enumerated domain; depth 3 and level 3 only sampled.")
LEVEL_NOTE = ("Trusts the 60-line reference model (validated against the order-theoretic "
              "definition of the greatest lower bound on the depth-1 domain at run time) and "
              "Python == on JSON-like values.")
TECHNIQUE = "exhaustive workload + reference-model/law oracle + live contracts on the real functions"

LEAVES = {
    "q3": [0, 1, {}],
    "q5": [0, 1, "", {}, []],
    "t6": [0, 1, "", None, {}, []],
    "l8": M.LEAVES8,
}
# domain name -> (leaves name, depth)
DOMS = {"q3d2": ("q3", 2), "l8d1": ("l8", 1), "q5d1": ("q5", 1), "t6d2": ("t6", 2),
        "l8d2": ("l8", 2)}
LEVELS_PAIR = (-1, 0, 1, 2)
LEVELS_ALL = (-1, 0, 1, 2, 3)
NSAMPLE = {"quick": 150, "thorough": 3000}     # sampled chunks (40 tuples each)
NUSERS = {"quick": 120, "thorough": 1500}
NBIG = {"quick": 40, "thorough": 1500}

_dom_cache = {}


def domain(name):
    """Cached (dicts, reprs, idsets) of a named domain; the dict objects are handed to
    lena as 'unchanged' arguments and verified by repr after use."""
    if name not in _dom_cache:
        leaves, depth = DOMS[name]
        ds = M.enum_dicts(LEAVES[leaves], depth)
        _dom_cache[name] = [ds, [repr(d) for d in ds], [mids(d, set()) for d in ds]]
    return _dom_cache[name]


def mids(v, acc):
    """ids of all dicts and lists reachable from v."""
    if type(v) is dict:
        acc.add(id(v))
        for x in v.values():
            mids(x, acc)
    elif type(v) is list:
        acc.add(id(v))
        for x in v:
            mids(x, acc)
    elif isinstance(v, tuple):
        # immutable itself; the dicts / lists it holds are not
        for x in v:
            mids(x, acc)
    return acc


def shares(v, ids):
    if type(v) is dict:
        if id(v) in ids:
            return True
        for x in v.values():
            if shares(x, ids):
                return True
    elif type(v) is list:
        if id(v) in ids:
            return True
        for x in v:
            if shares(x, ids):
                return True
    elif isinstance(v, tuple):
        for x in v:
            if shares(x, ids):
                return True
    return False


def _deep(rng, depth):
    d = {"a": rng.choice([0, 1]), "b": rng.choice([0, 1, "s"])}
    for _ in range(depth):
        k = rng.choice("ab")
        up = {k: d}
        if rng.random() < 0.4:
            up["b" if k == "a" else "a"] = rng.choice([0, 1, "s", {}])
        d = up
    return d


def _deep_perturb(rng, d, depth):
    d = M.cp(d)
    for _ in range(rng.randint(1, 2)):
        at = rng.randint(int(depth * 0.5), depth + 1)
        cur = d
        for _lvl in range(at):
            nxt = [v for v in cur.values() if M.isd(v) and v]
            if not nxt:
                break
            cur = nxt[0]
        x = rng.random()
        k = rng.choice("ab")
        if x < 0.4 and not M.isd(cur.get(k)):
            cur[k] = rng.choice([2, "t", None])
        elif x < 0.7:
            cur["c"] = rng.choice([0, 1])
        elif not M.isd(cur.get(k)):
            cur.pop(k, None)
    return d


def cases(tier, seed):
    from rv import gen
    if tier == "quick":
        pair_doms = [("q3d2", 1, 0), ("l8d1", 1, 0)]
        triple_dom = "q5d1"
    else:
        pair_doms = [("t6d2", 1, 0), ("l8d1", 1, 0), ("l8d2", 12, seed % 12)]
        triple_dom = "l8d1"
    for dom, stride, off in pair_doms:
        leaves, depth = DOMS[dom]
        ds = M.enum_dicts(LEAVES[leaves], depth)
        for i in range(off, len(ds), stride):
            yield {"k": "pairs", "dom": dom, "d1": ds[i], "greatest": dom == "l8d1"}
    leaves, depth = DOMS[triple_dom]
    for d in M.enum_dicts(LEAVES[leaves], depth):
        yield {"k": "triples", "dom": triple_dom, "d1": d}
    for i in range(NSAMPLE[tier]):
        rng = gen.rng_for(seed, "C07", "s", i)
        items = []
        for _ in range(40):
            a = M.rand_dict(rng, 3)
            b = M.perturb(rng, a, 3) if rng.random() < 0.7 else M.rand_dict(rng, 3)
            c = M.perturb(rng, rng.choice([a, b]), 3) if rng.random() < 0.7 \
                else M.rand_dict(rng, 3)
            items.append([a, b, c])
        yield {"k": "sample", "items": items}
    # beyond the small sizes: chains nested 20..180 deep that differ near the bottom, and
    # dictionaries with 17..300 keys per level
    for i in range(NBIG[tier]):
        rng = gen.rng_for(seed, "C07", "big", i)
        items = []
        for _ in range(4):
            if rng.random() < 0.5:
                depth = rng.choice([20, 33, 64, 65, 66, 100, 129, rng.randint(20, 180)])
                a = _deep(rng, depth)
                b = _deep_perturb(rng, a, depth)
                c = _deep_perturb(rng, rng.choice([a, b]), depth)
            else:
                nk = rng.choice([17, 33, 64, 65, 100, 257, rng.randint(17, 300)])
                keys = ["k%d" % j for j in range(nk)]
                a = dict((k, M.rand_dict(rng, 2) if rng.random() < 0.3 else rng.choice([0, 1, "s", None]))
                         for k in keys)
                b, c = M.cp(a), M.cp(a)
                for dd in (b, c):
                    for k in rng.sample(keys, rng.randint(1, 6)):
                        x = rng.random()
                        if x < 0.3:
                            dd.pop(k)
                        elif x < 0.6:
                            dd[k] = rng.choice([2, "t", {}, {"a": 1}])
                        else:
                            dd[k] = M.rand_dict(rng, 2)
                    dd["extra%d" % rng.randint(0, 3)] = 1
            items.append([a, b, c])
        yield {"k": "sample", "items": items, "big": 1}
    for i in range(NUSERS[tier]):
        rng = gen.rng_for(seed, "C07", "u", i)
        a = M.rand_dict(rng, 3, keys=("a", "b", "output"))
        n = rng.randint(1, 4)
        ctxs = [a] + [M.perturb(rng, a, 3, keys=("a", "b", "output")) for _ in range(n - 1)]
        if rng.random() < 0.5:
            for c in ctxs:
                if rng.random() < 0.7:
                    c["output"] = {"changed": rng.choice([True, False, None]),
                                   "filename": rng.choice(["x", "y"])}
        yield {"k": "users", "ctxs": ctxs}
    yield {"k": "strform"}
    yield {"k": "edge"}
    # arguments that are dict subclasses with __missing__ (defaultdict, Counter): a key that
    # is absent is absent - d[key] would create it
    dd = M.enum_dicts(LEAVES["q3"], 2)
    step = 37 if tier == "quick" else 5
    for i in range(0, len(dd), step):
        yield {"k": "ddargs", "d1": dd[i], "others": dd[(i * 7) % len(dd)::max(1, len(dd) // 12)]}
    # arguments with sharing INSIDE (one sub-dictionary object under two keys: a DAG, not a
    # tree); the algebra is defined by value, so the results must equal those on tree copies
    subs = M.enum_dicts(LEAVES["q3"], 1)
    for i in range(0, len(subs), 2 if tier == "quick" else 1):
        yield {"k": "aliased", "x": subs[i]}
    # values that are tuples holding dictionaries and lists (the context of a Zip, tuples of
    # ranges): the result of intersection is a deep copy of them too
    yield {"k": "tupleleaf"}
    # update_recursively(d, "a.b.c") without a value, applied to several dictionaries in turn
    # with in-place updates of what it inserted in between
    for i in range(6 if tier == "quick" else 40):
        yield {"k": "strhist", "i": i, "rs": "%s/C07/strhist/%d" % (seed, i)}
    # long update_nested histories (a context.variable chain of up to 14 variables)
    for n in (3, 9, 10, 11, 12, 14):
        yield {"k": "nestchain", "n": n}


# ------------------------------------------------------------------ contracts
def _short(*vals):
    return ", ".join(repr(v)[:300] for v in vals)


def setup_worker(tier):
    import lena.context
    import lena.context.functions as F
    import lena.core
    import lena.flow
    import lena.meta
    import lena.structures  # binds update_nested users  # noqa
    from rv.monitors import contracts as C

    def w_intersection(orig):
        def intersection(*dicts, **kwargs):
            snap = repr(dicts)
            res = orig(*dicts, **kwargs)
            C.evaluations["intersection"] += 1
            if repr(dicts) != snap:
                C.report("intersection-changes-argument",
                         "intersection(%s, %r) changed an argument: before %s"
                         % (_short(*dicts), kwargs, snap[:600]))
            if isinstance(res, dict):
                ids = set()
                for d in dicts:
                    if isinstance(d, dict):
                        if not M.contained(res, d):
                            C.report("contract:intersection-result-not-contained",
                                     "intersection(%s, %r) = %r is not contained in %r"
                                     % (_short(*dicts), kwargs, res, d))
                        mids(d, ids)
                if shares(res, ids):
                    C.report("intersection-shares-mutable-with-argument",
                             "intersection(%s, %r) = %r shares a dict/list object with an "
                             "argument (not a deep copy)" % (_short(*dicts), kwargs, res))
            else:
                C.report("contract:intersection-result-not-dict",
                         "intersection(%s) returned %r" % (_short(*dicts), res))
            return res
        return intersection

    def w_difference(orig):
        def difference(d1, d2, level=-1):
            snap = repr((d1, d2))
            res = orig(d1, d2, level)
            C.evaluations["difference"] += 1
            if repr((d1, d2)) != snap:
                C.report("difference-changes-argument",
                         "difference(%s, level=%r) changed an argument: before %s"
                         % (_short(d1, d2), level, snap[:600]))
            if isinstance(d1, dict) and isinstance(d2, dict):
                if not (isinstance(res, dict) and M.contained(res, d1)):
                    C.report("contract:difference-result-not-contained-in-d1",
                             "difference(%s, level=%r) = %r" % (_short(d1, d2), level, res))
                elif level != 0:
                    # no item of the result is contained in d2
                    for k, v in res.items():
                        if k in d2 and (v == d2[k] or (
                                level != 1 and M.isd(v) and M.isd(d2[k])
                                and M.contained_l(v, d2[k], level - 1))):
                            C.report("contract:difference-keeps-contained-item",
                                     "difference(%s, level=%r) = %r keeps item %r which is "
                                     "contained in d2" % (_short(d1, d2), level, res, k))
                            break
            return res
        return difference

    def w_update_recursively(orig):
        def update_recursively(d, other, *args, **kwargs):
            snap = repr(other)
            res = orig(d, other, *args, **kwargs)
            C.evaluations["update_recursively"] += 1
            if isinstance(other, dict) and isinstance(d, dict) and other is not d:
                if repr(other) != snap:
                    C.report("update_recursively-changes-other",
                             "update_recursively(d, other) changed other: before %s after %r"
                             % (snap[:600], other))
                if not M.contained(other, d):
                    C.report("contract:update_recursively-other-not-contained",
                             "after update_recursively(d, %s) d = %r does not contain other"
                             % (snap[:600], d))
            if res is not None:
                C.report("contract:update_recursively-returns-value",
                         "update_recursively returned %r" % (res,))
            return res
        return update_recursively

    def w_update_nested(orig):
        def update_nested(key, d, other):
            had = isinstance(d, dict) and key in d
            prev = d[key] if had else None
            res = orig(key, d, other)
            C.evaluations["update_nested"] += 1
            if d.get(key, C) is not other:
                C.report("contract:update_nested-new-value-not-installed",
                         "after update_nested(%r, d, other) d[key] is not other: %r" % (key, d))
            elif had:
                cur, found, hops = other, False, 0
                while hops < 64:
                    try:
                        if key not in cur:
                            break
                        cur = cur[key]
                    except TypeError:
                        break
                    hops += 1
                    if cur is prev:
                        found = True
                        break
                if not found:
                    C.report("update_nested-previous-value-lost",
                             "after update_nested(%r, d, other) the previous d[key]=%r is not "
                             "reachable under other.%s.%s...: d=%r" % (key, prev, key, key, d))
            return res
        return update_nested

    C.attach(F, "intersection", w_intersection)
    C.attach(F, "difference", w_difference)
    C.attach(F, "update_recursively", w_update_recursively)
    C.attach(F, "update_nested", w_update_nested)


# ------------------------------------------------------------------ classifiers
def _falsy_class(v):
    if M.isd(v):
        return "empty-dict" if not v else None
    if not v:
        return "falsy-value"
    return None


def diff_mech(d1, d2, level, model, got):
    """Name the mechanism by which the real difference departs from the model."""
    if not M.isd(got):
        return "difference-returns-non-dict"
    fd = M.first_diff(model, got)
    kind, path, mv, gv = fd
    # a missing non-empty sub-difference: descend to the item that was really lost
    while (kind == "missing" and M.isd(mv) and mv and M.isd(M.at(d2, path))
           and (level < 0 or len(path) < level)):
        kind, sub, mv, gv = M.first_diff(mv, {})
        path = path + sub
    if kind == "missing":
        fc = _falsy_class(mv)
        if fc == "falsy-value":
            return "difference-drops-falsy-value"
        if fc == "empty-dict":
            if M.isd(M.at(d2, path)):
                return "difference-drops-empty-dict-at-level-limit"
            return "difference-drops-empty-dict"
    if level != -1 and got == M.diff(d1, d2, -1):
        return "difference-ignores-level"
    for other in (0, 1, 2, 3):
        if other != level and got == M.diff(d1, d2, other):
            return "difference-wrong-level"
    if kind == "missing":
        return "difference-drops-item"
    if kind == "extra":
        return "difference-extra-item"
    return "difference-wrong-value"


def int_mech(dicts, level, model, got):
    if not M.isd(got):
        return "intersection-returns-non-dict"
    if level != -1 and got == M.meet(dicts, -1):
        return "intersection-ignores-level"
    for other in (0, 1, 2, 3):
        if other != level and got == M.meet(dicts, other):
            return "intersection-wrong-level"
    if not all(M.contained(got, d) for d in dicts):
        return "intersection-not-contained-in-arguments"
    if M.contained(got, model):
        return "intersection-not-greatest"
    return "intersection-differs-from-model"


def upd_mech(d, other, model, got):
    if not M.contained(other, got):
        return "update_recursively-other-not-contained"
    fd = M.first_diff(model, got)
    if fd and fd[0] == "missing":
        return "update_recursively-loses-item-of-d"
    if fd and fd[0] == "extra":
        return "update_recursively-keeps-overwritten-item"
    return "update_recursively-differs-from-model"


_worker_seen = {}
PER_WORKER = 4


class Rep(object):
    """Per-case reporter: one witness per mechanism, cheap counting."""

    def __init__(self, obs):
        self.obs = obs
        self.seen = {}
        self.evals = 0

    def fail(self, mech, msg):
        # one witness per mechanism and case, at most PER_WORKER per worker process (the
        # worker keeps only its first 200 violation records: every mechanism must fit in)
        n = self.seen.get(mech, 0)
        self.seen[mech] = n + 1
        if n == 0:
            _worker_seen[mech] = _worker_seen.get(mech, 0) + 1
            if _worker_seen[mech] <= PER_WORKER:
                self.obs.fail(mech, msg)
            else:
                self.obs.count("violating_cases_folded")

    def close(self):
        from rv.monitors import contracts as C
        for v in C.drain():
            self.fail(v["mech"], v["msg"])
        self.obs.count("oracle_evaluations", self.evals)
        for mech, n in self.seen.items():
            if n > 1:
                self.obs.count("violating_checks_folded", n - 1)


def chain_ok(key, other):
    cur = other
    for _ in range(10):
        if not M.isd(cur):
            return False
        if key not in cur:
            return True
        cur = cur[key]
    return False


# ------------------------------------------------------------------ oracles
def check_pair(F, rep, obs, d1, d2, levels, ids12=None):
    """All binary laws for the ordered pair (d1, d2). d1, d2 are not modified by
    a correct lena; returns True if the case was non-trivial."""
    nontriv = False
    if ids12 is None:
        ids12 = mids(d2, mids(d1, set()))
    for L in levels:
        mI = M.meet2(d1, d2, L)
        I = F.intersection(d1, d2, level=L)
        rep.evals += 5
        int_ok = I == mI
        if not int_ok:
            rep.fail(int_mech([d1, d2], L, mI, I),
                     "intersection(%r, %r, level=%r) = %r, greatest common sub-dictionary is %r"
                     % (d1, d2, L, I, mI))
        if shares(I, ids12):
            rep.fail("intersection-shares-mutable-with-argument",
                     "intersection(%r, %r, level=%r) = %r shares a mutable object with an "
                     "argument" % (d1, d2, L, I))
        if L == -1:
            I2 = F.intersection(d2, d1, level=L)
            if I2 != I:
                rep.fail("intersection-not-commutative",
                         "intersection(%r, %r) = %r but swapped = %r" % (d1, d2, I, I2))
        mD = M.diff(d1, d2, L)
        D = F.difference(d1, d2, L) if L != -1 else F.difference(d1, d2)
        diff_ok = D == mD
        if not diff_ok:
            rep.fail(diff_mech(d1, d2, L, mD, D),
                     "difference(%r, %r, level=%r) = %r, the items of d1 not contained in d2 "
                     "are %r (reconstruction from intersection %r %s)"
                     % (d1, d2, L, D, mD, I, "also fails" if M.isd(D) and M.isd(I)
                        and M.update(I, D) != d1 else "still succeeds"))
        # reconstruction on the REAL outputs (I is a fresh deep copy: may be updated in place)
        if M.isd(I) and M.isd(D):
            F.update_recursively(I, D)
            obs.count("reconstructions")
            if I != d1:
                if int_ok and diff_ok:
                    rep.fail("reconstruction-fails",
                             "update_recursively(intersection, difference) = %r != d1 = %r "
                             "(d2 = %r, level %r) although both agree with the model"
                             % (I, d1, d2, L))
                else:
                    obs.count("reconstruction_failures_explained_by_reported_mismatch")
        if mI and mD:
            nontriv = True
    # update_recursively(d1', d2)
    x = M.cp(d1)
    mU = M.update(d1, d2)
    F.update_recursively(x, d2)
    rep.evals += 2
    if x != mU:
        rep.fail(upd_mech(d1, d2, mU, x),
                 "update_recursively(%r, %r) gives %r, expected %r" % (d1, d2, x, mU))
    # update_nested for both keys
    for key in M.KEYS:
        if not chain_ok(key, d2):
            continue
        d = M.cp(d1)
        other = M.cp(d2)
        had = key in d
        prev = d.get(key)
        rest = {k: v for k, v in d.items() if k != key}
        deepest = other
        while key in deepest:
            deepest = deepest[key]
        exp_other = M.cp(d2)
        if had:
            e = exp_other
            while key in e:
                e = e[key]
            e[key] = M.cp(prev)
        F.update_nested(key, d, other)
        obs.count("update_nested_calls")
        rep.evals += 3
        if d.get(key, rep) is not other:
            rep.fail("update_nested-new-value-not-installed",
                     "update_nested(%r, %r, %r): d[key] is not other afterwards: %r"
                     % (key, d1, d2, d))
        if had and not (key in deepest and deepest[key] is prev):
            rep.fail("update_nested-previous-value-lost",
                     "update_nested(%r, %r, %r): previous d[key] not at the deepest "
                     "other.key.key...: %r" % (key, d1, d2, d))
        elif other != exp_other:
            rep.fail("update_nested-changes-other-items",
                     "update_nested(%r, %r, %r): other = %r, expected %r"
                     % (key, d1, d2, other, exp_other))
        rest2 = {k: v for k, v in d.items() if k != key}
        if rest2 != rest or any(rest2[k] is not rest[k] for k in rest):
            rep.fail("update_nested-changes-other-keys-of-d",
                     "update_nested(%r, %r, %r): other keys of d changed: %r"
                     % (key, d1, d2, d))
    return nontriv


def check_triple(F, rep, obs, a, b, c, levels):
    for L in levels:
        mN = M.meet([a, b, c], L)
        N = F.intersection(a, b, c, level=L)
        rep.evals += 4
        if N != mN:
            rep.fail(int_mech([a, b, c], L, mN, N),
                     "intersection(%r, %r, %r, level=%r) = %r, expected %r" % (a, b, c, L, N, mN))
        left = F.intersection(F.intersection(a, b, level=L), c, level=L)
        right = F.intersection(a, F.intersection(b, c, level=L), level=L)
        if not (left == right == N):
            rep.fail("intersection-not-associative",
                     "level=%r: (a^b)^c = %r, a^(b^c) = %r, a^b^c = %r for a=%r b=%r c=%r"
                     % (L, left, right, N, a, b, c))
        rot = F.intersection(c, a, b, level=L)
        if rot != N:
            rep.fail("intersection-not-commutative",
                     "level=%r: intersection(c,a,b) = %r, intersection(a,b,c) = %r for a=%r b=%r "
                     "c=%r" % (L, rot, N, a, b, c))
    obs.count("triples")


def check_single(F, rep, obs, d):
    for L in LEVELS_ALL:
        r = F.intersection(d, d, level=L)
        r1 = F.intersection(d, level=L)
        rep.evals += 3
        if r != d or r1 != d:
            rep.fail("intersection-not-idempotent",
                     "intersection(d, d, level=%r) = %r, intersection(d) = %r for d = %r"
                     % (L, r, r1, d))
        if shares(r, mids(d, set())) or shares(r1, mids(d, set())):
            rep.fail("intersection-shares-mutable-with-argument",
                     "intersection(d[, d]) of %r shares a mutable object with d" % (d,))
        e = F.difference(d, d, L)
        if e != {}:
            rep.fail("difference-of-equal-not-empty", "difference(d, d, %r) = %r for d = %r"
                     % (L, e, d))
        e = F.difference(d, {}, L)
        if e != d:
            rep.fail(diff_mech(d, {}, L, M.cp(d), e),
                     "difference(%r, {}, %r) = %r, expected d1 itself" % (d, L, e))


def run_case(r, obs):
    import lena.context
    import lena.context.functions as F
    import lena.core
    import lena.flow
    from rv.monitors import contracts as C
    ev0 = sum(C.evaluations.values())
    C.drain()
    rep = Rep(obs)
    try:
        _run(r, obs, rep, F)
    finally:
        rep.close()
        obs.count("contract_evals", sum(C.evaluations.values()) - ev0)


def _restore(name, j):
    """A domain object was modified by lena: rebuild the whole cached domain."""
    _dom_cache.pop(name, None)
    return domain(name)


def _run(r, obs, rep, F):
    import lena.core
    import lena.flow
    k = r["k"]
    if k == "pairs":
        name = r["dom"]
        ds, reprs, idsets = domain(name)
        d1 = M.cp(r["d1"])
        r1 = repr(d1)
        ids1 = mids(d1, set())
        check_single(F, rep, obs, d1)
        nontriv = 0
        for j in range(len(ds)):
            d2 = ds[j]
            if check_pair(F, rep, obs, d1, d2, LEVELS_PAIR, ids1 | idsets[j]):
                nontriv += 1
            rep.evals += 1
            if repr(d1) != r1 or repr(d2) != reprs[j]:
                rep.fail("argument-changed",
                         "an argument documented as unchanged was modified: d1 %s -> %r, "
                         "d2 %s -> %r" % (r1, d1, reprs[j], d2))
                d1 = M.cp(r["d1"])
                ids1 = mids(d1, set())
                ds, reprs, idsets = _restore(name, j)
            if r.get("greatest"):
                # order-theoretic definition, independent of the meet model
                I = F.intersection(d1, d2)
                for c in ds:
                    if M.contained(c, d1) and M.contained(c, d2):
                        obs.count("greatest_checks")
                        if not M.contained(c, I):
                            rep.fail("intersection-not-greatest",
                                     "%r is contained in %r and %r but not in their "
                                     "intersection %r" % (c, d1, d2, I))
        obs.count("pairs", len(ds))
        if nontriv:
            obs.nontrivial = True
            obs.count("nontrivial_pairs", nontriv)
    elif k == "triples":
        ds, reprs, idsets = domain(r["dom"])
        a = M.cp(r["d1"])
        ra = repr(a)
        some = False
        for j, b in enumerate(ds):
            for i, c in enumerate(ds):
                check_triple(F, rep, obs, a, b, c, LEVELS_PAIR)
                if not some and M.meet([a, b, c]):
                    some = True
            rep.evals += 1
            if repr(a) != ra or repr(b) != reprs[j] or [repr(c) for c in ds] != reprs:
                rep.fail("argument-changed", "an argument of intersection was modified "
                         "(a=%s, b=%s)" % (ra, reprs[j]))
                a = M.cp(r["d1"])
                ds, reprs, idsets = _restore(r["dom"], j)
        obs.nontrivial = some
    elif k == "sample":
        nontriv = 0
        for a0, b0, c0 in r["items"]:
            a, b, c = M.cp(a0), M.cp(b0), M.cp(c0)
            snap = repr((a, b, c))
            if check_pair(F, rep, obs, a, b, LEVELS_ALL):
                nontriv += 1
            check_pair(F, rep, obs, b, c, (-1, 3))
            check_triple(F, rep, obs, a, b, c, LEVELS_ALL)
            obs.count("pairs", 2)
            obs.count("sampled_depth3_tuples")
            rep.evals += 1
            if repr((a, b, c)) != snap:
                rep.fail("argument-changed", "an argument documented as unchanged was "
                         "modified: %s -> %r" % (snap, (a, b, c)))
        obs.nontrivial = nontriv > 0
    elif k == "users":
        _users(r, obs, rep, F)
    elif k == "tupleleaf":
        import collections
        obs.nontrivial = True
        NT = collections.namedtuple("NT", ["lo", "hi"])

        def mk():
            return {"zip": ({"a": 1, "n": {"k": [1]}}, {"b": [1, 2]}), "a": 1,
                    "ranges": ([0, 1], [0, 2]), "nt": NT([0], {"h": 1}),
                    "deep": {"t": (1, ({"x": [5]},))}}
        others = [mk(), dict(mk(), a=2), {"zip": mk()["zip"]}, dict(mk(), extra=1)]
        for other in others:
            for args in ((mk(), other), (other, mk()), (mk(),), (mk(), other, mk())):
                snaps = copy.deepcopy(args)
                res = F.intersection(*args)       # the live contract walks into the tuples
                rep.evals += 1
                obs.count("tuple_leaf_intersections")
                exp = dict((kk, vv) for kk, vv in args[0].items()
                           if all(kk in a and a[kk] == vv for a in args[1:]))
                if res != exp:
                    rep.fail("intersection-differs-for-tuple-valued-items",
                             "intersection(%s) = %r, expected %r" % (_short(*args), res, exp))
                # ordinary later use of the result: change it in place at every level
                for v in res.values():
                    stack = [v]
                    while stack:
                        x = stack.pop()
                        if isinstance(x, dict):
                            stack.extend(x.values())
                            x["__changed__"] = 1
                        elif isinstance(x, list):
                            stack.extend(x)
                            x.append("__changed__")
                        elif isinstance(x, tuple):
                            stack.extend(x)
                if repr(args) != repr(snaps):
                    rep.fail("argument-changed",
                             "changing the result of intersection in place (inside tuple-valued "
                             "items) changed an argument: %r -> %r" % (snaps, args))
    elif k == "strform":
        # update_recursively(d, "a.b", value) == update_recursively(d, str_to_dict("a.b", value))
        obs.nontrivial = True
        ds = M.enum_dicts(LEAVES["q3"], 2)
        # values: scalars and nested dictionaries (merged recursively into what is there);
        # dictionaries: depth 2 and, wrapped under one more key, depth 3
        vals = [0, 1, "", None, {}, {"a": 1}, []] + ds[5::19]
        targets = ds[::3] + [{"a": d} for d in ds[1::5]] + [{"b": d, "a": 1} for d in ds[2::11]]
        for d in targets:
            for path in ["a", "b", "a.a", "a.b", "b.a.b", "a.b.a"]:
                for val in vals:
                    x = M.cp(d)
                    F.update_recursively(x, path, M.cp(val))
                    other = val
                    for key in reversed(path.split(".")):
                        other = {key: other}
                    exp = M.update(d, other)
                    rep.evals += 1
                    if x != exp:
                        rep.fail("update_recursively-string-form-differs",
                                 "update_recursively(%r, %r, %r) = %r, expected %r"
                                 % (d, path, val, x, exp))
                    obs.count("string_form_updates")
    elif k == "ddargs":
        import collections
        obs.nontrivial = True

        def to_dd(v):
            if isinstance(v, dict):
                d = collections.defaultdict(int)
                for kk, x in v.items():
                    d[kk] = to_dd(x)
                return d
            return v

        def plain(v):
            if isinstance(v, dict):
                return {kk: plain(x) for kk, x in v.items()}
            return v
        d1 = r["d1"]
        for d2 in r["others"]:
            for which in ("second", "first", "both"):
                a = to_dd(d1) if which in ("first", "both") else M.cp(d1)
                b = to_dd(d2) if which in ("second", "both") else M.cp(d2)
                for L in (-1, 1):
                    rep.evals += 3
                    obs.count("dict_subclass_argument_calls", 3)
                    gd = F.difference(a, b) if L == -1 else F.difference(a, b, L)
                    if plain(gd) != M.diff(d1, d2, L):
                        rep.fail("difference-differs-for-dict-subclass-with-__missing__",
                                 "difference(%r, %r, level=%r) with the %s argument(s) given as "
                                 "defaultdict = %r, expected %r"
                                 % (d1, d2, L, which, plain(gd), M.diff(d1, d2, L)))
                    gi = F.intersection(a, b, level=L)
                    if plain(gi) != M.meet([d1, d2], L):
                        rep.fail("intersection-differs-for-dict-subclass-with-__missing__",
                                 "intersection(%r, %r, level=%r) with the %s argument(s) given "
                                 "as defaultdict = %r, expected %r"
                                 % (d1, d2, L, which, plain(gi), M.meet([d1, d2], L)))
                    if plain(a) != d1 or plain(b) != d2:
                        rep.fail("argument-changed",
                                 "difference / intersection changed a defaultdict argument: %r "
                                 "-> %r, %r -> %r" % (d1, plain(a), d2, plain(b)))
                        break
                x = M.cp(d1)
                F.update_recursively(x, b)
                if x != M.update(d1, d2) or plain(b) != d2:
                    rep.fail("update_recursively-differs-for-dict-subclass-with-__missing__",
                             "update_recursively(%r, <defaultdict %r>) = %r, expected %r (other "
                             "afterwards %r)" % (d1, d2, plain(x), M.update(d1, d2), plain(b)))
    elif k == "aliased":
        obs.nontrivial = True
        X = r["x"]
        ys = M.enum_dicts(LEAVES["q3"], 1)[::3]
        for y1 in ys:
            for y2 in ys:
                shared = M.cp(X)
                d1 = {"a": shared, "b": shared}
                tree1 = {"a": M.cp(X), "b": M.cp(X)}
                d2 = {"a": M.cp(y1), "b": M.cp(y2)}
                for args, targs, what in (((d1, d2), (tree1, d2), "first"),
                                          ((d2, d1), (d2, tree1), "second")):
                    for L in (-1, 1, 2):
                        rep.evals += 2
                        obs.count("aliased_argument_calls", 2)
                        got = F.intersection(*args, level=L)
                        exp = M.meet(list(targs), L)
                        if got != exp:
                            rep.fail("intersection-differs-for-argument-with-internal-sharing",
                                     "intersection(%r, %r, level=%r) = %r where the %s argument "
                                     "holds ONE sub-dictionary object under both keys; by value "
                                     "the greatest common sub-dictionary is %r"
                                     % (args[0], args[1], L, got, what, exp))
                        gd = F.difference(*args) if L == -1 else F.difference(args[0], args[1], L)
                        ed = M.diff(targs[0], targs[1], L)
                        if gd != ed:
                            rep.fail("difference-differs-for-argument-with-internal-sharing",
                                     "difference(%r, %r, level=%r) = %r, by value %r"
                                     % (args[0], args[1], L, gd, ed))
                if d1 != tree1 or d1["a"] is not d1["b"]:
                    rep.fail("argument-changed", "argument with internal sharing modified: %r"
                             % (d1,))
                # update_recursively INTO a dictionary with internal sharing is left out: an
                # in-place update of a shared sub-dictionary shows under both keys by nature
                x = M.cp(d2)
                F.update_recursively(x, d1)
                rep.evals += 1
                if x != M.update(d2, tree1):
                    rep.fail("update_recursively-differs-for-other-with-internal-sharing",
                             "update_recursively(%r, %r) = %r, expected %r"
                             % (d2, d1, x, M.update(d2, tree1)))
    elif k == "strhist":
        import random
        obs.nontrivial = True
        rng = random.Random(r["rs"])
        paths = ["a.b", "a.b.c", "output.filetype.csv", "a", "b.a.b.a"]
        for _ in range(12):
            path = rng.choice(paths)
            keys = path.split(".")
            other = keys[-1]
            for key in reversed(keys[:-1]):
                other = {key: other}
            if len(keys) == 1:
                continue            # a single word is not a key-value string
            d = rng.choice([{}, {"z": 1}, {keys[0]: {"old": 1}}, {keys[0]: 5},
                            M.rand_dict(rng, 2, keys=(keys[0], "z"))])
            before = M.cp(d)
            exp = M.update(before, other)
            try:
                F.update_recursively(d, path)
            except Exception as e:  # pylint: disable=broad-except
                rep.fail("update_recursively-string-form-raises:" + type(e).__name__,
                         "update_recursively(%r, %r) raised %r" % (before, path, e))
                continue
            rep.evals += 1
            obs.count("string_form_updates")
            if d != exp:
                rep.fail("update_recursively-string-form-differs",
                         "update_recursively(%r, %r) = %r, expected %r (the string stands for %r;"
                         " the same string had been applied to other dictionaries before and "
                         "what it inserted there was changed in place afterwards)"
                         % (before, path, d, exp, other))
            # the caller goes on working with its dictionary: in-place changes of everything
            # that is now inside it (what a later UpdateContext / MakeFilename does)
            cur = d
            for key in keys[:-1]:
                if not M.isd(cur.get(key)):
                    break
                cur = cur[key]
                cur["touched"] = rng.randint(0, 9)
                if rng.random() < 0.5 and keys[-2] in cur and key != keys[-2]:
                    pass
            parent = d
            for key in keys[:-2]:
                parent = parent.get(key) if M.isd(parent) else None
            if M.isd(parent) and keys[-2] in parent:
                parent[keys[-2]] = "changed-later"
    elif k == "nestchain":
        obs.nontrivial = True
        n = r["n"]
        key = "variable"
        d = {}
        hist = []
        for i in range(n):
            prev = M.cp(d.get(key)) if key in d else None
            F.update_nested(key, d, {"name": "v%d" % i})
            rep.evals += 1
            obs.count("update_nested_calls")
            hist.append("v%d" % i)
            # the newest on top, the previous d[key] right below it, and so on
            cur, names = d.get(key), []
            while M.isd(cur):
                names.append(cur.get("name"))
                cur = cur.get(key)
            if names != hist[::-1] or (prev is not None and d[key].get(key) != prev):
                rep.fail("update_nested-previous-value-lost",
                         "after %d successive update_nested(%r, d, {'name': ...}) the chain of "
                         "names is %r, expected %r" % (i + 1, key, names, hist[::-1]))
                break
        # a long (non-recursive) chain as *other* on top of a dictionary that has the key
        other = M.cp(d[key])
        target = {key: {"name": "bottom"}, "z": 1}
        try:
            F.update_nested(key, target, other)
        except Exception as e:  # pylint: disable=broad-except
            rep.fail("update_nested-rejects-long-chain:" + type(e).__name__,
                     "update_nested(%r, {%r: {'name': 'bottom'}, 'z': 1}, <chain of %d nested "
                     "%r>) raised %r although *other* is not recursive" % (key, key, n, key, e))
        else:
            rep.evals += 1
            obs.count("update_nested_calls")
            cur, names = target.get(key), []
            while M.isd(cur):
                names.append(cur.get("name"))
                cur = cur.get(key)
            if names != hist[::-1] + ["bottom"] or target.get("z") != 1:
                rep.fail("update_nested-previous-value-lost",
                         "chain of %d on top of 'bottom' gives names %r" % (n, names))
    elif k == "edge":
        obs.nontrivial = True
        rep.evals += 2
        e = F.intersection()
        if e != {}:
            rep.fail("intersection-of-nothing-not-empty", "intersection() = %r" % (e,))
        for L in LEVELS_ALL:
            e = F.intersection(level=L)
            if e != {}:
                rep.fail("intersection-of-nothing-not-empty", "intersection(level=%r) = %r"
                         % (L, e))
        # the documented examples of update_nested
        ctx = {"variable": {"name": "x"}}
        F.update_nested("variable", ctx, {"name": "n"})
        F.update_nested("variable", ctx, {"name": "top"})
        exp = {'variable': {'name': 'top', 'variable': {'name': 'n', 'variable': {'name': 'x'}}}}
        if ctx != exp:
            rep.fail("update_nested-previous-value-lost", "documented example gives %r" % (ctx,))
        obs.count("update_nested_calls", 2)
    else:
        raise AssertionError(k)


class StaticCtx(object):
    """Sequence element that only carries a static context (like meta.SetContext)."""
    _has_no_data = True

    def __init__(self, ctx):
        self._ctx = ctx

    def _get_context(self):
        return M.cp(self._ctx)

    def _set_context(self, context):
        pass


def _ident(x):
    return x


def _users(r, obs, rep, F):
    """Real callers of the algebra run under the attached contracts."""
    import lena.core
    import lena.flow
    import lena.math
    ctxs = [M.cp(c) for c in r["ctxs"]]
    snap = repr(ctxs)
    obs.nontrivial = len(ctxs) > 1
    # Split static context = intersection of the branches' static contexts
    split = lena.core.Split([(StaticCtx(c), _ident) for c in ctxs])
    got = split._get_context()
    exp = M.meet(ctxs)
    rep.evals += 4
    obs.count("user_calls")
    if got != exp:
        rep.fail("split-static-context-not-intersection",
                 "Split._get_context() = %r for branch contexts %r, expected %r"
                 % (got, ctxs, exp))
    # Zip._create_context: intersection(level=1), difference(level=1), update_nested
    z = lena.flow.Zip([(lena.math.Sum(),) for _ in ctxs])
    vals = [M.cp(c) for c in ctxs]
    common = z._create_context(vals)
    obs.count("user_calls")
    mcommon = M.meet(ctxs, 1)
    rest = {k: v for k, v in common.items() if k != "zip"}
    if rest != {k: v for k, v in mcommon.items() if k != "zip"}:
        rep.fail("zip-common-context-not-intersection",
                 "Zip._create_context(%r) = %r, level-1 intersection is %r"
                 % (ctxs, common, mcommon))
    # group_plots: intersection of the group's contexts + output.changed
    group = [(i, M.cp(c)) for i, c in enumerate(ctxs)]
    if True:
        data, context = lena.flow.group_plots(group)
        obs.count("user_calls")
        exp = M.meet(ctxs)
        changed = any(M.isd(c.get("output")) and c["output"].get("changed", False)
                      for c in ctxs)
        exp = M.update(exp, {"output": {"changed": changed}})
        got = {k: v for k, v in context.items() if k != "group"}
        if got != exp or data != list(range(len(ctxs))):
            rep.fail("group_plots-context-not-intersection",
                     "group_plots(%r) context = %r, expected %r" % (ctxs, got, exp))
    if repr(ctxs) != snap:
        rep.fail("argument-changed", "user workload changed its input contexts: %s -> %r"
                 % (snap, ctxs))


RULE += (' Added: arguments with sharing inside (one sub-dictionary object under two keys), histories of the value-less string form of update_recursively with in-place changes in between, update_nested chains of up to 14 levels.')

RULE += (' Round 10: chains nested 20..180 deep that differ near the bottom; dictionaries of 17..300 keys per level.')
