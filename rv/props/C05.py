"""C05 - an analysis gives the same result whether it is driven by run or by fill;
the adapters preserve the meaning of the method they wrap.

Part A (seeded random chains  pre* acc post*):  the outcomes of all drivers of the
same chain recipe on the same flow are recorded and must be equal:
  Sequence(...).run(flow)                                   (the reference)
  Split([tuple chain], bufsize=b).run(flow), b in {1..n+1, 1000, None}
  Split([FillComputeSeq(chain)], bufsize=b).run(flow) for two of these b
  FillComputeSeq(chain) filled value by value until LenaStopFill, then compute()
  FillSeq(pre, acc) filled likewise, acc.compute() run through Sequence(post)
Part B (finite, enumerated completely in both tiers): adapter x element kind x
method-name matrix.  Accepted => the adapter's call equals the direct call of the
wrapped method of a twin element on the same inputs (return values, exception
type and the element's call log); rejected => LenaTypeError from the constructor
and no other exception raised inside lena.
"""
import copy
import itertools
import re

from rv import gen

ID = "C05"
LEVEL = "exploration"
RULE = ("A: seeded random chains pre* acc post*, pre in {total callable, Variable, Filter, "
        "Slice(start, stop, step>=1) non-negative incl. None, RunIf (also with several results "
        "per value)}, 0..3 of them; acc in "
        "{Sum, DSum, Mean (pass_on_empty or not), StoreFilled (group or not), "
        "FillCompute(Count), VarianceMeanCount (4 option sets), Vectorize, Histogram, "
        "GroupBy}; post 0..2 of {callable, Variable, Filter, Count, Reverse, Slice incl. "
        "negative, RunIf}; flows 0..8 of ints or (int, context); every bufsize in "
        "{1..n+1, 1000, None}. B: the complete adapter matrix {Call, Run, FillInto, "
        "FillCompute, FillRequest, SourceEl} x 23 element kinds x every method-name argument "
        "(absent, conventional, custom, non-callable attribute, missing; strings only) - "
        "EXHAUSTIVE refers to this matrix. Non-trivial: a chain with >=1 pre element and a "
        "non-empty flow; every matrix cell")
ASSUMPTIONS = ["generated callables are total and pure (a raising user function makes the "
               "drivers legitimately differ)",
               "every driver gets fresh element instances and a fresh copy of the flow",
               "method-name arguments of adapters are strings (Run(None, run=function) is the "
               "one documented exception and is checked separately)",
               "FillRequest is driven with bufsize=1, buffer_input=True and alternating "
               "fill/request only (its buffering is property C16)"]
ANCHORS = [("lena/core/fill_seq.py", 8, 85), ("lena/core/fill_compute_seq.py", 68, 136),
           ("lena/core/adapters.py", 43, 232), ("lena/core/adapters.py", 634, 784),
           ("lena/core/split.py", 343, 360), ("lena/flow/filter.py", 43, 56),
           ("lena/flow/iterators.py", 168, 221), ("lena/flow/elements.py", 201, 220)]
MUST_REACH = ["lena/core/fill_seq.py:_Fill.fill", "lena/core/fill_seq.py:FillSeq.__init__",
              "lena/core/fill_compute_seq.py:FillComputeSeq.compute",
              "lena/core/adapters.py:FillInto.fill_into",
              "lena/core/adapters.py:FillInto._run_fill_into",
              "lena/core/adapters.py:Run._call_run", "lena/core/adapters.py:Run._fc_run",
              "lena/core/adapters.py:Call.__call__", "lena/core/adapters.py:SourceEl.__call__",
              "lena/core/adapters.py:FillCompute.__init__",
              "lena/core/adapters.py:FillRequest.__init__",
              "lena/flow/filter.py:Filter.fill_into", "lena/flow/iterators.py:Slice.fill_into",
              "lena/core/split.py:Split.run"]
MUST_COUNT = ["driver_outcomes_compared", "stopfill_seen_by_fill_driver", "matrix_accepted",
              "matrix_rejected", "adapter_calls_compared"]
MIN_NONTRIVIAL = {"quick": 8000, "thorough": 250000}
EXHAUSTIVE = {"quick": True, "thorough": True}
NCHAIN = {"quick": 10000, "thorough": 400000}
NBIG = {"quick": 400, "thorough": 15000}
LEVEL_TEXT = ("Seeded random chains pre* acc post* are executed by every driver (Sequence.run, "
              "Split.run for every bufsize, FillComputeSeq and FillSeq filled until "
              "LenaStopFill) on the real code and the recorded outcomes compared for equality; "
              "the finite adapter x element-kind x method-name matrix is enumerated completely "
              "and each cell compared with the direct call of the wrapped method on a twin "
              "element, or required to be rejected with LenaTypeError by the constructor.")
LEVEL_NOTE = ("Sequence.run is the reference driver (its own correctness is C01). The expected "
              "accept/reject table of the matrix is written from the adapters' docstrings.")
TECHNIQUE = ("differential monitor over drivers of one recipe + exhaustive adapter matrix with "
             "twin-element oracle and RAISE-event exception contract")


# =================================================================== part A: chains
CALLS = ["inc", "dbl", "neg", "sq", "mod3", "add10", "half", "ctx:a", "ctx:b"]
PREDN = ["even", "odd", "pos", "lt5", "mod3", "true", "false"]
ACCS = [["sum"], ["sum"], ["dsum"], ["mean"], ["mean0"], ["store", 1], ["store", 0],
        ["fccount", "c"], ["vmc", 0, 1], ["vmc", 1, 1], ["vmc", 0, 0], ["vmc", 1, 0],
        ["vectorize"], ["hist"], ["groupby"], ["listacc"], ["dictacc"]]


class ListAcc(list):
    """A user's accumulator built on a list (so it is iterable and has a length)."""

    def fill(self, value):
        self.append(gen._num(gen.data_of(value)))

    def compute(self):
        yield (sum(self), len(self))


class DictAcc(dict):
    """A user's accumulator built on a dict: a table of how often each value was seen."""

    def fill(self, value):
        key = gen._num(gen.data_of(value))
        self[key] = self.get(key, 0) + 1

    def compute(self):
        yield sorted(self.items())


def rand_slice(rng, nflow):
    a = rng.randint(0, 3)
    return ["slice", rng.choice([
        [rng.randint(0, nflow + 1)], [None], [a, a + rng.randint(0, 4)], [a, None],
        [a, a + rng.randint(0, 5), rng.randint(1, 3)], [a, None, rng.randint(1, 3)],
        [None, rng.randint(0, nflow + 1), rng.randint(1, 3)], [0, 0], [0]])]


def rand_simple(rng):
    k = rng.choice(["call", "call", "call", "var", "var", "filter", "filter", "filtersel",
                    "statecall", "filtersub"])
    if k == "filtersub":
        return ["filtersub", rng.choice(["inc", "dbl", "neg", "sq", "half"]), rng.choice([0, 2, 5])]
    if k == "statecall":
        return ["statecall"]
    if k == "filtersel":
        return ["filtersel", rng.choice(PREDN), rng.choice([2, 3, 4])]
    if k == "call":
        return ["call", rng.choice(CALLS)]
    if k == "var":
        v = ["var", rng.choice("xyz"), rng.choice(["inc", "dbl", "neg", "half"])]
        if rng.random() < 0.2:
            # attributes named like methods of elements are still plain attributes
            v.append(rng.choice([{"run": 2024}, {"fill": 7}, {"compute": "c"}, {"request": 0},
                                 {"run": 0, "fill_into": 1}]))
        return v
    return ["filter", rng.choice(PREDN)]


def rand_pre_el(rng, nflow):
    k = rng.choice(["simple", "simple", "simple", "slice", "slice", "runif"])
    if k == "simple":
        return rand_simple(rng)
    if k == "slice":
        return rand_slice(rng, nflow)
    inner = [rand_simple(rng) for _ in range(rng.randint(0, 2))]
    if rng.random() < 0.15:
        inner.append(["slice", [rng.randint(0, 1)]])
    if rng.random() < 0.3:
        # several results per selected value (FillInto must fill all of them)
        inner.insert(rng.randint(0, len(inner)),
                     ["split", [[["call", rng.choice(CALLS)]], [["call", rng.choice(CALLS)]],
                                [["filter", rng.choice(PREDN)]]][:rng.randint(2, 3)],
                      rng.choice([1, 1000])])
    return ["runif", rng.choice(PREDN), inner]


def rand_post_el(rng, nflow):
    k = rng.random()
    if k < 0.55:
        return rand_simple(rng)
    if k < 0.65:
        return ["count", "pc"]
    if k < 0.75:
        return ["reverse"]
    if k < 0.9:
        return rng.choice([rand_slice(rng, 2), ["slice", [-1]], ["slice", [-2, None]],
                           ["slice", [1, -1]]])
    return ["runif", rng.choice(PREDN), [rand_simple(rng) for _ in range(rng.randint(0, 2))]]


def cases(tier, seed):
    for c in matrix_cases():
        yield c
    # fixed corner chains (every Slice stop point on flows 0..4, everything-dropping filters)
    for n in range(0, 5):
        for stop in range(0, n + 2):
            for acc in (["store", 1], ["sum"], ["fccount", "c"]):
                yield {"k": "chain", "pre": [["slice", [stop]]], "acc": acc, "post": [],
                       "flow": list(range(1, n + 1))}
                yield {"k": "chain", "pre": [["call", "inc"], ["slice", [0, stop]],
                                             ["filter", "odd"]],
                       "acc": acc, "post": [["call", "dbl"]], "flow": list(range(1, n + 1))}
        for p in ("false", "true", "even"):
            yield {"k": "chain", "pre": [["filter", p]], "acc": ["mean"], "post": [],
                   "flow": list(range(1, n + 1))}
        # the accumulator alone (a bare branch of a Split), every accumulator kind
        for acc in ACCS:
            yield {"k": "chain", "pre": [], "acc": acc, "post": [], "flow": list(range(1, n + 1))}
    # a user callable that raises StopIteration for one value: every driver fails, none presents
    # the result for the values before it as the result of the flow
    for n in range(1, 6):
        for at in range(0, n):
            for acc in (["store", 1], ["sum"], ["fccount", "c"]):
                for where in ("callable", "getter"):
                    yield {"k": "userstop", "n": n, "at": at, "acc": acc, "where": where}
    for c in big_cases(tier, seed):
        yield c
    for i in range(NCHAIN[tier]):
        rng = gen.rng_for(seed, "C05chain", i)
        flow = gen.rand_flow(rng, 8)
        pre = [rand_pre_el(rng, len(flow)) for _ in range(rng.choice([0, 1, 1, 2, 2, 3]))]
        post = [rand_post_el(rng, len(flow)) for _ in range(rng.choice([0, 0, 1, 1, 2]))]
        acc = rng.choice(ACCS)
        if rng.random() < 0.12:
            # any Python object is a value: some falsy / None data in the flow (for accumulators
            # that take every value)
            acc = rng.choice([["store", 1], ["store", 0], ["fccount", "c"], ["listacc"],
                              ["dictacc"]])
            for j in range(len(flow)):
                if rng.random() < 0.4:
                    special = rng.choice([None, False, "", 0, 0.0])
                    if isinstance(flow[j], list):
                        flow[j] = [special, flow[j][1]]
                    else:
                        flow[j] = special
        yield {"k": "chain", "pre": pre, "acc": acc, "post": post, "flow": flow}


def big_cases(tier, seed):
    """Chains beyond the small sizes: flows of 17..300 values, up to 10 pre and 6 post elements,
    Slices with indices in the tens."""
    def bigslice(rng, nflow):
        a = rng.choice([0, 1, 5, 15, 16, 17, 31, 33])
        return ["slice", rng.choice([
            [rng.randint(0, nflow + 1)], [a, None], [a, a + rng.choice([1, 16, 17, 32, 64, 100])],
            [a, None, rng.choice([1, 2, 7, 16])], [None, rng.randint(0, nflow + 1),
                                                   rng.choice([1, 3, 17])]])]
    # flows of more than a thousand values through step Slices and filters
    for i in range(12 if tier == "quick" else 150):
        rng = gen.rng_for(seed, "C05huge", i)
        nf = rng.choice([1030, 1100, 2100, 2600])
        st = rng.choice([2, 3, 5, 7])
        pre = [rng.choice([["slice", [0, None, st]], ["slice", [1, None, st]],
                           ["slice", [rng.randint(0, 5), nf - rng.randint(0, 40), st]],
                           ["slice", [None, None, st]]])]
        if rng.random() < 0.5:
            pre.insert(rng.randint(0, 1), ["call", rng.choice(CALLS)])
        yield {"k": "chain", "pre": pre, "acc": rng.choice([["store", 1], ["sum"], ["fccount", "c"]]),
               "post": [], "flow": list(range(nf)), "big": 1}
    for i in range(NBIG[tier]):
        rng = gen.rng_for(seed, "C05big", i)
        shape = i % 3
        nf = (rng.randint(3, 12), rng.choice([17, 33, 64, 65, 100, 129, 257, rng.randint(17, 300)]),
              rng.randint(17, 70))[shape]
        npre = (rng.randint(5, 10), rng.randint(0, 3), rng.randint(4, 7))[shape]
        npost = (rng.randint(3, 6), rng.randint(0, 2), rng.randint(2, 4))[shape]
        ctx = rng.random() < 0.4
        flow = [[rng.randint(-3, 9), {"i": j}] if ctx else rng.randint(-3, 9) for j in range(nf)]
        pre = []
        for _ in range(npre):
            x = rng.random()
            if x < 0.5:
                pre.append(["call", rng.choice(CALLS)] if rng.random() < 0.7
                           else ["var", rng.choice("xyz"), rng.choice(["inc", "neg", "half"])])
            elif x < 0.7:
                pre.append(bigslice(rng, nf))
            else:
                pre.append(rand_pre_el(rng, nf))
        post = [rand_post_el(rng, nf) if rng.random() < 0.6 else bigslice(rng, nf)
                for _ in range(npost)]
        yield {"k": "chain", "pre": pre, "acc": rng.choice(ACCS), "post": post, "flow": flow,
               "big": 1}


def mkvec(v):
    if gen.has_ctx(v):
        return ((gen._num(v[0]), 2 * gen._num(v[0]) + 1), v[1])
    return (gen._num(v), 2 * gen._num(v) + 1)


def build_acc(r):
    """-> list of elements standing for the accumulator (a value adapter may precede it)."""
    import lena.core
    import lena.flow
    import lena.math
    import lena.structures
    k = r[0]
    if k == "mean0":
        return [lena.math.Mean()]
    if k == "vmc":
        return [lena.math.VarianceMeanCount(corrected=bool(r[1]), pass_on_empty=bool(r[2]))]
    if k == "vectorize":
        return [mkvec, lena.math.Vectorize(lena.math.Sum(), dim=2)]
    if k == "hist":
        return [lena.structures.Histogram([-4, 0, 2, 4, 8, 30])]
    if k == "groupby":
        return [lena.flow.GroupBy()]
    if k == "listacc":
        return [ListAcc()]
    if k == "dictacc":
        return [DictAcc()]
    return [gen.build(r)]


def build_chain(r):
    pre = [gen.build(e) for e in r["pre"]]
    acc = build_acc(r["acc"])
    post = [gen.build(e) for e in r["post"]]
    return pre + acc[:-1], acc[-1], post


def outcome(thunk):
    try:
        return ["ok", gen.freeze(list(thunk()))]
    except Exception as e:  # pylint: disable=broad-except
        return ["exc", type(e).__name__]


def fill_until_stop(seq, flow, obs):
    import lena.core
    for v in flow:
        try:
            seq.fill(v)
        except lena.core.LenaStopFill:
            obs.count("stopfill_seen_by_fill_driver")
            break


def drivers(r, obs):
    """-> list of (driver name, outcome)."""
    import lena.core
    flow_r = r["flow"]
    n = len(flow_r)

    def flow():
        return gen.build_flow(flow_r)
    res = []

    def d_sequence():
        pre, acc, post = build_chain(r)
        return lena.core.Sequence(*(pre + [acc] + post)).run(iter(flow()))
    res.append(("sequence-run", outcome(d_sequence)))

    def d_fcseq():
        pre, acc, post = build_chain(r)
        s = lena.core.FillComputeSeq(*(pre + [acc] + post))
        fill_until_stop(s, flow(), obs)
        return s.compute()
    res.append(("fill-compute-seq", outcome(d_fcseq)))

    def d_fillseq():
        pre, acc, post = build_chain(r)
        s = lena.core.FillSeq(*(pre + [acc]))
        fill_until_stop(s, flow(), obs)
        return lena.core.Sequence(*post).run(acc.compute())
    res.append(("fill-seq", outcome(d_fillseq)))

    bufsizes = list(range(1, n + 2)) + [1000, None]
    if r.get("big") and n > 1000:
        bufsizes = [1, 999, 1000, 1024, 1025, n, None]
    elif r.get("big"):
        # a long flow: block sizes around powers of two and around the flow length
        bufsizes = sorted(set([1, 2, 3, 7, 8, 9, 15, 16, 17, 31, 32, 33, 63, 64, 65, n - 1, n,
                               n + 1]) - {0, -1}) + [1000, None]
    for b in bufsizes:
        def d_split(b=b):
            pre, acc, post = build_chain(r)
            return lena.core.Split([tuple(pre + [acc] + post)], bufsize=b).run(flow())
        res.append(("split-run", outcome(d_split)))
    for b in (bufsizes[0], bufsizes[len(bufsizes) // 2], None):
        def d_split2(b=b):
            pre, acc, post = build_chain(r)
            return lena.core.Split([lena.core.FillComputeSeq(*(pre + [acc] + post))],
                                   bufsize=b, copy_buf=False).run(iter(flow()))
        res.append(("split-run", outcome(d_split2)))
    if not r["pre"] and not r["post"] and len(build_acc(r["acc"])) == 1:
        # the accumulator given bare (not in a tuple) as the branch
        for b in bufsizes:
            def d_bare(b=b):
                _, acc, _ = build_chain(r)
                return lena.core.Split([acc], bufsize=b).run(flow())
            res.append(("split-run-bare-accumulator", outcome(d_bare)))

        def d_bare2():
            _, acc, _ = build_chain(r)
            got = lena.core.Split([(gen.Tag("B"),), acc], bufsize=1).run(flow())
            return (v for v in got if not (isinstance(v, tuple) and v and v[0] == "B"))
        res.append(("split-run-bare-accumulator", outcome(d_bare2)))

        # ... bare and FIRST, before branches that change the contexts they receive in place
        for b in (1, 2, None):
            def d_bare3(b=b):
                import lena.variables
                _, acc, _ = build_chain(r)
                got = lena.core.Split(
                    [acc,
                     (lena.variables.Variable("mut", lambda x: x, type="t2"),
                      gen.func("ctx:zz"), gen.Tag("B")),
                     (gen.func("ctx:yy"), gen.Tag("B"))], bufsize=b).run(flow())
                return (v for v in got if not (isinstance(v, tuple) and v and v[0] == "B"))
            res.append(("split-run-bare-accumulator", outcome(d_bare3)))

    # the chain beside another branch (its buffer is then a deep copy)
    def d_split3():
        pre, acc, post = build_chain(r)
        got = lena.core.Split([tuple(pre + [acc] + post + [gen.Tag("A")]),
                               (gen.Tag("B"),)], bufsize=2).run(flow())
        return (v[1] for v in got if v[0] == "A")
    res.append(("split-run", outcome(d_split3)))

    # the chain as a middle branch among branches that change data and context in place
    def d_split4(pos):
        import lena.variables
        pre, acc, post = build_chain(r)
        others = [
            (gen.func("ctx:zz"), lena.variables.Variable("mut", lambda x: x), gen.Tag("M1")),
            (lena.variables.Variable("mut2", lambda x: x, type="t2"), gen.func("ctx:yy"),
             gen.Tag("M2")),
            (gen.func("ctx:xx"), gen.Tag("M3")),
        ]
        branches = others[:pos] + [tuple(pre + [acc] + post + [gen.Tag("A")])] + others[pos:]
        got = lena.core.Split(branches, bufsize=2).run(flow())
        return (v[1] for v in got if v[0] == "A")
    for pos in (1, 2, 3):
        res.append(("split-run-among-mutating-branches", outcome(lambda pos=pos: d_split4(pos))))

    # the same with the Split driven by fill and compute (a Split of fill/compute branches used
    # as an accumulator: nested in a branch of another Split, inside a FillComputeSeq, ...)
    def d_split5(pos):
        import lena.variables
        pre, acc, post = build_chain(r)
        FCS = lena.core.FillComputeSeq
        others = [
            FCS(gen.func("ctx:zz"), lena.variables.Variable("mut", gen.DataFn("id")),
                lena.flow.StoreFilled(), gen.Tag("M1")),
            FCS(lena.variables.Variable("mut2", gen.DataFn("id"), type="t2"), gen.func("ctx:yy"),
                lena.flow.StoreFilled(), gen.Tag("M2")),
            FCS(gen.func("ctx:xx"), lena.flow.StoreFilled(), gen.Tag("M3")),
        ]
        branches = others[:pos] + [FCS(*(pre + [acc] + post + [gen.Tag("A")]))] + others[pos:]
        sp = lena.core.Split(branches)
        for v in flow():
            try:
                sp.fill(v)
            except lena.core.LenaStopFill:
                break
        return (v[1] for v in sp.compute() if v[0] == "A")
    for pos in (0, 1, 3):
        res.append(("split-fill-among-mutating-branches", outcome(lambda pos=pos: d_split5(pos))))

    # deep copies of one fill-driven chain (what SplitIntoBins / MapBins / Vectorize make for
    # every bin), filled one after the other: each copy computes what a fresh chain computes
    def d_copies(which):
        import copy
        pre, acc, post = build_chain(r)
        master = lena.core.FillComputeSeq(*(pre + [acc] + post))
        copies = [copy.deepcopy(master), copy.deepcopy(master)]
        outs = []
        for c in copies:
            for v in flow():
                try:
                    c.fill(v)
                except lena.core.LenaStopFill:
                    break
            outs.append(list(c.compute()))
        return outs[which]
    for which in (0, 1):
        res.append(("deep-copied-fill-compute-seq", outcome(lambda w=which: d_copies(w))))

    # the pre elements wrapped in explicit FillInto adapters (what the sequence does implicitly)
    def d_explicit():
        pre, acc, post = build_chain(r)
        s = lena.core.FillComputeSeq(*([lena.core.FillInto(e) for e in pre] + [acc] + post))
        fill_until_stop(s, flow(), obs)
        return s.compute()
    res.append(("fill-compute-seq-of-explicit-FillInto-adapters", outcome(d_explicit)))

    # a chain copied (deep copy / pickle) after k values; the copy gets the rest
    def d_copied_midway(k, how):
        import copy
        import pickle
        pre, acc, post = build_chain(r)
        s = lena.core.FillComputeSeq(*(pre + [acc] + post))
        vals = flow()
        stopped = False
        for v in vals[:k]:
            try:
                s.fill(v)
            except lena.core.LenaStopFill:
                stopped = True
                break
        c = copy.deepcopy(s) if how == "deepcopy" else pickle.loads(pickle.dumps(s))
        if not stopped:
            fill_until_stop(c, vals[k:], obs)
        return c.compute()
    if n >= 2:
        for k in sorted(set([1, n // 2, n - 1])):
            res.append(("fill-compute-seq-deep-copied-after-some-fills",
                        outcome(lambda k=k: d_copied_midway(k, "deepcopy"))))
        probe = outcome(lambda: d_copied_midway(n // 2, "pickle"))
        if probe[0] == "ok" or probe[1] not in ("PicklingError", "AttributeError", "TypeError"):
            # (chains of generated lambdas / local classes cannot be pickled at all)
            res.append(("fill-compute-seq-pickled-after-some-fills", probe))
    return res


def blame(r, driver, obs_dummy):
    """Name the part of the chain that makes *driver* differ from Sequence.run: the kinds of
    single pre elements that alone (with the same accumulator) reproduce a difference."""
    def differs(sub):
        rs = drivers(sub, obs_dummy)
        ref = rs[0][1]
        return any(name == driver and out != ref for name, out in rs[1:])
    base = {"k": "chain", "pre": [], "acc": r["acc"], "post": [], "flow": r["flow"]}
    if differs(base):
        return "accumulator-" + r["acc"][0]
    kinds = sorted(set(e[0] for e in r["pre"] if differs(dict(base, pre=[e]))))
    if kinds:
        return "pre-" + "+".join(kinds)
    if differs(dict(base, pre=r["pre"])):
        return "pre-combination"
    if differs(dict(base, post=r["post"])):
        return "post-" + "+".join(sorted(set(e[0] for e in r["post"])))
    return "whole-chain"


class _NullObs(object):
    def count(self, *a, **k):
        pass


class NextConstant(object):
    """Multiplies by the next constant of an iterator (next() raises StopIteration when the
    constants run out)."""

    def __init__(self, n):
        self.it = iter(range(1, n + 1))

    def __call__(self, v):
        if gen.has_ctx(v):
            return (gen._num(v[0]) * next(self.it), v[1])
        return gen._num(v) * next(self.it)


def run_userstop(r, obs):
    import lena.core
    import lena.variables
    obs.nontrivial = True
    n, at = r["n"], r["at"]
    xs = list(range(1, n + 1))

    def first():
        if r["where"] == "callable":
            return NextConstant(at)
        return lena.variables.Variable("k", NextConstant(at))

    def chain():
        return [first(), gen.func("inc")] + build_acc(r["acc"])
    drivers_ = {
        "sequence-run": lambda: lena.core.Sequence(*chain()).run(iter(xs)),
        "run-adapter": lambda: lena.core.Run(first()).run(iter(xs)),
        "source": lambda: lena.core.Source(list(xs), *chain())(),
        "split-run": lambda: lena.core.Split([tuple(chain())], bufsize=2).run(iter(xs)),
        "split-run-two-branches": lambda: lena.core.Split(
            [(gen.Tag("B"),), tuple(chain())], bufsize=1000).run(iter(xs)),
    }

    def filled(cls):
        def go():
            s = cls(*chain())
            for v in xs:
                s.fill(v)
            return s.compute()
        return go
    drivers_["fill-compute-seq"] = filled(lena.core.FillComputeSeq)
    for name, thunk in sorted(drivers_.items()):
        try:
            got = ["ok", gen.freeze(list(thunk()))]
        except BaseException as e:  # pylint: disable=broad-except
            got = ["exc", type(e).__name__]
        obs.count("driver_outcomes_compared")
        obs.check(got[0] == "exc", "user-exception-ends-the-flow-silently:" + name,
                  "%s: the user's %s raises StopIteration for value no. %d of %r; the driver "
                  "returned %r as if the flow had ended" % (name, r["where"], at, xs, got))


def run_chain(r, obs):
    if r["pre"] and r["flow"]:
        obs.nontrivial = True
    rs = drivers(r, obs)
    ref = rs[0][1]
    obs.count("chains")
    if ref[0] == "exc":
        obs.count("reference_raised")
    bad = {}
    for name, out in rs[1:]:
        obs.count("driver_outcomes_compared")
        if out != ref:
            bad.setdefault(name, out)
    for name, out in sorted(bad.items()):
        obs.check(False, "drivers-differ:%s-vs-sequence-run:%s" % (name, blame(r, name, _NullObs())),
                  "%s gives %r, Sequence.run gives %r; pre=%r acc=%r post=%r flow=%r"
                  % (name, out, ref, r["pre"], r["acc"], r["post"], r["flow"]))
    if not bad:
        obs.check(True, "", "")


# =================================================================== part B: adapter matrix
class Logged(object):
    def __init__(self):
        self.log = []


class CallObj(Logged):
    def __call__(self, value):
        self.log.append(("call", gen.freeze(value)))
        return ("called", value)


class SrcObj(Logged):
    def __call__(self):
        self.log.append("src")
        yield 10
        yield (11, {"s": 1})


class SrcIterObj(SrcObj):
    """A data set that is callable (generates its events) and also iterable (over the names
    of its files): called, where a callable is documented to be called."""

    def __iter__(self):
        self.log.append("iter")
        return iter(["file1", "file2"])


class Custom(Logged):
    """Only custom-named methods (and a non-callable attribute)."""
    attr5 = 5

    def my_call(self, value):
        self.log.append(("my_call", gen.freeze(value)))
        return ("my_called", value)

    def my_src(self):
        self.log.append("my_src")
        yield "s1"
        yield "s2"

    def my_run(self, flow):
        for v in flow:
            self.log.append(("my_run", gen.freeze(v)))
            yield ("my_ran", v)

    def my_fill(self, value):
        self.log.append(("my_fill", gen.freeze(value)))

    def my_compute(self):
        self.log.append("my_compute")
        yield ("my_computed", len(self.log))

    def my_request(self):
        self.log.append("my_request")
        yield ("my_requested", len(self.log))

    def my_reset(self):
        self.log.append("my_reset")

    def my_fill_into(self, element, value):
        self.log.append(("my_fill_into", gen.freeze(value)))
        element.fill(("my_filled", value))


class FC(Logged):
    def fill(self, value):
        self.log.append(("fill", gen.freeze(value)))

    def compute(self):
        self.log.append("compute")
        yield ("computed", len(self.log))

    def reset(self):
        self.log.append("reset")


class FCNoReset(Logged):
    def fill(self, value):
        self.log.append(("fill", gen.freeze(value)))

    def compute(self):
        self.log.append("compute")
        yield ("computed", len(self.log))


class FR(Logged):
    def fill(self, value):
        self.log.append(("fill", gen.freeze(value)))

    def request(self):
        self.log.append("request")
        yield ("requested", len(self.log))

    def reset(self):
        self.log.append("reset")


class OnlyFill(Logged):
    def fill(self, value):
        self.log.append(("fill", gen.freeze(value)))


class RunBreak(Logged):
    _can_break_flow = True

    def run(self, flow):
        for v in flow:
            self.log.append(("run", gen.freeze(v)))
            if gen._num(gen.data_of(v)) % 2:
                yield ("ran", v)
                yield ("ran-again", v)


class RunBreakFalse(RunBreak):
    # the marker's presence counts, not its value (FillInto's docstring)
    _can_break_flow = False


class RunBreakNone(RunBreak):
    _can_break_flow = None


class RunPlain(Logged):
    def run(self, flow):
        for v in flow:
            self.log.append(("run", gen.freeze(v)))
            yield ("ran", v)


class FI(Logged):
    def fill_into(self, element, value):
        self.log.append(("fill_into", gen.freeze(value)))
        element.fill(("filled_into", value))


class RunAndFC(Logged):
    """Like lena.flow.Count: run, fill and compute."""

    def run(self, flow):
        for v in flow:
            self.log.append(("run", gen.freeze(v)))
            yield ("ran", v)

    def fill(self, value):
        self.log.append(("fill", gen.freeze(value)))

    def compute(self):
        self.log.append("compute")
        yield ("computed", len(self.log))


class FCR(Logged):
    """fill, compute and request (compute must win in FillCompute, request in FillRequest)."""

    def fill(self, value):
        self.log.append(("fill", gen.freeze(value)))

    def compute(self):
        self.log.append("compute")
        yield ("computed", len(self.log))

    def request(self):
        self.log.append("request")
        yield ("requested", len(self.log))

    def reset(self):
        self.log.append("reset")


class RunAndCall(Logged):
    """run must win over __call__ in Run."""

    def run(self, flow):
        for v in flow:
            self.log.append(("run", gen.freeze(v)))
            yield ("ran", v)

    def __call__(self, value):
        self.log.append(("call", gen.freeze(value)))
        return ("called", value)


class FICallRun(Logged):
    """fill_into must win over __call__ and run in FillInto."""
    _can_break_flow = True

    def fill_into(self, element, value):
        self.log.append(("fill_into", gen.freeze(value)))
        element.fill(("filled_into", value))

    def __call__(self, value):
        self.log.append(("call", gen.freeze(value)))
        return ("called", value)

    def run(self, flow):
        for v in flow:
            self.log.append(("run", gen.freeze(v)))
            yield ("ran", v)


class CallRunBreak(Logged):
    """__call__ must win over run in FillInto."""
    _can_break_flow = True

    def __call__(self, value):
        self.log.append(("call", gen.freeze(value)))
        return ("called", value)

    def run(self, flow):
        for v in flow:
            self.log.append(("run", gen.freeze(v)))
            yield ("ran", v)
            yield ("ran2", v)


class NonCallable(Logged):
    run = 5
    fill = 5
    compute = 5
    request = 5
    reset = 5
    fill_into = 5


# falsy elements (an empty container, a __bool__ returning False) must be treated
# exactly like their truthy twins: "is None" is not "is falsy"
def _falsy(base, how):
    if how == "len0":
        return type(base.__name__ + "Len0", (base,), {"__len__": lambda self: 0})
    return type(base.__name__ + "BoolFalse", (base,), {"__bool__": lambda self: False})


class GenFuncHolder(object):
    """Plain functions have no log; the holder keeps one for them."""


def _reprfails(base):
    def bad(self):
        raise RuntimeError("this element cannot be printed (yet)")
    return type(base.__name__ + "ReprFails", (base,), {"__repr__": bad, "__str__": bad})


def make_el(kind):
    """-> (element, log getter)."""
    if kind == "none":
        return None, lambda: None
    if kind == "int":
        return 5, lambda: None
    if kind == "str":
        return "abc", lambda: None
    if kind == "list":
        return [1, (2, {"l": 1}), 3], lambda: None
    if kind == "range":
        return range(3), lambda: None
    if kind == "function":
        log = []

        def fun(value):
            log.append(("fun", gen.freeze(value)))
            return ("fun", value)
        return fun, lambda: log
    if kind == "genfunction":
        log = []

        def genfun(flow=(7, 8)):
            for v in flow:
                log.append(("genfun", gen.freeze(v)))
                yield ("gen", v)
        return genfun, lambda: log
    cls = {"callobj": CallObj, "srcobj": SrcObj, "custom": Custom, "fc": FC,
           "fc_noreset": FCNoReset, "fr": FR, "onlyfill": OnlyFill, "run_break": RunBreak,
           "run_break_false": RunBreakFalse, "run_break_none": RunBreakNone,
           "run_plain": RunPlain, "fill_into": FI, "run_and_fc": RunAndFC,
           "fcr": FCR, "run_and_call": RunAndCall, "fi_call_run": FICallRun,
           "call_runbreak": CallRunBreak, "noncallable": NonCallable,
           "custom_len0": _falsy(Custom, "len0"), "custom_boolfalse": _falsy(Custom, "bool"),
           "run_plain_len0": _falsy(RunPlain, "len0"), "fcr_boolfalse": _falsy(FCR, "bool"),
           "callobj_len0": _falsy(CallObj, "len0"), "fc_len0": _falsy(FC, "len0"),
           "srcobj_boolfalse": _falsy(SrcObj, "bool"), "srciterobj": SrcIterObj,
           "callobj_reprfails": _reprfails(CallObj), "srcobj_reprfails": _reprfails(SrcObj),
           "fc_reprfails": _reprfails(FC), "run_plain_reprfails": _reprfails(RunPlain),
           "fr_reprfails": _reprfails(FR),
           "fill_into_len0": _falsy(FI, "len0")}[kind]
    el = cls()
    return el, lambda: el.log


KINDS = ["callobj", "srcobj", "function", "genfunction", "list", "range", "custom", "fc",
         "fc_noreset", "fr", "onlyfill", "run_break", "run_plain", "fill_into", "run_and_fc",
         "fcr", "run_and_call", "fi_call_run", "call_runbreak",
         "noncallable", "none", "int", "str",
         "custom_len0", "custom_boolfalse", "run_plain_len0", "fcr_boolfalse", "callobj_len0",
         "fc_len0", "srcobj_boolfalse", "fill_into_len0", "run_break_false", "run_break_none",
         "srciterobj", "callobj_reprfails", "srcobj_reprfails", "fc_reprfails",
         "run_plain_reprfails", "fr_reprfails"]
ABSENT = "<absent>"
NAMES = {
    "Call": [ABSENT, "__call__", "my_call", "fill", "attr5", "nope"],
    "SourceEl": [ABSENT, "__call__", "my_src", "compute", "__iter__", "attr5", "nope"],
    "Run": [ABSENT, "run", "my_run", "__call__", "attr5", "nope"],
    "FillInto": [ABSENT, "fill_into", "my_fill_into", "attr5", "nope"],
}
FC_FILL = [ABSENT, "fill", "my_fill", "attr5", "nope"]
FC_COMPUTE = [ABSENT, "compute", "my_compute", "request", "attr5", "nope"]
FR_FILL = [ABSENT, "my_fill", "nope"]
FR_REQUEST = [ABSENT, "my_request", "compute", "nope"]
FR_RESET = [[None, ABSENT], [0, ABSENT], [1, ABSENT], [1, "my_reset"], [1, "nope"], [0, "nope"]]


def matrix_cases():
    for kind in KINDS:
        for ad in ("Call", "SourceEl", "Run", "FillInto"):
            for name in NAMES[ad]:
                yield {"k": "adapter", "adapter": ad, "kind": kind, "name": name}
        for f in FC_FILL:
            for c in FC_COMPUTE:
                yield {"k": "adapter", "adapter": "FillCompute", "kind": kind, "fill": f,
                       "compute": c}
        for f in FR_FILL:
            for q in FR_REQUEST:
                for reset, rname in FR_RESET:
                    yield {"k": "adapter", "adapter": "FillRequest", "kind": kind, "fill": f,
                           "request": q, "reset": reset, "reset_name": rname}
    yield {"k": "run_none_function"}
    for ad in ("Call", "Run", "Sequence", "FillSeq", "Source-tail"):
        yield {"k": "class_as_function", "adapter": ad}


def cm(el, name):
    """The callable attribute *name* of *el*, or None."""
    a = getattr(el, name, None)
    return a if callable(a) else None


class Collect(object):
    def __init__(self):
        self.got = []

    def fill(self, value):
        self.got.append(value)


_ADDR = re.compile(r" at 0x[0-9a-fA-F]+")


def norm(v):
    """Comparable form: object addresses removed from reprs; consecutive repeated reset
    entries of a call log collapsed (reset is idempotent: calling it twice in a row does not
    change the meaning)."""
    if isinstance(v, str):
        return _ADDR.sub("", v)
    if isinstance(v, list):
        out = []
        for x in v:
            x = norm(x)
            if out and x == out[-1] and x in ("reset", "my_reset"):
                continue
            out.append(x)
        return out
    if isinstance(v, dict):
        return {k: norm(x) for k, x in v.items()}
    return v


def result_of(thunk):
    """Outcome of a call: generators/iterators are materialised."""
    try:
        v = thunk()
        if hasattr(v, "__next__") or isinstance(v, (range, list)):
            v = ["<iter>"] + [gen.freeze(x) for x in v]
        else:
            v = gen.freeze(v)
        return ["ok", v]
    except Exception as e:  # pylint: disable=broad-except
        return ["exc", type(e).__name__]


VALUES = [7, (8, {"a": 1}), 0]


def flow_values():
    return [1, (2, {"c": 1}), 3, 4]


def expect(adapter, el, r):
    """Documented accept/reject decision and, if accepted, the reference behaviour as a
    function (twin element) -> list of outcomes.  Written from the adapters' docstrings."""
    kind = r["kind"]
    if adapter == "Call":
        name = r["name"]
        if name == ABSENT:
            if not callable(el):
                return None
            return lambda t: [result_of(lambda: t(v)) for v in VALUES]
        if cm(el, name) is None:
            return None
        return lambda t: [result_of(lambda: getattr(t, name)(v)) for v in VALUES]
    if adapter == "SourceEl":
        name = r["name"]
        # the source is asked twice (a Source called twice, or feeding two analyses): the
        # adapter must give each time what the wrapped method / iterable gives each time
        if name == ABSENT:
            if callable(el):
                return lambda t: [result_of(lambda: list(t())) for _ in range(2)]
            if hasattr(el, "__iter__"):
                return lambda t: [result_of(lambda: list(iter(t))) for _ in range(2)]
            return None
        if cm(el, name) is None:
            return None
        return lambda t: [result_of(lambda: list(getattr(t, name)())) for _ in range(2)]
    if adapter == "Run":
        name = r["name"]
        if name == ABSENT:
            if cm(el, "run"):
                return lambda t: [result_of(lambda: t.run(iter(flow_values())))]
            if callable(el):
                return lambda t: [result_of(lambda: [t(v) for v in flow_values()])]
            if cm(el, "fill") and cm(el, "compute"):
                def fc(t):
                    def go():
                        for v in flow_values():
                            t.fill(v)
                        return list(t.compute())
                    return [result_of(go)]
                return fc
            return None
        if el is None or cm(el, name) is None:
            # el None is documented only together with a generator *function*
            return None
        return lambda t: [result_of(lambda: getattr(t, name)(iter(flow_values())))]
    if adapter == "FillInto":
        name = r["name"]

        def fi(method_of):
            def ref(t):
                outs = []
                for v in VALUES:
                    c = Collect()
                    outs.append(result_of(lambda: method_of(t)(c, v)))
                    outs.append(gen.freeze(c.got))
                return outs
            return ref
        if name == ABSENT:
            if cm(el, "fill_into"):
                return fi(lambda t: t.fill_into)
            if callable(el):
                return fi(lambda t: (lambda c, v: c.fill(t(v))))
            if cm(el, "run") and hasattr(el, "_can_break_flow"):
                def viarun(t):
                    def f(c, v):
                        for x in t.run([v]):
                            c.fill(x)
                    return f
                return fi(viarun)
            return None
        if cm(el, name) is None:
            return None
        return fi(lambda t: getattr(t, name))
    if adapter == "FillCompute":
        f = "fill" if r["fill"] == ABSENT else r["fill"]
        c = "compute" if r["compute"] == ABSENT else r["compute"]
        if cm(el, f) is None:
            return None
        if cm(el, c) is not None:
            cname = c
        elif cm(el, "request") is not None:
            cname = "request"
        else:
            return None

        def fcref(t):
            outs = []
            for v in VALUES:
                outs.append(result_of(lambda: getattr(t, f)(v)))
            outs.append(result_of(lambda: getattr(t, cname)()))
            outs.append(result_of(lambda: getattr(t, f)(5)))
            outs.append(result_of(lambda: getattr(t, cname)()))
            return outs
        return fcref
    if adapter == "FillRequest":
        f = "fill" if r["fill"] == ABSENT else r["fill"]
        q = "request" if r["request"] == ABSENT else r["request"]
        rn = "reset" if r["reset_name"] == ABSENT else r["reset_name"]
        reset = r["reset"]
        has_run = cm(el, "run") is not None
        has_fill = cm(el, f) is not None
        has_reset = cm(el, rn) is not None
        if reset and not has_reset:
            return None
        if not has_fill and not has_run:
            return None
        if has_fill and reset is None:
            return None        # "Require explicit reset for FillCompute elements"
        if cm(el, q) is not None:
            qname = q
        elif cm(el, "compute") is not None:
            qname = "compute"
        elif has_run:
            qname = None
        else:
            return None

        def frref(t):
            outs = []
            if has_fill and qname:
                for v in VALUES:
                    outs.append(result_of(lambda: getattr(t, f)(v)))

                    def req():
                        got = list(getattr(t, qname)())
                        if reset:
                            getattr(t, rn)()
                        return got
                    outs.append(result_of(req))

            def run():
                got = []
                for v in flow_values():
                    if has_run:
                        got.extend(t.run(iter([v])))
                    else:
                        getattr(t, f)(v)
                        got.extend(getattr(t, qname)())
                    if reset:
                        getattr(t, rn)()
                return got
            outs.append(result_of(run))
            return outs
        return frref
    raise ValueError(adapter)


def construct(adapter, el, r):
    import lena.core
    cls = getattr(lena.core, adapter)
    if adapter in ("Call", "SourceEl", "Run", "FillInto"):
        if r["name"] == ABSENT:
            return cls(el)
        kw = {"Call": "call", "SourceEl": "call", "Run": "run", "FillInto": "fill_into"}[adapter]
        return cls(el, **{kw: r["name"]})
    if adapter == "FillCompute":
        kw = {}
        if r["fill"] != ABSENT:
            kw["fill"] = r["fill"]
        if r["compute"] != ABSENT:
            kw["compute"] = r["compute"]
        return cls(el, **kw)
    kw = {"bufsize": 1, "buffer_input": True}
    if r["reset"] is not None:
        kw["reset"] = bool(r["reset"])
    if r["fill"] != ABSENT:
        kw["fill"] = r["fill"]
    if r["request"] != ABSENT:
        kw["request"] = r["request"]
    if r["reset_name"] != ABSENT:
        kw["reset_name"] = r["reset_name"]
    return cls(el, **kw)


def drive(adapter, ad, r):
    """The same calls as the reference, through the adapter's own interface."""
    if adapter == "Call":
        return [result_of(lambda: ad(v)) for v in VALUES]
    if adapter == "SourceEl":
        return [result_of(lambda: list(ad())) for _ in range(2)]
    if adapter == "Run":
        return [result_of(lambda: ad.run(iter(flow_values())))]
    if adapter == "FillInto":
        outs = []
        for v in VALUES:
            c = Collect()
            outs.append(result_of(lambda: ad.fill_into(c, v)))
            outs.append(gen.freeze(c.got))
        return outs
    if adapter == "FillCompute":
        outs = [result_of(lambda: ad.fill(v)) for v in VALUES]
        outs.append(result_of(lambda: ad.compute()))
        outs.append(result_of(lambda: ad.fill(5)))
        outs.append(result_of(lambda: ad.compute()))
        return outs
    outs = []
    if callable(getattr(ad, "fill", None)) and callable(getattr(ad, "request", None)):
        for v in VALUES:
            outs.append(result_of(lambda: ad.fill(v)))
            outs.append(result_of(lambda: list(ad.request())))
    outs.append(result_of(lambda: list(ad.run(iter(flow_values())))))
    return outs


def cell_name(r):
    ad = r["adapter"]
    if ad == "FillCompute":
        return "fill=%s,compute=%s" % (r["fill"], r["compute"])
    if ad == "FillRequest":
        return "fill=%s,request=%s,reset=%s,reset_name=%s" % (r["fill"], r["request"],
                                                               r["reset"], r["reset_name"])
    return "name=%s" % r["name"]


def name_class(el, r):
    """Coarse class of the method-name argument(s), for the mechanism string."""
    def one(n, default):
        if n == ABSENT:
            return "absent"
        a = getattr(el, n, None) if isinstance(n, str) else None
        if callable(a):
            return "existing"
        return "noncallable" if a is not None else "missing"
    ad = r["adapter"]
    if ad == "FillCompute":
        return "fill-%s,compute-%s" % (one(r["fill"], "fill"), one(r["compute"], "compute"))
    if ad == "FillRequest":
        return "fill-%s,request-%s,reset-%s-%s" % (
            one(r["fill"], "fill"), one(r["request"], "request"), r["reset"],
            one(r["reset_name"], "reset"))
    return "name-" + one(r["name"], None)


def run_adapter(r, obs):
    import lena.core
    obs.nontrivial = True
    adapter, kind = r["adapter"], r["kind"]
    el, getlog = make_el(kind)
    twin, twinlog = make_el(kind)
    ref = expect(adapter, el, r)
    if kind.endswith("_reprfails") and ref is None:
        return      # a rejection prints the element: only the accepted combinations are judged
    where = "%s:%s:%s" % (adapter, kind, name_class(el, r))
    n_raise_before = len(obs.raise_log)
    try:
        ad = construct(adapter, el, r)
    except lena.core.LenaTypeError:
        obs.count("matrix_rejected")
        obs.check(ref is None, "adapter-rejects-documented-combination:" + where,
                  "%s(%s element, %s) raised LenaTypeError although the documentation accepts "
                  "it" % (adapter, kind, cell_name(r)))
        other = [x for x in obs.raise_log[n_raise_before:] if x[0] != "LenaTypeError"]
        obs.check(not other, "adapter-rejection-raises-other-exception-internally:" + where,
                  "constructor of %s(%s, %s) raised internally: %r"
                  % (adapter, kind, cell_name(r), other[:3]))
        return
    except Exception as e:  # pylint: disable=broad-except
        obs.count("matrix_rejected")
        obs.check(False, "adapter-construction-raises-%s:%s" % (type(e).__name__, where),
                  "%s(%s element, %s) raised %r instead of LenaTypeError (or accepting)"
                  % (adapter, kind, cell_name(r), e))
        return
    obs.count("matrix_accepted")
    if ref is None:
        obs.check(False, "adapter-accepts-undocumented-combination:" + where,
                  "%s(%s element, %s) was accepted at construction; the documentation "
                  "requires LenaTypeError" % (adapter, kind, cell_name(r)))
        return
    got = drive(adapter, ad, r)
    exp = ref(twin)
    obs.count("adapter_calls_compared", len(exp))
    obs.check(norm(got) == norm(exp)
              and norm(gen.freeze(getlog())) == norm(gen.freeze(twinlog())),
              "adapter-call-differs-from-wrapped-method:" + where,
              "%s(%s element, %s): adapter gives %r (element log %r), direct calls of the "
              "wrapped method give %r (log %r)"
              % (adapter, kind, cell_name(r), got, getlog(), exp, twinlog()))


def run_case(r, obs):
    k = r["k"]
    if k == "chain":
        run_chain(r, obs)
    elif k == "userstop":
        run_userstop(r, obs)
    elif k == "adapter":
        run_adapter(r, obs)
    elif k == "class_as_function":
        # a class used as a conversion function (calling it makes an instance), whose instances
        # are callable themselves: the adapters call the class
        import lena.core
        obs.nontrivial = True

        class Energy(object):
            def __init__(self, v):
                self.v = v

            def __call__(self, factor):
                return ("instance called", self.v, factor)

            def __eq__(self, other):
                return isinstance(other, Energy) and other.v == self.v

            __hash__ = None

            def __repr__(self):
                return "Energy(%r)" % (self.v,)
        ad = r["adapter"]
        try:
            if ad == "Call":
                got = [lena.core.Call(Energy)(v) for v in (1, 2)]
            elif ad == "Run":
                got = list(lena.core.Run(Energy).run(iter([1, 2])))
            elif ad == "Sequence":
                got = list(lena.core.Sequence(Energy).run(iter([1, 2])))
            elif ad == "FillSeq":
                col = Collect()
                fs = lena.core.FillSeq(Energy, col)
                for v in (1, 2):
                    fs.fill(v)
                got = col.got
            else:
                got = list(lena.core.Source([1, 2], Energy)())
        except Exception as e:  # pylint: disable=broad-except
            got = "raised %r" % (e,)
        obs.count("matrix_accepted")
        obs.check(got == [Energy(1), Energy(2)],
                  "adapter-call-differs-from-wrapped-method:%s:class-with-callable-instances" % ad,
                  "%s around a class (a conversion function whose instances are callable) over "
                  "[1, 2] gives %r, calling the class gives %r" % (ad, got, [Energy(1), Energy(2)]))
    elif k == "run_none_function":
        import lena.core
        obs.nontrivial = True

        def genf(flow):
            for v in flow:
                yield ("g", v)
        ad = lena.core.Run(None, run=genf)
        got = gen.freeze(list(ad.run(iter(flow_values()))))
        exp = gen.freeze(list(genf(iter(flow_values()))))
        obs.count("adapter_calls_compared")
        obs.check(got == exp, "adapter-call-differs-from-wrapped-method:Run:none:function",
                  "Run(None, run=genf).run gives %r, genf gives %r" % (got, exp))
    else:
        raise ValueError(k)


RULE += (' Pre-elements include Filter(Selector(raising predicate, raise_on_error=False)); the SourceEl column of the adapter matrix asks the source twice.')
RULE += (' Accumulators also include user accumulators built on list and on dict (iterable '
         'objects), every accumulator is also given bare as a Split branch; flows also carry '
         'None / False / "" / 0 / 0.0 as data.')
RULE += (' Added: Filter with a user subclass of Selector that overrides __call__; a user callable / '
         'Variable getter that raises StopIteration for one value, under every driver (each must '
         'fail, none may end the flow silently).')
RULE += (' Added to the adapter matrix: an element that is both callable and iterable.')
RULE += (' Added: the bare accumulator as the first branch of a Split whose later branches change '
         'the contexts they receive in place.')
RULE += (' Added: valid elements whose repr() / str() fails (the text of an element is needed for an error message only).')

RULE += (' Round 10: chains with up to 10 pre and 6 post elements over flows of 17..300 values; flows of 1030..2600 values through step Slices; explicit FillInto adapters; chains deep-copied / pickled after some fills.')
