"""Live contracts with snapshots for C12, attached to the REAL methods

  histogram.scale, histogram.add, histogram.set_nevents, graph.scale

so that every rescale is evaluated however it is reached (direct call, ScaleTo,
scale_to, GroupScale).  Record-and-continue: the wrappers never raise on their own
and re-raise the wrapped method's exceptions unchanged.

Arithmetic is exact (Fraction); float tolerances are derived for the algorithm the
property names (4 ulp for one multiplication by s/old; (n+2d+6)-term forward error
bound for a recomputed integral).  Domain guard of the design: a call whose exact
cell volume, integral, s/old or resulting content leaves [1e-200, 1e200] is counted
as discarded and not judged.
"""
import copy
import itertools
import math
from collections import Counter
from fractions import Fraction

from rv.monitors import contracts
from rv.props._c06_monitor import is_num, flat_bins, unify_edges, unflat_index

counters = Counter()
_state = {"attached": False}
U = Fraction(1, 2 ** 53)
CANCEL = 2 ** 20
LO = Fraction(1, 10 ** 200)
HI = Fraction(10 ** 200)
INF = float("inf")


def fin(x):
    return is_num(x) and abs(x) != INF


def in_domain(q):
    q = abs(q)
    return q == 0 or LO <= q <= HI


def within_ulps(got, target, n=4):
    """|got - target| <= n ulp(target); target is an exact Fraction."""
    if not fin(got):
        return False
    try:
        ft = float(target)
    except OverflowError:
        return False
    return abs(Fraction(got) - target) <= n * Fraction(math.ulp(ft))


def volumes(E):
    """Exact cell volumes in index-product order."""
    widths = [[Fraction(a[i + 1]) - Fraction(a[i]) for i in range(len(a) - 1)] for a in E]
    out = []
    for ws in itertools.product(*widths):
        v = Fraction(1)
        for w in ws:
            v *= w
        out.append(v)
    return out


def hist_view(h):
    """(E, dim, nbins, flat cells) or None if the shape is not what edges say."""
    E = unify_edges(h.edges)
    dim = len(E)
    nbins = [len(a) - 1 for a in E]
    flat = flat_bins(h.bins, dim)
    n = 1
    for k in nbins:
        n *= k
    if len(flat) != n:
        return None
    return E, dim, nbins, flat


def integral_bounds(E, flat):
    """exact integral, A = sum |vol*cell|, K (number of rounding steps bound), in-domain?"""
    vols = volumes(E)
    I = Fraction(0)
    A = Fraction(0)
    ok = True
    for v, c in zip(vols, flat):
        t = v * Fraction(c)
        I += t
        A += abs(t)
        if not (in_domain(v) and in_domain(t)):
            ok = False
    if not (in_domain(I) and in_domain(A)):
        ok = False
    K = 4 * (len(flat) + 2 * len(E) + 6)
    return I, A, K, ok


def _skip():
    counters["contract_oracle_skipped"] += 1


def _rep(mech, msg):
    contracts.report(mech, msg)


# ------------------------------------------------------------ histogram.scale
def _make_hscale(orig):
    def scale(self, other=None, recompute=False):
        pre = None
        try:
            pre = _hscale_pre(self, other, recompute, orig)
        except Exception:  # pylint: disable=broad-except
            _skip()
        try:
            res = orig(self, other, recompute)
        except Exception as exc:  # pylint: disable=broad-except
            if pre is not None:
                try:
                    _hscale_exc(self, other, pre, exc)
                except Exception:  # pylint: disable=broad-except
                    _skip()
            raise
        if pre is not None:
            try:
                _hscale_post(self, other, recompute, pre, res)
            except Exception:  # pylint: disable=broad-except
                _skip()
        return res
    return scale


def _hscale_pre(h, other, recompute, orig):
    view = hist_view(h)
    if view is None:
        return None
    E, dim, nbins, flat = view
    if not all(fin(c) for c in flat) or not fin(h.n_out_of_range):
        counters["skipped_non_numeric"] += 1
        return None
    pre = {"E": copy.deepcopy(E), "edges_obj": h.edges, "edges_snap": copy.deepcopy(h.edges),
           "flat": flat, "oor": h.n_out_of_range, "cached": h._scale, "nbins": nbins}
    if other is not None:
        # the real rescale starts with exactly this call, so asking first changes nothing
        pre["old"] = orig(h)
    return pre


def _hscale_exc(h, other, pre, exc):
    import lena.core
    if other is None:
        return
    counters["evals_hist_rescale"] += 1
    contracts.evaluations["histogram.scale"] += 1
    old = pre["old"]
    view = hist_view(h)
    unchanged = view is not None and view[3] == pre["flat"] and h.n_out_of_range == pre["oor"] \
        and h.edges == pre["edges_snap"]
    if old == 0:
        if not isinstance(exc, lena.core.LenaValueError):
            _rep("hist-zero-scale-wrong-exception",
                 "rescaling %r (scale 0) to %r raised %r, not LenaValueError" % (h, other, exc))
        elif not unchanged:
            _rep("hist-zero-scale-rejected-but-changed",
                 "rescaling a zero-scale histogram raised but changed it: %r" % (h,))
    elif isinstance(exc, lena.core.LenaValueError):
        _rep("hist-rescale-rejected-nonzero-scale",
             "histogram with scale %r: scale(%r) raised %r" % (old, other, exc))


def _hscale_post(h, other, recompute, pre, res):
    E, flat0 = pre["E"], pre["flat"]
    if other is None:
        if pre["cached"] is not None and not recompute:
            counters["evals_hist_scale_cached"] += 1
            if not (res == pre["cached"] or (res != res and pre["cached"] != pre["cached"])):
                _rep("hist-scale-cached-value-not-returned",
                     "scale() returned %r, stored scale was %r" % (res, pre["cached"]))
            return
        I, A, K, ok = integral_bounds(E, flat0)
        if not ok:
            counters["discarded_out_of_domain"] += 1
            return
        counters["evals_hist_scale_computed"] += 1
        contracts.evaluations["histogram.scale"] += 1
        if not (fin(res) and abs(Fraction(res) - I) <= K * U * A):
            _rep("hist-scale-is-not-the-integral",
                 "scale() of histogram(%r, bins=%r) = %r, exact integral %r (tolerance %.3g)"
                 % (h.edges, h.bins, res, float(I), float(K * U * A)))
        return
    # ---- rescale to `other`
    old = pre["old"]
    if not (fin(other) and fin(old)):
        counters["skipped_non_numeric"] += 1
        return
    if old == 0:
        counters["evals_hist_rescale"] += 1
        _rep("hist-zero-scale-rescaled", "histogram %r with zero scale accepted scale(%r)"
             % (h, other))
        return
    I, A, K, ok = integral_bounds(E, flat0)
    fac = Fraction(other) / Fraction(old)
    targets = [Fraction(c) * fac for c in flat0]
    toor = Fraction(pre["oor"]) * fac
    if not (ok and in_domain(fac) and all(in_domain(t) for t in targets) and in_domain(toor)
            and all(in_domain(Fraction(c) * Fraction(other)) for c in flat0)):
        counters["discarded_out_of_domain"] += 1
        return
    counters["evals_hist_rescale"] += 1
    contracts.evaluations["histogram.scale"] += 1
    view = hist_view(h)
    if view is None or len(view[3]) != len(flat0):
        _rep("hist-rescale-changes-shape", "scale(%r) changed the shape of bins: %r"
             % (other, h.bins))
        return
    flat1 = view[3]
    bad = [(unflat_index(i, pre["nbins"]), flat0[i], flat1[i], float(t))
           for i, t in enumerate(targets) if not within_ulps(flat1[i], t)]
    counters["cells_compared"] += len(flat1)
    if bad:
        same = all(b[1] == b[2] for b in bad)
        _rep("hist-rescale-bins-not-multiplied" if same and len(bad) == len(flat1)
             else "hist-rescale-cell-wrong",
             "scale(%r) with old scale %r: cells (index, old, new, expected) %r of histogram "
             "edges %r" % (other, old, bad[:4], h.edges))
    if not within_ulps(h.n_out_of_range, toor):
        _rep("hist-rescale-n_out_of_range-not-multiplied",
             "scale(%r) with old scale %r: n_out_of_range %r -> %r, expected %r"
             % (other, old, pre["oor"], h.n_out_of_range, float(toor)))
    if not (h.edges == pre["edges_snap"]):
        _rep("hist-rescale-touches-edges", "scale(%r) changed edges %r -> %r"
             % (other, pre["edges_snap"], h.edges))
    if res is not None:
        _rep("hist-rescale-returns-value", "scale(%r) returned %r" % (other, res))
    # recomputed scale equals s up to rounding (pure integral of the new bins, no state change)
    I1, A1, K1, ok1 = integral_bounds(E, flat1) if all(fin(c) for c in flat1) else (0, 0, 0, False)
    if ok1 and abs(Fraction(old) - I) > K * U * A:
        # the stored scale was stale (bins changed after it was computed): documented as the
        # user's responsibility, the recomputed scale is then not s
        counters["stale_scale_not_judged"] += 1
    elif ok1:
        counters["evals_hist_recomputed_scale"] += 1
        tol = K * U * abs(fac) * A + K1 * U * A1
        if abs(I1 - Fraction(other)) > tol:
            _rep("hist-recomputed-scale-differs",
                 "after scale(%r) the integral of the bins is %r (tolerance %.3g); old scale "
                 "%r, edges %r" % (other, float(I1), float(tol), old, h.edges))


# ------------------------------------------------------------ histogram.set_nevents
def _make_set_nevents(orig):
    def set_nevents(self, nevents, include_out_of_range=False):
        pre = None
        try:
            view = hist_view(self)
            if view is not None and all(fin(c) for c in view[3]) and fin(self.n_out_of_range):
                pre = (view[3], self.n_out_of_range, view[2], copy.deepcopy(self.edges))
            else:
                counters["skipped_non_numeric"] += 1
        except Exception:  # pylint: disable=broad-except
            _skip()
        try:
            res = orig(self, nevents, include_out_of_range)
        except Exception as exc:  # pylint: disable=broad-except
            if pre is not None:
                try:
                    _nev_exc(self, nevents, include_out_of_range, pre, exc)
                except Exception:  # pylint: disable=broad-except
                    _skip()
            raise
        if pre is not None:
            try:
                _nev_post(self, nevents, include_out_of_range, pre)
            except Exception:  # pylint: disable=broad-except
                _skip()
        return res
    return set_nevents


def _nev_old(pre, incl):
    flat0, oor0 = pre[0], pre[1]
    old = sum((Fraction(c) for c in flat0), Fraction(0))
    S = sum((abs(Fraction(c)) for c in flat0), Fraction(0))
    if incl:
        old += Fraction(oor0)
        S += abs(Fraction(oor0))
    return old, S


def _nev_exc(h, n, incl, pre, exc):
    import lena.core
    counters["evals_set_nevents"] += 1
    old, S = _nev_old(pre, incl)
    view = hist_view(h)
    unchanged = view is not None and view[3] == pre[0] and h.n_out_of_range == pre[1]
    if old == 0:
        if not isinstance(exc, lena.core.LenaValueError):
            _rep("set_nevents-zero-events-wrong-exception",
                 "set_nevents(%r) on %r (no events) raised %r" % (n, h, exc))
        elif not unchanged:
            _rep("set_nevents-rejected-but-changed", "%r" % (h,))
    elif isinstance(exc, lena.core.LenaValueError) and abs(old) > CANCEL * (len(pre[0]) + 2) * U * S:
        # (with heavier cancellation the float sum the code sees may legitimately be 0)
        _rep("set_nevents-rejected-nonzero-events",
             "set_nevents(%r) raised %r for %r events" % (n, exc, float(old)))


def _nev_post(h, n, incl, pre):
    flat0, oor0, nbins, edges0 = pre
    if not fin(n):
        counters["skipped_non_numeric"] += 1
        return
    old, S = _nev_old(pre, incl)
    if old == 0:
        # the float sum the code sees may differ from the exact one only by rounding
        if S == 0:
            counters["evals_set_nevents"] += 1
            _rep("set_nevents-zero-events-accepted", "set_nevents(%r) accepted by %r" % (n, h))
        else:
            counters["discarded_cancelling_contents"] += 1
        return
    if abs(old) <= CANCEL * (len(flat0) + 2) * U * S:
        # the exact sum is at rounding-noise level of the float sum: n/old is not meaningful
        counters["discarded_cancelling_contents"] += 1
        return
    fac = Fraction(n) / old
    if not (in_domain(fac) and in_domain(fac * S)):
        counters["discarded_out_of_domain"] += 1
        return
    counters["evals_set_nevents"] += 1
    contracts.evaluations["histogram.set_nevents"] += 1
    view = hist_view(h)
    if view is None or len(view[3]) != len(flat0) or not all(fin(c) for c in view[3]):
        _rep("set_nevents-changes-shape", "bins after set_nevents(%r): %r" % (n, h.bins))
        return
    flat1 = view[3]
    ncell = len(flat1)
    K = 4 * (ncell + 6)
    new = sum((Fraction(c) for c in flat1), Fraction(0))
    if incl:
        new += Fraction(h.n_out_of_range)
    tol = K * U * abs(fac) * S
    if abs(new - Fraction(n)) > tol:
        _rep("set_nevents-sum-differs",
             "after set_nevents(%r, include_out_of_range=%r) the contents sum to %r "
             "(tolerance %.3g); before: bins %r n_out_of_range %r"
             % (n, incl, float(new), float(tol), flat0, oor0))
    # "scale histogram bins": every cell by the common factor n/old
    rel = 4 * U + 2 * (ncell + 2) * U * S / abs(old)
    bad = []
    for i, (c0, c1) in enumerate(zip(list(flat0) + [oor0], list(flat1) + [h.n_out_of_range])):
        t = Fraction(c0) * fac
        if abs(Fraction(c1) - t) > abs(t) * rel + Fraction(math.ulp(0.0)):
            bad.append((i, c0, c1, float(t)))
    counters["cells_compared"] += ncell + 1
    if bad:
        oor_only = len(bad) == 1 and bad[0][0] == ncell
        _rep("set_nevents-n_out_of_range-not-scaled" if oor_only
             else "set_nevents-cell-not-proportional",
             "set_nevents(%r, %r): (flat index, old, new, expected) %r; bins before %r"
             % (n, incl, bad[:4], flat0))
    if not (h.edges == edges0):
        _rep("set_nevents-touches-edges", "%r -> %r" % (edges0, h.edges))


# ------------------------------------------------------------ histogram.add
def _edges_relation(e1, e2):
    """'equal', 'different' (clearly: shape or > 1e-6 relative) or 'close'."""
    try:
        if e1 == e2:
            return "equal"
        E1, E2 = unify_edges(e1), unify_edges(e2)
        if len(E1) != len(E2) or any(len(a) != len(b) for a, b in zip(E1, E2)):
            return "different"
        for a, b in zip(E1, E2):
            for x, y in zip(a, b):
                if abs(x - y) > 1e-6 * max(abs(x), abs(y)):
                    return "different"
        return "close"
    except Exception:  # pylint: disable=broad-except
        return "different"


def _make_add(orig):
    def add(self, other, weight=1, *args, **kwargs):
        pre = None
        try:
            import lena.structures
            if isinstance(other, lena.structures.histogram) and not args and not kwargs:
                pre = (copy.deepcopy(self.edges), copy.deepcopy(self.bins), self.n_out_of_range,
                       copy.deepcopy(other.edges), copy.deepcopy(other.bins),
                       other.n_out_of_range)
        except Exception:  # pylint: disable=broad-except
            _skip()
        try:
            res = orig(self, other, weight, *args, **kwargs)
        except Exception as exc:  # pylint: disable=broad-except
            if pre is not None:
                try:
                    _add_exc(self, other, weight, pre, exc)
                except Exception:  # pylint: disable=broad-except
                    _skip()
            raise
        if pre is not None:
            try:
                _add_post(self, other, weight, pre, res)
            except Exception:  # pylint: disable=broad-except
                _skip()
        return res
    return add


def _operands_unchanged(a, b, pre, what):
    if not (a.edges == pre[0] and a.bins == pre[1] and a.n_out_of_range == pre[2]):
        _rep("add-modifies-self", "%s: self changed from histogram(%r, %r) oor %r to %r oor %r"
             % (what, pre[0], pre[1], pre[2], a, a.n_out_of_range))
    if not (b.edges == pre[3] and b.bins == pre[4] and b.n_out_of_range == pre[5]):
        _rep("add-modifies-other", "%s: other changed from histogram(%r, %r) oor %r to %r oor %r"
             % (what, pre[3], pre[4], pre[5], b, b.n_out_of_range))


def _shape_word(e1, e2):
    E1, E2 = unify_edges(e1), unify_edges(e2)
    if len(E1) != len(E2):
        return "other-dimension"
    if any(len(b) > len(a) for a, b in zip(E1, E2)):
        return "other-has-more-edges"
    if any(len(b) < len(a) for a, b in zip(E1, E2)):
        return "other-has-fewer-edges"
    return "edge-values-differ"


def _add_exc(a, b, w, pre, exc):
    import lena.core
    counters["evals_add"] += 1
    contracts.evaluations["histogram.add"] += 1
    rel = _edges_relation(pre[0], pre[3])
    _operands_unchanged(a, b, pre, "rejected add")
    if rel == "equal":
        _rep("add-rejects-equal-edges", "add of histograms with equal edges %r raised %r"
             % (pre[0], exc))
    elif rel == "different" and not isinstance(exc, lena.core.LenaValueError):
        _rep("add-unequal-edges-wrong-exception:" + _shape_word(pre[0], pre[3]),
             "histogram(edges=%r).add(histogram(edges=%r)) raised %s(%s) instead of "
             "LenaValueError" % (pre[0], pre[3], type(exc).__name__, exc))


def _add_post(a, b, w, pre, res):
    import lena.structures
    counters["evals_add"] += 1
    contracts.evaluations["histogram.add"] += 1
    rel = _edges_relation(pre[0], pre[3])
    _operands_unchanged(a, b, pre, "add")
    if rel == "different":
        _rep("add-accepts-different-edges:" + _shape_word(pre[0], pre[3]),
             "histogram(edges=%r, bins=%r).add(histogram(edges=%r, bins=%r), %r) returned %r "
             "instead of raising LenaValueError" % (pre[0], pre[1], pre[3], pre[4], w, res))
        return
    if rel != "equal":
        counters["add_close_edges_not_judged"] += 1
        return
    if not isinstance(res, lena.structures.histogram) or res is a or res is b:
        _rep("add-result-not-a-new-histogram", "add returned %r" % (res,))
        return
    E = unify_edges(pre[0])
    dim = len(E)
    fa, fb = flat_bins(pre[1], dim), flat_bins(pre[4], dim)
    if not (all(fin(c) for c in fa + fb) and fin(w) and fin(pre[2]) and fin(pre[5])):
        counters["skipped_non_numeric"] += 1
        return
    exp = [x + y * w for x, y in zip(fa, fb)]
    if not all(fin(c) for c in exp):
        counters["discarded_out_of_domain"] += 1
        return
    view = hist_view(res)
    counters["cells_compared"] += len(exp)
    if view is None or view[3] != exp:
        got = view[3] if view is not None else res.bins
        _rep("add-not-cellwise",
             "histogram(%r, %r).add(histogram(.., %r), %r): bins %r, expected a + w*b = %r"
             % (pre[0], pre[1], pre[4], w, got, exp))
    if not (res.edges == pre[0]):
        _rep("add-result-edges-differ", "result edges %r, operands' %r" % (res.edges, pre[0]))
    # the sum is a new histogram: a scale it already carries must be its own integral (it would
    # be returned by scale() and used by scale(s) without being recomputed)
    cached = getattr(res, "_scale", None)
    if cached is not None and view is not None and all(fin(c) for c in view[3]):
        I, A, K, ok = integral_bounds(E, view[3])
        if ok:
            counters["evals_add_result_scale"] += 1
            if not (fin(cached) and abs(Fraction(cached) - I) <= K * U * A):
                _rep("add-result-carries-a-scale-that-is-not-its-integral",
                     "histogram(%r, %r) [stored scale %r].add(histogram(.., %r), %r) returned a "
                     "histogram with bins %r whose stored scale is %r, its integral is %r"
                     % (pre[0], pre[1], getattr(a, "_scale", None), pre[4], w, view[3], cached,
                        float(I)))
    if not (res.n_out_of_range == pre[2] + pre[5] * w):
        _rep("add-n_out_of_range-not-combined",
             "n_out_of_range %r + %r*%r gave %r" % (pre[2], w, pre[5], res.n_out_of_range))


# ------------------------------------------------------------ graph.scale
def error_owner(fields):
    """(dim, {error field index: coordinate name}) by the documented naming rule,
    or None when some error field has no unique coordinate."""
    coords = [f for f in fields if not f.startswith("error_")]
    dim = len(coords)
    if list(fields[:dim]) != coords:
        return None
    owner = {}
    for i, f in enumerate(fields):
        if i < dim:
            continue
        main = f[6:]
        cands = [c for c in coords if main == c or main.startswith(c + "_")]
        if len(cands) != 1:
            return None
        owner[i] = cands[0]
    return dim, owner


def _make_gscale(orig):
    def scale(self, other=None):
        pre = None
        try:
            if other is not None:
                pre = ([list(c) for c in self.coords], list(self.coords), self._scale,
                       tuple(self.field_names))
        except Exception:  # pylint: disable=broad-except
            _skip()
        try:
            res = orig(self, other)
        except Exception as exc:  # pylint: disable=broad-except
            if pre is not None:
                try:
                    _gscale_exc(self, other, pre, exc)
                except Exception:  # pylint: disable=broad-except
                    _skip()
            raise
        try:
            if pre is not None:
                _gscale_post(self, other, pre, res)
            else:
                counters["evals_graph_scale_get"] += 1
                if not (res is self._scale or res == self._scale):
                    _rep("graph-scale-get-differs", "scale() = %r, stored %r" % (res, self._scale))
        except Exception:  # pylint: disable=broad-except
            _skip()
        return res
    return scale


def _gscale_exc(g, other, pre, exc):
    import lena.core
    counters["evals_graph_rescale"] += 1
    contracts.evaluations["graph.scale"] += 1
    old = pre[2]
    unchanged = [list(c) for c in g.coords] == pre[0] and g._scale == old
    if old is None or old == 0:
        if not isinstance(exc, lena.core.LenaValueError):
            _rep("graph-zero-or-unknown-scale-wrong-exception",
                 "graph with scale %r: scale(%r) raised %r" % (old, other, exc))
        elif not unchanged:
            _rep("graph-rescale-rejected-but-changed", "%r" % (g,))
    elif isinstance(exc, lena.core.LenaValueError):
        _rep("graph-rescale-rejected-known-scale",
             "graph with scale %r: scale(%r) raised %r" % (old, other, exc))


def _gscale_post(g, other, pre, res):
    snap, objs, old, fields = pre
    counters["evals_graph_rescale"] += 1
    contracts.evaluations["graph.scale"] += 1
    if old is None or old == 0:
        _rep("graph-unknown-scale-rescaled" if old is None else "graph-zero-scale-rescaled",
             "graph%r with scale %r accepted scale(%r)" % (fields, old, other))
        return
    parsed = error_owner(fields)
    if parsed is None or not (fin(other) and fin(old)):
        counters["skipped_graph_naming_or_non_numeric"] += 1
        return
    dim, owner = parsed
    last = fields[dim - 1]
    scaled = set([dim - 1] + [i for i, c in owner.items() if c == last])
    fac = Fraction(other) / Fraction(old)
    if not (in_domain(fac) and all(fin(v) and in_domain(Fraction(v) * fac)
                                   for i in scaled for v in snap[i])):
        counters["discarded_out_of_domain"] += 1
        return
    if len(g.coords) != len(snap) or any(len(a) != len(b) for a, b in zip(g.coords, snap)):
        _rep("graph-rescale-changes-shape", "coords %r -> %r" % (snap, g.coords))
        return
    for i, (col0, col1) in enumerate(zip(snap, g.coords)):
        counters["cells_compared"] += len(col0)
        name = fields[i]
        if i in scaled:
            bad = [(j, v0, v1) for j, (v0, v1) in enumerate(zip(col0, col1))
                   if not within_ulps(v1, Fraction(v0) * fac)]
            if bad:
                kind = "last-coordinate" if i == dim - 1 else "error-of-last-coordinate"
                _rep("graph-rescale-%s-not-multiplied" % kind,
                     "graph%r scale %r -> %r: field %r (point, old, new) %r, factor %r"
                     % (fields, old, other, name, bad[:4], float(fac)))
        else:
            if list(col1) != col0:
                kind = "other-coordinate" if i < dim else "error-of-other-coordinate"
                _rep("graph-rescale-touches-%s" % kind,
                     "graph%r scale %r -> %r: field %r changed %r -> %r"
                     % (fields, old, other, name, col0, list(col1)))
    if not (g._scale == other):
        _rep("graph-scale-not-stored", "after scale(%r) the scale is %r" % (other, g._scale))
    if res is not None:
        _rep("graph-rescale-returns-value", "scale(%r) returned %r" % (other, res))


def attach():
    if _state["attached"]:
        return 0
    import sys
    import lena.structures  # noqa
    import lena.flow  # noqa
    hmod = sys.modules["lena.structures.histogram"]
    gmod = sys.modules["lena.structures.graph"]
    n = contracts.attach(hmod.histogram, "scale", _make_hscale)
    n += contracts.attach(hmod.histogram, "add", _make_add)
    n += contracts.attach(hmod.histogram, "set_nevents", _make_set_nevents)
    n += contracts.attach(gmod.graph, "scale", _make_gscale)
    _state["attached"] = True
    counters["binding_sites_rebound"] += n
    return n


def flush(obs):
    for k, v in list(counters.items()):
        if v:
            obs.count("contract_" + k, v)
    counters.clear()
    for v in contracts.drain():
        obs.fail(v["mech"], v["msg"], **v.get("detail", {}))
