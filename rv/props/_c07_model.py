"""Reference model for C07: containment order, meet, difference, recursive update.

Pure Python, never imports lena.  Equality is Python ``==`` (as lena uses it).
"""

KEYS = ("a", "b")
LEAVES8 = [0, 1, False, "", "s", None, {}, []]


def cp(v):
    """Fast structural copy of a JSON-like value (fresh dicts and lists)."""
    if type(v) is dict:
        return {k: cp(x) for k, x in v.items()}
    if type(v) is list:
        return [cp(x) for x in v]
    return v


def isd(v):
    return isinstance(v, dict)


def contained(d, e):
    """d [= e : every key of d is in e with an equal value or, both dicts, recursively."""
    for k, v in d.items():
        if k not in e:
            return False
        w = e[k]
        if v == w:
            continue
        if isd(v) and isd(w) and contained(v, w):
            continue
        return False
    return True


def contained_l(d, e, level=-1):
    """Containment with the recursion depth limited like the *level* argument of
    intersection/difference (level 0: equality; level 1: items compared by ==)."""
    if level == 0:
        return d == e
    for k, v in d.items():
        if k not in e:
            return False
        w = e[k]
        if v == w:
            continue
        if level != 1 and isd(v) and isd(w) and contained_l(v, w, level - 1):
            continue
        return False
    return True


def meet2(d1, d2, level=-1):
    """Greatest dict contained in d1 and d2 (recursion limited by *level*)."""
    if level == 0:
        return cp(d1) if (d1 == d2) else {}
    res = {}
    for k, v in d1.items():
        if k in d2:
            w = d2[k]
            if v == w:
                res[k] = cp(v)
            elif level != 1 and isd(v) and isd(w):
                res[k] = meet2(v, w, level - 1)
    return res


def meet(dicts, level=-1):
    if not dicts:
        return {}
    res = cp(dicts[0])
    for d in dicts[1:]:
        res = meet2(res, d, level)
        if level == 0 and not res:
            return {}
    return res


def diff(d1, d2, level=-1):
    """Items of d1 not contained in d2 (a partially contained sub-dict is
    replaced by its own difference unless *level* forbids recursion)."""
    if d1 == d2:
        return {}
    if level == 0:
        return cp(d1)
    res = {}
    for k, v in d1.items():
        if k not in d2:
            res[k] = cp(v)
            continue
        w = d2[k]
        if v == w:
            continue
        if level != 1 and isd(v) and isd(w):
            sub = diff(v, w, level - 1)
            if len(sub):           # empty <=> v is contained in w
                res[k] = sub
        else:
            res[k] = cp(v)
    return res


def update(d, other):
    """Model of update_recursively: returns the new dictionary."""
    res = cp(d)
    for k, v in other.items():
        if not isd(v):
            res[k] = cp(v)
        elif k in res and isd(res[k]):
            res[k] = update(res[k], v)
        else:
            res[k] = cp(v)
    return res


def depth(v):
    if isd(v) and v:
        return 1 + max(depth(x) for x in v.values())
    return 0


def enum_dicts(leaves, maxdepth, keys=KEYS):
    """All dicts over *keys* with nesting depth <= maxdepth and the given leaves
    ({} counts as a leaf).  Deterministic order.  Returns a list of fresh dicts."""
    values = list(leaves)          # values allowed under a key at the current depth
    dicts = [{}]
    for _ in range(maxdepth):
        # dicts of depth <= current built from `values`
        new = []
        opts = [None] + list(range(len(values)))
        for ia in opts:
            for ib in opts:
                d = {}
                if ia is not None:
                    d[keys[0]] = cp(values[ia])
                if ib is not None:
                    d[keys[1]] = cp(values[ib])
                new.append(d)
        dicts = new
        # next level values: leaves + non-empty dicts just built
        # (*leaves* is expected to contain {} so that the empty dict stays a value)
        values = list(leaves) + [d for d in dicts if d]
    return dicts


def first_diff(model, got, path=()):
    """First difference between two nested dicts: (kind, path, model value, got value)."""
    for k in sorted(model, key=str):
        if k not in got:
            return ("missing", path + (k,), model[k], None)
    for k in sorted(got, key=str):
        if k not in model:
            return ("extra", path + (k,), None, got[k])
    for k in sorted(model, key=str):
        m, g = model[k], got[k]
        if m != g:
            if isd(m) and isd(g):
                return first_diff(m, g, path + (k,))
            return ("value", path + (k,), m, g)
    return None


def at(d, path):
    for k in path:
        if not isd(d) or k not in d:
            return KeyError
        d = d[k]
    return d


def rand_dict(rng, maxdepth, leaves=LEAVES8, keys=KEYS, p_dict=0.45):
    d = {}
    for k in keys:
        r = rng.random()
        if r < 0.2:
            continue
        if maxdepth > 1 and rng.random() < p_dict:
            d[k] = rand_dict(rng, maxdepth - 1, leaves, keys, p_dict)
        else:
            d[k] = cp(rng.choice(leaves))
    return d


def perturb(rng, d, maxdepth, leaves=LEAVES8, keys=KEYS):
    """A copy of d with 1..3 random local edits (to get overlapping pairs)."""
    d = cp(d)
    for _ in range(rng.randint(1, 3)):
        cur, dep = d, 1
        while True:
            k = rng.choice(keys)
            if isd(cur.get(k)) and rng.random() < 0.6:
                cur, dep = cur[k], dep + 1
                continue
            r = rng.random()
            if r < 0.25:
                cur.pop(k, None)
            elif r < 0.75 or dep >= maxdepth:
                cur[k] = cp(rng.choice(leaves))
            else:
                cur[k] = rand_dict(rng, maxdepth - dep, leaves, keys)
            break
    return d
