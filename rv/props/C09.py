"""C09 - accumulators yield the documented aggregate; reset() == fresh element.

Three reference-model monitors watch every execution of the real elements:

1. independent aggregate (exact rational arithmetic, fractions.Fraction):
   Count, Sum, DSum (exact), Mean, VarianceMeanCount (forward error bound),
   Vectorize (component-wise), StoreFilled / GroupBy (the filled values
   themselves, identity and order), Histogram (bisect model), Graph; the
   context must be the context of the last filled value extended only by the
   element's own keys.  The aggregate is checked after every prefix of the
   fill sequence (compute() must not disturb the running aggregate).
2. fresh twin: in a history fill* (compute|reset|fill)* a newly constructed
   element is started at every reset() and receives the same suffix; every
   later compute()/request() of the two must agree (values and contexts).
3. documented reset target: Sum/DSum/Count constructed with a start value are
   documented to reset to zero - after reset they must equal a default element.
"""
import bisect
import copy
import decimal
import itertools
from fractions import Fraction

from rv import gen

ID = "C09"
LEVEL = "exploration"
RULE = ("seeded random (element recipe, fill sequence 0..8, history <= 10 ops) over Count, Sum, "
        "DSum, Mean (plain / sum_seq Sum, DSum), VarianceMeanCount (Sum or DSum sums, "
        "corrected or not), Vectorize (dim or list; inner Sum/DSum/Mean/Count), StoreFilled, "
        "GroupBy, Histogram (1-d/2-d; default, initial_value, bins, make_bins), Graph, Zip of "
        "FillRequest, FillRequest adapter, FillRequestSeq; values: ints, big ints, floats of "
        "mixed magnitude 1e-300..1e300, cancellation sets, (data, context) pairs. "
        "Non-trivial: an aggregate case with >= 2 fills, or a history with a reset followed by "
        "at least one fill and one compute")
ASSUMPTIONS = [
    "reset histories use default start values (Sum.reset / Count.reset are documented to reset "
    "to zero); a start value is only used for the documented reset-to-zero oracle",
    "VarianceMeanCount is driven with |x| in [1e-100, 1e100] (squares neither overflow nor "
    "underflow); its result is compared within c*n*eps*(mean(x^2)+mean^2)*n/(n-1), c = 8",
    "Sum of floats is compared within (n+1)*2^-52*sum|x| of the exact sum (any summation "
    "order, including Python 3.12's compensated builtin, satisfies it); sums of ints exactly",
    "FillRequest is used with buffer_input only (buffer_output belongs to C16)",
    "elements without a reset attribute (SplitIntoBins) are outside the reset quantifier",
]
ANCHORS = [("lena/math/elements.py", 31, 510), ("lena/flow/elements.py", 10, 116),
           ("lena/flow/elements.py", 281, 323), ("lena/flow/group_by.py", 65, 122),
           ("lena/structures/histogram.py", 404, 463), ("lena/structures/graph.py", 502, 547)]
MUST_REACH = [
    "lena/math/elements.py:Sum.fill", "lena/math/elements.py:Sum.reset",
    "lena/math/elements.py:DSum.fill", "lena/math/elements.py:DSum.reset",
    "lena/math/elements.py:Mean.compute", "lena/math/elements.py:Mean.reset",
    "lena/math/elements.py:VarianceMeanCount.compute",
    "lena/math/elements.py:VarianceMeanCount._reset",
    "lena/math/elements.py:Vectorize.compute", "lena/math/elements.py:Vectorize._reset",
    "lena/flow/elements.py:Count.compute", "lena/flow/elements.py:Count.reset",
    "lena/flow/elements.py:StoreFilled.compute", "lena/flow/elements.py:StoreFilled.reset",
    "lena/flow/group_by.py:GroupBy.compute", "lena/flow/group_by.py:GroupBy.reset",
    "lena/structures/histogram.py:Histogram.compute",
    "lena/structures/histogram.py:Histogram.reset",
    "lena/structures/graph.py:Graph.compute", "lena/structures/graph.py:Graph.reset",
    "lena/flow/zip.py:Zip._reset", "lena/core/adapters.py:FillRequest.reset",
]
MUST_COUNT = ["aggregate_computes_checked", "twin_computes_compared", "dsum_exact_checks",
              "resets_executed"]
MIN_NONTRIVIAL = {"quick": 8000, "thorough": 200000}
NCASES = {"quick": (9000, 9000), "thorough": (250000, 250000)}
NBIG = {"quick": 200, "thorough": 6000}

LEVEL_TEXT = ("Seeded random exploration: every compute() of the real accumulators is compared "
              "with an independent aggregate in exact rational arithmetic (DSum exactly, "
              "VarianceMeanCount/Mean/float Sum within a derived forward-error bound) and, in "
              "reset histories, with a freshly constructed twin driven by the same suffix. "
              "Held on the K cases reported in the evidence; silent about fill sequences "
              "longer than 8, histories longer than 10 and user-defined inner accumulators.")
LEVEL_NOTE = ("Trusts fractions.Fraction, decimal->Fraction conversion, bisect and the element "
              "constructors for the twin (a defect common to a fresh and a reset element is "
              "only visible to oracle 1).")
TECHNIQUE = "reference-model monitors (Fraction aggregates, fresh-twin comparison) on random histories"

EPS = Fraction(1, 2 ** 52)
TINY = Fraction(1, 2 ** 1000)


# ------------------------------------------------------------------ values
def to_data(d):
    if isinstance(d, list):
        return tuple(to_data(x) for x in d)
    if isinstance(d, dict):
        # number types other than int / float
        if "Dec" in d:
            return decimal.Decimal(d["Dec"])
        return Fraction(d["Frac"][0], d["Frac"][1])
    return d


def mkval(vr):
    """value recipe {"d": data, "c": ctx|None} -> fresh value."""
    d = to_data(vr["d"])
    if vr.get("c") is None:
        return d
    return (d, copy.deepcopy(vr["c"]))


def ctx_of_recipe(vr):
    return copy.deepcopy(vr["c"]) if vr.get("c") is not None else {}


def rand_ctx(rng, i, scale=False, flat=False):
    c = {}
    if rng.random() < 0.8:
        c["i"] = i
    if rng.random() < 0.5:
        c["k"] = rng.randint(0, 2)
    if not flat and rng.random() < 0.35:
        c["n"] = {"k": rng.randint(0, 2), "l": [i, {"z": i}]}
    if scale:
        c["scale"] = 2
    return c


def rand_float(rng, lo_exp=-300, hi_exp=300):
    cls = rng.random()
    if cls < 0.25:
        return rng.choice([0.1, 0.2, 0.3, 1.0, -1.0, 0.5, 1e16, -1e16, 1.0000000000000002, 3.0,
                           1e-16, 0.0, -0.0, 2.5, 1e8, 1e-8])
    e = rng.randint(lo_exp, hi_exp)
    m = rng.uniform(1, 10) * rng.choice([1, -1])
    return float("%.17ge%d" % (m, e))


def rand_scalars(rng, n, mode):
    """mode: int | bigint | float | mixed | cancel | vmc"""
    out = []
    if mode == "int":
        return [rng.randint(-20, 50) for _ in range(n)]
    if mode == "bigint":
        return [rng.choice([1, -1]) * rng.randint(2 ** 52, 2 ** 75) if rng.random() < 0.6
                else rng.randint(-5, 5) for _ in range(n)]
    if mode == "float":
        return [rand_float(rng) for _ in range(n)]
    if mode == "mixed":
        return [rand_float(rng) if rng.random() < 0.6 else rng.randint(-10 ** 6, 10 ** 6)
                for _ in range(n)]
    if mode == "cancel":
        while len(out) < n:
            x = rand_float(rng)
            out.append(x)
            if len(out) < n and rng.random() < 0.7:
                out.append(rand_float(rng, -300, -200) if rng.random() < 0.5 else 1.0)
            if len(out) < n:
                out.append(-x)
        rng.shuffle(out)
        return out[:n]
    if mode == "decimal":
        return [{"Dec": rng.choice(["0.1", "0.2", "0.3", "1.25", "-7", "1E+3", "2.50", "0",
                                    "%d.%03d" % (rng.randint(-99, 99), rng.randint(0, 999))])}
                for _ in range(n)]
    if mode == "fraction":
        return [{"Frac": [rng.randint(-20, 20), rng.choice([1, 2, 3, 7, 10, 64])]}
                for _ in range(n)]
    if mode == "bool":
        return [rng.choice([True, False, True, 1, 0, 2]) for _ in range(n)]
    if mode == "vmc":
        kind = rng.random()
        if kind < 0.5:
            return [rng.randint(-30, 30) for _ in range(n)]
        if kind < 0.8:
            return [round(rng.uniform(-10, 10), 3) for _ in range(n)]
        e = rng.randint(-100, 99)
        return [(round(rng.uniform(-9, 9), 6) or 1.0) * 10.0 ** e for _ in range(n)]
    raise AssertionError(mode)


SCALAR_MODES = ["int", "int", "bigint", "float", "float", "mixed", "cancel"]


def data_domain(er):
    k = er[0]
    if k in ("count", "store"):
        return "any"
    if k == "groupby":
        return "groupby"
    if k in ("sum", "dsum", "mean"):
        return "scalar"
    if k == "vmc":
        return "vmc"
    if k == "vec":
        return ("vec", er[2], er[1])
    if k == "vecl":
        return ("vec", len(er[1]), er[1])
    if k == "vecnr":
        return ("vec", er[1], ["sum", 0])
    if k == "hist":
        return ("hist", er[1])
    if k == "graph":
        return "graph"
    if k in ("fr", "frseq"):
        return data_domain(er[1])
    if k == "zipfr":
        return "scalar"
    raise AssertionError(er)


def rand_values(rng, er, n, histories=False):
    """n value recipes for element recipe *er*."""
    dom = data_domain(er)
    with_ctx = rng.choice(["none", "all", "some", "some"])
    scale = (er[0] == "graph" and histories and rng.random() < 0.25)
    if dom == "scalar":
        modes = list(SCALAR_MODES)
        if (er[0] == "sum" and not er[1]) or (er[0] == "mean" and er[1] != "dsum"):
            # "Python's sum" / "sum/count" hold for every number type Python can add
            modes += ["decimal", "fraction", "bool"]
        datas = rand_scalars(rng, n, rng.choice(modes))
    elif dom == "vmc":
        datas = rand_scalars(rng, n, "vmc")
    elif dom == "any":
        datas = [rng.choice([rng.randint(-3, 9), rand_float(rng), [1, 2], "s", None])
                 for _ in range(n)]
    elif dom == "groupby":
        datas = [rng.randint(-3, 9) for _ in range(n)]
    elif dom == "graph":
        style = rng.choice(["xy", "tuples"])
        if style == "xy":
            datas = [[rng.randint(-5, 5), rng.randint(-5, 5)] for _ in range(n)]
        else:
            datas = [[[rng.randint(-5, 5), rng.randint(0, 3)], [rng.randint(-5, 5)]]
                     for _ in range(n)]
    elif dom[0] == "vec":
        inner = dom[2]
        mode = "vmc" if (isinstance(inner[0], str) and inner[0] == "vmc") else \
            rng.choice(["int", "float", "mixed", "bigint"])
        cols = [rand_scalars(rng, n, mode) for _ in range(dom[1])]
        datas = [[cols[j][i] for j in range(dom[1])] for i in range(n)]
    elif dom[0] == "hist":
        def coord():
            return rng.choice([rng.randint(-2, 7), round(rng.uniform(-1.5, 6.5), 2),
                               0, 1, 2.5, 4, 6, 6.0])
        if dom[1] in ("1dgeo", "1ddec"):
            # strongly non-uniform meshes; values on edges, just beside them and in between
            edges = HIST_EDGES[dom[1]]

            def gcoord():
                e = rng.choice(edges)
                return rng.choice([e, e, e * (1 + 2 ** -40), e * (1 - 2 ** -40), e * 1.5,
                                   rng.uniform(edges[0] / 2, edges[-1] * 1.1)])
            datas = [gcoord() for _ in range(n)]
        elif dom[1] == "1d":
            datas = [coord() for _ in range(n)]
        else:
            datas = [[coord(), coord()] for _ in range(n)]
    else:
        raise AssertionError(dom)
    out = []
    for i, d in enumerate(datas):
        c = None
        if dom == "groupby":
            gb = er[1]
            if gb in ("k", "n.k", "cuts") or with_ctx != "none":
                c = {"i": i, "k": rng.randint(0, 2), "n": {"k": rng.randint(0, 1)}}
                if gb == "cuts" or rng.random() < 0.4:
                    # a list of dictionaries; equal ones are written with their keys in
                    # different orders
                    cut = [("variable", "e"), ("min", rng.randint(0, 1)), ("unit", "MeV")]
                    rng.shuffle(cut)
                    c["cuts"] = [dict(cut)]
                    if rng.random() < 0.4:
                        second = [("variable", "t"), ("max", 5)]
                        rng.shuffle(second)
                        c["cuts"].append([dict(second), rng.randint(0, 1)])
        elif with_ctx == "all" or (with_ctx == "some" and rng.random() < 0.6):
            c = rand_ctx(rng, i, scale=scale and rng.random() < 0.7)
        out.append({"d": d, "c": c})
    return out


# ------------------------------------------------------------------ element recipes
HIST_EDGES = {"1d": [0, 1, 2.5, 4, 6], "2d": [[0, 1, 2.5, 4], [0, 2, 6]],
              "1dgeo": [2 ** i for i in range(17)],
              "1ddec": [10.0 ** i for i in range(-6, 7)]}


def hist_initial(edges_kind, variant):
    """Initial bins of the model for a Histogram variant."""
    if edges_kind.startswith("1d"):
        shape = [len(HIST_EDGES[edges_kind]) - 1]
    else:
        shape = [3, 2]
    if variant == "default":
        fillv = lambda idx: 0
    elif variant == "initial_value":
        fillv = lambda idx: 5
    else:   # bins / make_bins : distinct initial content
        fillv = lambda idx: 10 * (idx[0] + 1) + (idx[1] if len(idx) > 1 else 0)
    if len(shape) == 1:
        return [fillv((i,)) for i in range(shape[0])]
    return [[fillv((i, j)) for j in range(shape[1])] for i in range(shape[0])]


def _make_bins_1d():
    return hist_initial("1d", "make_bins")


def _make_bins_2d():
    return hist_initial("2d", "make_bins")


_FRACSUM = []


def frac_sum_class():
    import lena.flow
    import lena.math
    if not _FRACSUM:
        class FracSum(lena.math.Sum):
            """Exact summation: every filled number is added as a Fraction."""

            def fill(self, value):
                data, context = lena.flow.get_data_context(value)
                self._total = Fraction(self._total) + Fraction(data)
                self._cur_context = context
        _FRACSUM.append(FracSum)
    return _FRACSUM[0]


def build(er, default_start=False):
    """Fresh real element from recipe. *default_start*: drop Sum/DSum/Count start values."""
    import lena.core
    import lena.flow
    import lena.math
    import lena.structures
    k = er[0]
    if k == "count":
        if default_start:
            return lena.flow.Count(er[1])
        return lena.flow.Count(er[1], er[2]) if er[2] else lena.flow.Count(er[1])
    if k == "sum":
        return lena.math.Sum(er[1]) if (er[1] and not default_start) else lena.math.Sum()
    if k == "dsum":
        return lena.math.DSum(er[1]) if (er[1] and not default_start) else lena.math.DSum()
    if k == "mean":
        ss = {None: None, "sum": lena.math.Sum, "dsum": lena.math.DSum}[er[1]]
        if ss is None:
            return lena.math.Mean(pass_on_empty=er[2]) if er[2] else lena.math.Mean()
        return lena.math.Mean(ss(), pass_on_empty=er[2])
    if k == "vmc":
        kw = {}
        if er[1] == "dsum":
            kw["sum_sq"] = lena.math.DSum()
            kw["sum_"] = lena.math.DSum()
        elif er[1] == "sum":
            kw["sum_sq"] = lena.math.Sum()
            kw["sum_"] = lena.math.Sum()
        elif er[1] == "fracsum":
            # a user's subclass of Sum that sums exactly (in Fractions)
            kw["sum_sq"] = frac_sum_class()()
            kw["sum_"] = frac_sum_class()()
        if not er[2]:
            kw["corrected"] = False
        if er[3]:
            kw["pass_on_empty"] = True
        return lena.math.VarianceMeanCount(**kw)
    if k == "vec":
        return lena.math.Vectorize(build(er[1]), dim=er[2])
    if k == "vecl":
        return lena.math.Vectorize([build(e) for e in er[1]])
    if k == "vecnr":
        # inner accumulator without a reset method (FillCompute adapter)
        return lena.math.Vectorize(lena.core.FillCompute(lena.math.Sum()), dim=er[1])
    if k == "storeflat":
        return lena.flow.StoreFilled(yield_as_a_group=False)
    if k == "store":
        return lena.flow.StoreFilled(yield_as_a_group=True) if er[1] else \
            lena.flow.StoreFilled(yield_as_a_group=False)
    if k == "groupby":
        gb, merge = er[1], er[2]
        if gb == "" and merge == "":
            return lena.flow.GroupBy()
        if merge:
            return lena.flow.GroupBy(merge=merge)
        return lena.flow.GroupBy(gb)
    if k == "hist":
        edges = copy.deepcopy(HIST_EDGES[er[1]])
        v = er[2]
        if v == "default":
            return lena.structures.Histogram(edges)
        if v == "initial_value":
            return lena.structures.Histogram(edges, initial_value=5)
        if v == "bins":
            return lena.structures.Histogram(edges, bins=hist_initial(er[1], "bins"))
        if v == "make_bins":
            return lena.structures.Histogram(
                edges, make_bins=(lambda kind=er[1]: hist_initial(kind, "make_bins"))
                if er[1].startswith("1d") else _make_bins_2d)
        raise AssertionError(er)
    if k == "graph":
        return lena.structures.Graph(sort=True) if er[1] else lena.structures.Graph(sort=False)
    if k == "fr":
        return lena.core.FillRequest(build(er[1]), bufsize=er[2], reset=bool(er[3]),
                                     buffer_input=True)
    if k == "frseq":
        return lena.core.FillRequestSeq(
            lena.core.FillRequest(build(er[1]), bufsize=1, reset=False, buffer_input=True),
            bufsize=er[2], reset=bool(er[3]), buffer_input=True)
    if k == "zipfr":
        return lena.flow.Zip([
            lena.core.FillRequest(build(e), bufsize=er[2], reset=bool(er[3]), buffer_input=True)
            for e in er[1]])
    raise AssertionError(er)


def label(er):
    k = er[0]
    if k == "hist":
        return "Histogram(%s)" % er[2]
    if k == "mean":
        return "Mean" if er[1] is None else "Mean(%s)" % er[1]
    if k == "vmc":
        return "VarianceMeanCount" if er[1] is None else "VarianceMeanCount(%s)" % er[1]
    if k in ("vec", "vecl", "vecnr"):
        return "Vectorize"
    if k == "fr":
        return "FillRequest"
    if k == "frseq":
        return "FillRequestSeq"
    if k == "zipfr":
        return "Zip(FillRequest)"
    return {"count": "Count", "sum": "Sum", "dsum": "DSum", "store": "StoreFilled",
            "groupby": "GroupBy", "graph": "Graph"}[k]


def rand_inner(rng):
    # "storeflat": a component that yields several results per compute() (one per value)
    return rng.choice([["sum", 0], ["dsum", 0], ["mean", None, True], ["count", "count", 0],
                       ["mean", "dsum", True], ["storeflat"]])


def rand_elem(rng, for_history=False):
    k = rng.choice(["count", "sum", "dsum", "dsum", "mean", "mean", "vmc", "vmc", "vec", "vecl",
                    "store", "groupby", "hist", "hist", "graph"] +
                   (["fr", "frseq", "zipfr"] if for_history else []))
    start = (not for_history) and rng.random() < 0.4
    if k == "count":
        return ["count", rng.choice(["count", "n", "ev.sel"]), rng.choice([3, 7]) if start else 0]
    if k == "sum":
        return ["sum", rng.choice([3, -2, 2.5]) if start else 0]
    if k == "dsum":
        return ["dsum", rng.choice([3, -2, 2.5]) if start else 0]
    if k == "mean":
        return ["mean", rng.choice([None, None, "sum", "dsum"]), rng.random() < 0.4]
    if k == "vmc":
        return ["vmc", rng.choice([None, None, "sum", "dsum", "fracsum"]), rng.random() < 0.6,
                rng.random() < 0.4]
    if k == "vec":
        return ["vec", rand_inner(rng), rng.randint(1, 3)]
    if k == "vecl":
        return ["vecl", [rand_inner(rng) for _ in range(rng.randint(1, 3))]]
    if k == "store":
        return ["store", rng.random() < 0.5]
    if k == "groupby":
        return rng.choice([["groupby", "", ""], ["groupby", "k", ""], ["groupby", "n.k", ""],
                           ["groupby", "", "i"], ["groupby", "", "i"], ["groupby", "cuts", ""]])
    if k == "hist":
        return ["hist", rng.choice(["1d", "1d", "2d", "1dgeo", "1ddec"]),
                rng.choice(["default", "default", "initial_value", "bins", "make_bins"])]
    if k == "graph":
        return ["graph", rng.random() < 0.6]
    if k == "fr":
        return ["fr", rng.choice([["sum", 0], ["count", "count", 0], ["store", True],
                                  ["mean", None, True]]),
                rng.randint(1, 3), rng.random() < 0.5]
    if k == "frseq":
        return ["frseq", rng.choice([["sum", 0], ["count", "count", 0]]), rng.randint(1, 2),
                rng.random() < 0.5]
    if k == "zipfr":
        return ["zipfr", [rng.choice([["sum", 0], ["count", "count", 0], ["dsum", 0]])
                          for _ in range(rng.randint(1, 3))], rng.randint(1, 2),
                rng.random() < 0.5]
    raise AssertionError(k)


def cases(tier, seed):
    nagg, nhist = NCASES[tier]
    for c in corner_cases():
        yield c
    for i in range(max(nagg, nhist)):
        if i < nagg:
            rng = gen.rng_for(seed, "C09", "agg", i)
            er = rand_elem(rng)
            n = rng.choice([0, 1, 2, 3, 4, 5, 6, 7, 8])
            yield {"k": "agg", "el": er, "vals": rand_values(rng, er, n)}
        if i < nhist:
            rng = gen.rng_for(seed, "C09", "hist", i)
            er = rand_elem(rng, for_history=True)
            nops = rng.randint(2, 10)
            kinds = [rng.choice(["f", "f", "f", "c", "r"]) for _ in range(nops)]
            if "r" not in kinds:
                kinds[rng.randrange(nops)] = "r"
            if rng.random() < 0.7:
                kinds.append("c")
            nf = kinds.count("f")
            vals = rand_values(rng, er, nf, histories=True)
            ops, vi = [], 0
            for kd in kinds:
                if kd == "f":
                    ops.append(["f", vals[vi]])
                    vi += 1
                else:
                    ops.append([kd])
            rec = {"k": "history", "el": er, "ops": ops}
            if rng.random() < 0.3:
                rec["dup"] = 1
            yield rec
    # beyond the small sizes: 17..600 filled values, histories of 20..120 operations
    for i in range(NBIG[tier]):
        rng = gen.rng_for(seed, "C09", "big", i)
        if i % 2 == 0:
            er = rand_elem(rng)
            n = rng.choice([17, 33, 64, 65, 100, 129, 257, 600, rng.randint(17, 600)])
            if "store" in repr(er) or er[0] == "groupby":
                n = min(n, 70)      # (their results are the values: the comparison is quadratic)
            yield {"k": "agg", "el": er, "vals": rand_values(rng, er, n), "big": 1}
        else:
            er = rand_elem(rng, for_history=True)
            nops = rng.randint(20, 120)
            kinds = [rng.choice(["f", "f", "f", "f", "f", "c", "r"]) for _ in range(nops)]
            kinds.append("c")
            vals = rand_values(rng, er, kinds.count("f"), histories=True)
            ops, vi = [], 0
            for kd in kinds:
                if kd == "f":
                    ops.append(["f", vals[vi]])
                    vi += 1
                else:
                    ops.append([kd])
            yield {"k": "history", "el": er, "ops": ops, "big": 1}
    # documented reset target: start values reset to zero (finite table x seeded values)
    nz = 120 if tier == "quick" else 3000
    for i in range(nz):
        rng = gen.rng_for(seed, "C09", "zero", i)
        er = rng.choice([["sum", 3], ["sum", 2.5], ["dsum", 3], ["dsum", 2.5],
                         ["count", "count", 4], ["count", "n", 7]])
        yield {"k": "reset_zero", "el": er,
               "before": rand_values(rng, er, rng.randint(0, 3)),
               "after": rand_values(rng, er, rng.randint(0, 4))}


def corner_cases():
    """Enumerated corner table (independent of the seed)."""
    for dim in (1, 2, 3):
        yield {"k": "agg", "el": ["vecnr", dim],
               "vals": [{"d": [i + j for j in range(dim)], "c": None} for i in range(3)]}
    for variant in ["default", "initial_value", "bins", "make_bins"]:
        for ek in ["1d", "2d"]:
            d = 1 if ek == "1d" else [1, 3]
            yield {"k": "history", "el": ["hist", ek, variant],
                   "ops": [["f", {"d": d, "c": {"a": 1}}], ["c"], ["r"], ["c"],
                           ["f", {"d": d, "c": None}], ["c"]]}
    for sort in (True, False):
        yield {"k": "history", "el": ["graph", sort],
               "ops": [["f", {"d": [1, 2], "c": {"scale": 2, "a": 1}}], ["c"], ["r"], ["c"],
                       ["f", {"d": [0, 5], "c": None}], ["c"]]}
    hostile = [
        [1e300, 1.0, -1e300], [1e16, 1.0, -1e16], [0.1] * 8, [1e-300, 1e300, -1e300],
        [5e-324, 5e-324, 1.0], [1.7976931348623157e308, -1.7976931348623157e308, 2.0 ** -1074],
        [2.0 ** 53, 1.0, 1.0, -2.0 ** 53], [1e-320, 3, 2 ** 80, -2 ** 80, 0.5],
        [-0.0, 0.0], [0.1, 0.2, -0.3], [1e200, 1e-200, -1e200, -1e-200],
    ]
    for xs in hostile:
        for el in (["dsum", 0], ["sum", 0], ["mean", "dsum", False], ["mean", None, False]):
            yield {"k": "agg", "el": el, "vals": [{"d": x, "c": None} for x in xs]}


# ------------------------------------------------------------------ snapshots
def snap(v):
    """Comparable, printable snapshot of an output value (real vs twin)."""
    import lena.structures
    if isinstance(v, tuple):
        return ["T:" + type(v).__name__] + [snap(x) for x in v]
    if isinstance(v, list):
        return ["L"] + [snap(x) for x in v]
    if isinstance(v, dict):
        return {str(k): snap(x) for k, x in sorted(v.items(), key=lambda kv: str(kv[0]))}
    if isinstance(v, bool) or v is None or isinstance(v, (int, str)):
        return v
    if isinstance(v, float):
        return ["F", repr(v)]
    if isinstance(v, decimal.Decimal):
        # numeric value only: the exponent/precision of a Decimal is representation
        return ["Dec", str(Fraction(v)) if v.is_finite() else str(v)]
    if isinstance(v, lena.structures.histogram):
        return ["histogram", snap(v.edges), snap(v.bins), snap(v.n_out_of_range)]
    if isinstance(v, lena.structures.Graph):
        try:
            pts = list(v.points)
        except Exception as e:  # pylint: disable=broad-except
            pts = "points raised %r" % (e,)
        return ["Graph", snap(pts), snap(v._scale), snap(v._sort)]
    return ["R", repr(v)]


def outcome(thunk, hostile=False):
    """('ok', outputs, snapshot) or ('exc', exception, name).  *hostile*: a streaming consumer
    that keeps a deep copy of every result as received and then changes the received context
    in place at every level before asking for the next result (what a downstream
    UpdateContext / MakeFilename / Variable does); the copies are what is judged."""
    try:
        if hostile:
            outs = []
            for o in thunk():
                outs.append(copy.deepcopy(o))
                if gen.has_ctx(o):
                    _poison(o[1])
        else:
            outs = list(thunk())
    except Exception as e:  # pylint: disable=broad-except
        return ("exc", e, type(e).__name__)
    snaps = [snap(o) for o in outs]
    # a downstream element asks every yielded histogram for its scale (ScaleTo, plotting):
    # the integral of what the histogram holds now
    import lena.structures
    for o in outs:
        h = gen.data_of(o)
        if isinstance(h, lena.structures.histogram):
            try:
                snaps.append(["scale", snap(h.scale())])
            except Exception as e:  # pylint: disable=broad-except
                snaps.append(["scale-raises", type(e).__name__])
    return ("ok", outs, snaps)


def _poison(ctx):
    from rv.monitors import identity
    for o in list(identity.mutable_ids(ctx).values()):
        if isinstance(o, dict):
            o["__changed_downstream__"] = 1
        elif isinstance(o, list):
            o.append("__changed_downstream__")


def yields_filled_values(er):
    """StoreFilled / GroupBy (also inside FillRequest): the results ARE the filled values, a
    consumer changing them would change the input of the next expectation."""
    if er[0] in ("store", "groupby"):
        return True
    if er[0] in ("fr", "frseq"):
        return yields_filled_values(er[1])
    return False


def results_method(el):
    req = getattr(el, "request", None)
    if callable(req) and not callable(getattr(el, "compute", None)):
        return req
    return el.compute


# ------------------------------------------------------------------ oracle 1
def split_out(out):
    if gen.has_ctx(out):
        return out[0], out[1], True
    return out, {}, False


def is_num(x):
    return isinstance(x, (int, float)) and not isinstance(x, bool)


def F(x):
    if isinstance(x, decimal.Decimal):
        return Fraction(x)
    return Fraction(x)


def finite(x):
    if isinstance(x, float):
        return x == x and x not in (float("inf"), float("-inf"))
    if isinstance(x, decimal.Decimal):
        return x.is_finite()
    return isinstance(x, (int, Fraction))


class Expect(object):
    """Expected result of compute(): either an exception name, or a list of per-output
    checkers; each checker returns None or a (mech-suffix, message) pair."""

    def __init__(self, exc=None, outs=None):
        self.exc = exc
        self.outs = outs


def m_with_ctx(data_check, ctx):
    """Output must be (data, ctx); bare data (or a pair with an empty context) if ctx is
    empty ("if the current context is not empty, yield (sum, context), otherwise only sum")."""
    def chk(out):
        if ctx:
            if not gen.has_ctx(out):
                return ("context", "no context yielded (%r), expected the last filled "
                        "context %r" % (out, ctx))
            if out[1] != ctx:
                return ("context", "context %r, expected the last filled context %r"
                        % (out[1], ctx))
            return data_check(out[0])
        if gen.has_ctx(out):
            if out[1]:
                return ("context", "context %r, but the last filled value had none" % (out[1],))
            return data_check(out[0])
        return data_check(out)
    return chk


def d_exact(x, check_type=True):
    def chk(d):
        if type(d) is bool or d != x or (check_type and type(d) is not type(x)):
            return ("value", "got %r, expected exactly %r" % (d, x))
        return None
    return chk


def d_frac_exact(x):
    def chk(d):
        if not finite(d) or isinstance(d, bool) or F(d) != x:
            return ("inexact", "got %r, exact value is %s" % (d, x))
        return None
    return chk


def d_approx(x, bound):
    def chk(d):
        if not isinstance(d, (int, float, decimal.Decimal)) or isinstance(d, bool) \
                or not finite(d):
            return ("value", "got %r, expected about %s" % (d, float(x)))
        if abs(F(d) - x) > bound:
            return ("value", "got %r, exact %r, |diff| %.3e exceeds the bound %.3e"
                    % (d, float(x), float(abs(F(d) - x)), float(bound)))
        return None
    return chk


def sum_check(xs, start):
    """Checker for an ordinary (Python) sum of xs starting from start."""
    allint = all(isinstance(x, int) for x in xs) and isinstance(start, int)
    exact = sum((Fraction(x) for x in xs), Fraction(start))
    if allint:
        # bools are ints: Python's sum of them is an int
        return d_exact(int(exact))
    if all(isinstance(x, (int, Fraction)) for x in list(xs) + [start]) or \
            all(isinstance(x, (int, decimal.Decimal)) for x in list(xs) + [start]):
        # exact number types: Python's sum is exact (Decimal: within the default 28 digits)
        def chk(d):
            if isinstance(d, bool) or not isinstance(d, (int, Fraction, decimal.Decimal)) \
                    or Fraction(d) != exact:
                return ("value", "got %r, the exact sum is %s" % (d, exact))
            return None
        return chk
    mag = sum((abs(Fraction(x)) for x in xs), abs(Fraction(start)))
    return d_approx(exact, (len(xs) + 1) * EPS * mag + TINY)


def mean_check(xs, via):
    n = len(xs)
    exact = sum((Fraction(x) for x in xs), Fraction(0)) / n
    mag = sum((abs(Fraction(x)) for x in xs), Fraction(0))
    bound = (n + 4) * EPS * mag / n + Fraction(1, 2 ** 1070)
    base = d_approx(exact, bound)

    def chk(d):
        if not isinstance(d, float):
            return ("value", "mean %r is not a float" % (d,))
        return base(d)
    return chk


def last_ctx(vals):
    return ctx_of_recipe(vals[-1]) if vals else {}


def datas(vals):
    return [to_data(v["d"]) for v in vals]


def expect(er, vals, values=None):
    """Independent expectation for compute() of a fresh *er* filled with *vals*.
    *values*: the real filled objects (identity oracle of StoreFilled / GroupBy)."""
    k = er[0]
    ctx = last_ctx(vals)
    xs = datas(vals)
    n = len(xs)
    if k == "count":
        tot = n + er[2]
        exp_ctx = dict(ctx)
        exp_ctx[er[1]] = tot

        def chk(out):
            if not gen.has_ctx(out):
                return ("shape", "Count must yield a (count, context) pair, got %r" % (out,))
            if out[0] != tot or type(out[0]) is not int:
                return ("value", "count %r, expected %r" % (out[0], tot))
            if out[1] != exp_ctx:
                return ("context", "context %r, expected %r" % (out[1], exp_ctx))
            return None
        return Expect(outs=[chk])
    if k == "sum":
        return Expect(outs=[m_with_ctx(sum_check(xs, er[1]), ctx)])
    if k == "dsum":
        exact = sum((Fraction(x) for x in xs), Fraction(er[1]))
        return Expect(outs=[m_with_ctx(d_frac_exact(exact), ctx)])
    if k == "mean":
        if n == 0:
            return Expect(outs=[]) if er[2] else Expect(exc="LenaZeroDivisionError")
        return Expect(outs=[m_with_ctx(mean_check(xs, er[1]), ctx)])
    if k == "vmc":
        if n == 0:
            return Expect(outs=[]) if er[3] else Expect(exc="LenaZeroDivisionError")
        corrected = er[2]
        if corrected and n == 1:
            return Expect(exc="LenaZeroDivisionError")
        fx = [Fraction(x) for x in xs]
        mean = sum(fx) / n
        msq = sum(x * x for x in fx) / n
        var = msq - mean * mean
        scale = Fraction(n, n - 1) if corrected else Fraction(1)
        var_b = 8 * (n + 2) * EPS * (msq + mean * mean) * scale + TINY
        mean_b = (n + 4) * EPS * sum(abs(x) for x in fx) / n + TINY
        cv, cm = d_approx(var * scale, var_b), d_approx(mean, mean_b)
        if er[1] == "fracsum":
            # exact sums were supplied: the results are exact (of the squares as the element
            # forms them, data**2 in the type of the data)
            msq_e = sum(Fraction(x ** 2) for x in xs) / n
            cv, cm = d_frac_exact((msq_e - mean * mean) * scale), d_frac_exact(mean)

        def dchk(d):
            if not (isinstance(d, tuple) and type(d).__name__ == "variance_mean_count"
                    and len(d) == 3):
                return ("shape", "expected a variance_mean_count, got %r" % (d,))
            r = cv(d[0])
            if r:
                return ("variance", r[1])
            r = cm(d[1])
            if r:
                return ("mean", r[1])
            if d[2] != n:
                return ("count", "count %r, expected %d" % (d[2], n))
            return None
        return Expect(outs=[m_with_ctx(dchk, ctx)])
    if k in ("vec", "vecl", "vecnr"):
        if k == "vec":
            inners = [er[1]] * er[2]
        elif k == "vecl":
            inners = er[1]
        else:
            inners = [["sum", 0]] * er[1]
        comps = []
        for j, ir in enumerate(inners):
            col = [{"d": v["d"][j], "c": None} for v in vals]
            e = expect(ir, col)
            if e.exc:
                return Expect(exc=e.exc)
            comps.append(e.outs)
        nout = max(len(c) for c in comps)
        outs = []
        for oi in range(nout):
            def dchk(d, oi=oi):
                if not isinstance(d, tuple) or len(d) != len(comps):
                    return ("shape", "expected a %d-tuple, got %r" % (len(comps), d))
                for j, c in enumerate(comps):
                    if oi < len(c):
                        r = c[oi](d[j])
                        if r:
                            return (r[0], "component %d: %s" % (j, r[1]))
                    elif d[j] is not None:
                        return ("padding", "component %d: %r, expected None" % (j, d[j]))
                return None
            outs.append(m_with_ctx(dchk, ctx))
        return Expect(outs=outs)
    if k == "storeflat":
        # only as a component of Vectorize (bare data): every filled datum, in order
        return Expect(outs=[(lambda d, x=x: None if (d == x and type(d) is type(x)) else
                             ("value", "got %r, expected the filled datum %r" % (d, x)))
                            for x in xs])
    if k == "store":
        if er[1]:
            def chk(out):
                if not isinstance(out, list) or len(out) != len(values) or \
                        not all(a is b for a, b in zip(out, values)):
                    return ("value", "group %r is not the list of the filled values %r"
                            % (out, values))
                return None
            return Expect(outs=[chk])
        return Expect(outs=[(lambda out, v=v: None if out is v else
                             ("value", "yielded %r, expected the filled value %r" % (out, v)))
                            for v in values])
    if k == "groupby":
        gb, merge = er[1], er[2]
        keys, groups = [], []
        for vr, v in zip(vals, values):
            c = ctx_of_recipe(vr)
            if gb == "" and merge == "":
                key = ()
            elif merge:
                key = gen.freeze({a: b for a, b in c.items() if a != merge})
            elif gb == "k":
                key = c["k"]
            elif gb == "cuts":
                key = gen.freeze(c["cuts"])
            else:
                key = c["n"]["k"]
            key = repr(key)
            if key in keys:
                groups[keys.index(key)].append(v)
            else:
                keys.append(key)
                groups.append([v])
        return Expect(outs=[
            (lambda out, g=g: None if (isinstance(out, (list, tuple)) and len(out) == len(g) and
                                       all(a is b for a, b in zip(out, g)))
             else ("value", "group %r, expected the filled values %r" % (out, g)))
            for g in groups])
    if k == "hist":
        edges = HIST_EDGES[er[1]]
        bins = hist_initial(er[1], er[2])
        oor = 0
        for x in xs:
            if er[1].startswith("1d"):
                i = bisect.bisect_right(edges, x) - 1
                if 0 <= i < len(bins):
                    bins[i] += 1
                else:
                    oor += 1
            else:
                i = bisect.bisect_right(edges[0], x[0]) - 1
                j = bisect.bisect_right(edges[1], x[1]) - 1
                if 0 <= i < len(bins) and 0 <= j < len(bins[0]):
                    bins[i][j] += 1
                else:
                    oor += 1

        def chk(out):
            import lena.structures
            if not gen.has_ctx(out):
                return ("shape", "Histogram must yield (histogram, context), got %r" % (out,))
            h, c = out
            if not isinstance(h, lena.structures.histogram):
                return ("shape", "data %r is not a histogram" % (h,))
            if h.bins != bins:
                return ("bins", "bins %r, the model gives %r" % (h.bins, bins))
            if h.edges != edges:
                return ("edges", "edges %r, expected %r" % (h.edges, edges))
            if h.n_out_of_range != oor:
                return ("n_out_of_range", "n_out_of_range %r, expected %r"
                        % (h.n_out_of_range, oor))
            if c != ctx:
                return ("context", "context %r, expected %r" % (c, ctx))
            return None
        return Expect(outs=[chk])
    if k == "graph":
        pts = sorted(xs) if er[1] else list(xs)
        own = ("scale", "dim")
        base = {a: b for a, b in ctx.items() if a not in own}

        def chk(out):
            import lena.structures
            if not gen.has_ctx(out):
                return ("shape", "Graph must yield (graph, context), got %r" % (out,))
            g, c = out
            if not isinstance(g, lena.structures.Graph):
                return ("shape", "data %r is not a Graph" % (g,))
            if list(g.points) != pts:
                return ("value", "points %r, expected %r" % (g.points, pts))
            if {a: b for a, b in c.items() if a not in own} != base:
                return ("context", "context %r, expected %r plus the Graph's own keys "
                        "scale/dim" % (c, base))
            if "scale" in ctx and c.get("scale") != ctx["scale"]:
                return ("context", "context.scale %r, filled %r" % (c.get("scale"), ctx["scale"]))
            return None
        return Expect(outs=[chk])
    raise AssertionError(er)


def check_against(er, vals, values, res, obs, when):
    """Compare outcome *res* of the real compute() with the independent expectation."""
    lab = label(er)
    exp = expect(er, vals, values)
    obs.count("aggregate_computes_checked")
    if er[0] == "dsum":
        obs.count("dsum_exact_checks")
    if exp.exc is not None:
        if res[0] == "exc":
            obs.check(res[2] == exp.exc, "aggregate-wrong-exception:" + lab,
                      "%s after %d fills (%s) raised %r, documented %s"
                      % (lab, len(vals), when, res[1], exp.exc))
        else:
            obs.fail("aggregate-missing-exception:" + lab,
                     "%s after %d fills (%s) yielded %r, documented to raise %s"
                     % (lab, len(vals), when, res[2], exp.exc))
        return
    if res[0] == "exc":
        obs.fail("aggregate-compute-raises:%s:%s" % (lab, res[2]),
                 "%s.compute() after filling %r (%s) raised %r"
                 % (lab, [v["d"] for v in vals], when, res[1]))
        return
    outs = res[1]
    if not obs.check(len(outs) == len(exp.outs), "aggregate-output-count:" + lab,
                     "%s yielded %d values %r, expected %d (filled %r, %s)"
                     % (lab, len(outs), res[2], len(exp.outs), [v["d"] for v in vals], when)):
        return
    for out, chk in zip(outs, exp.outs):
        r = chk(out)
        obs.check(r is None, "aggregate-%s:%s" % (r[0] if r else "", lab),
                  "%s filled with %r (%s): %s" % (lab, vals, when, r[1] if r else ""))


# ------------------------------------------------------------------ run
def touch_public_state(el, er):
    """What a user may do with the documented public attributes between fills and compute
    without changing the element: read GroupBy.groups (also a key that is not there)."""
    if er[0] == "groupby" and hasattr(el, "groups"):
        try:
            el.groups["__no_such_group__"]
        except KeyError:
            pass
        len(el.groups)
        "x" in el.groups


def run_agg(r, obs):
    er, vals = r["el"], r["vals"]
    lab = label(er)
    if len(vals) >= 2:
        obs.nontrivial = True
    try:
        el = build(er)
        el2 = build(er)
    except Exception as e:  # pylint: disable=broad-except
        obs.fail("construction-raises:%s:%s%s" % (lab, type(e).__name__,
                                                  ":no-reset-inner" if er[0] == "vecnr" else ""),
                 "constructing %s from %r raised %r" % (lab, er, e))
        return
    obs.count("elements_built", 2)
    # (a) incremental: after every prefix
    values = []
    hostile = not yields_filled_values(er)
    res = outcome(results_method(el), hostile)
    check_against(er, [], [], res, obs, "incremental, before any fill")
    for i, vr in enumerate(vals):
        v = mkval(vr)
        values.append(v)
        try:
            el.fill(v)
        except Exception as e:  # pylint: disable=broad-except
            obs.fail("fill-raises:%s:%s" % (lab, type(e).__name__),
                     "%s.fill(%r) raised %r" % (lab, vr, e))
            return
        obs.count("fills")
        res = outcome(results_method(el), hostile)
        if hostile:
            obs.count("computes_consumed_by_a_context_changing_consumer")
        check_against(er, vals[:i + 1], values, res, obs, "incremental")
    # (b) pure: all fills, then one compute
    values = [mkval(vr) for vr in vals]
    for v in values:
        el2.fill(v)
    touch_public_state(el2, er)
    res = outcome(results_method(el2), hostile)
    check_against(er, vals, values, res, obs, "single compute")


def run_history(r, obs):
    er, ops = r["el"], r["ops"]
    lab = label(er)
    real = build(er)
    keep_alive = None
    if r.get("dup"):
        # the element under test is a deep copy (SplitIntoBins, MapBins, Vectorize and Split
        # copy their sequences); the original stays alive beside it
        keep_alive = real
        real = copy.deepcopy(real)
        obs.count("histories_on_a_deep_copied_element")
    twin = None
    has_scale = any(op[0] == "f" and op[1].get("c") and "scale" in op[1]["c"] for op in ops)
    fills_after = computes_after = 0
    for oi, op in enumerate(ops):
        if op[0] == "f":
            for el in (real, twin):
                if el is not None:
                    el.fill(mkval(op[1]))
            obs.count("fills")
            if twin is not None:
                fills_after += 1
        elif op[0] == "c":
            res = outcome(results_method(real))
            obs.count("computes")
            if twin is not None:
                res2 = outcome(results_method(twin))
                computes_after += 1
                obs.count("twin_computes_compared")
                same = (res[0] == res2[0] and res[2] == res2[2])
                variant = ":ctx-scale" if (er[0] == "graph" and has_scale) else ""
                if not same:
                    if res[0] == "exc" and res2[0] == "ok":
                        mech = "reset-not-fresh:%s%s:compute-raises-%s" % (lab, variant, res[2])
                    else:
                        mech = "reset-not-fresh:%s%s" % (lab, variant)
                    obs.check(False, mech,
                              "%s after reset (op %d of %r): compute gives %r, a fresh element "
                              "with the same suffix gives %r" % (lab, oi, ops, res[2], res2[2]))
                    return
                obs.check(True, "", "")
        else:
            rm = getattr(real, "reset", None)
            if not callable(rm):
                obs.fail("reset-missing:" + lab, "%s has no callable reset: %r" % (lab, rm))
                return
            try:
                rm()
            except Exception as e:  # pylint: disable=broad-except
                obs.count("resets_executed")
                obs.fail("reset-raises:%s:%s" % (lab, type(e).__name__),
                         "%s.reset() raised %r (history %r)" % (lab, e, ops[:oi + 1]))
                return
            obs.count("resets_executed")
            twin = build(er)
            fills_after = computes_after = 0
        if fills_after and computes_after:
            obs.nontrivial = True


def run_reset_zero(r, obs):
    er = r["el"]
    lab = label(er)
    obs.nontrivial = True
    real = build(er)
    for vr in r["before"]:
        real.fill(mkval(vr))
    list(real.compute())
    real.reset()
    obs.count("resets_executed")
    zero = list(er)
    zero[-1] = 0
    values = []
    res = outcome(real.compute)
    check_against(zero, [], [], res, obs, "after reset of an element with a start value")
    for i, vr in enumerate(r["after"]):
        v = mkval(vr)
        values.append(v)
        real.fill(v)
        res = outcome(real.compute)
        exp = expect(zero, r["after"][:i + 1], values)
        obs.count("aggregate_computes_checked")
        ok = res[0] == "ok" and len(res[1]) == 1 and exp.outs[0](res[1][0]) is None
        obs.check(ok, "reset-not-to-zero:" + lab,
                  "%s(start %r) after reset() and fills %r yields %r; documented to reset to "
                  "zero, not to the start value" % (lab, er[-1], r["after"][:i + 1], res[2]))


_reported = {}     # mech -> violations already recorded by this process
MAX_PER_MECH = 4   # the worker keeps at most 200 violations: do not let one mechanism fill it


def run_case(r, obs):
    k = r["k"]
    try:
        if k == "agg":
            run_agg(r, obs)
        elif k == "history":
            run_history(r, obs)
        elif k == "reset_zero":
            run_reset_zero(r, obs)
        else:
            raise AssertionError(k)
    finally:
        kept = []
        for v in obs.violations:
            _reported[v["mech"]] = _reported.get(v["mech"], 0) + 1
            if _reported[v["mech"]] <= MAX_PER_MECH:
                kept.append(v)
            else:
                obs.count("violations_beyond_the_first_%d_per_mechanism_and_worker" % MAX_PER_MECH)
        obs.violations[:] = kept


RULE += (' Sum and Mean are also filled with Decimal, Fraction and bool data; Vectorize components include a multi-result StoreFilled; results are consumed by a streaming consumer that changes every received context in place (except StoreFilled / GroupBy, whose results are the filled values).')
RULE += (' GroupBy is also filled with contexts holding lists of dictionaries whose equal copies '
         'have their keys in different orders (grouped by that item or by the whole context); '
         'Histogram also has geometric (2**0..2**16) and decade (1e-6..1e6) meshes filled with '
         'values on, just beside and between the edges.')

RULE += (' Round 10: 17..600 filled values; histories of 20..120 operations.')
