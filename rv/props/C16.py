"""C16 - FillRequest processes the flow in consecutive blocks, however it is driven.

Monitors: history recorder (fill / request / run with unique values), block model
driven through a fresh twin of the wrapped element, exactly-once accounting,
buffer-size probe after each drained request, LINE step budget (non-termination
becomes a witness instead of a hang).
"""
import itertools

ID = "C16"
LEVEL = "exploration"
RULE = ("enumerated: wrapped element kind (4 run elements, 3 fill/compute, 2 fill/request, "
        "FillRequestSeq) x bufsize 1..5 x buffer_input/buffer_output x reset x "
        "yield_on_remainder x flow length 0..N; for every config with fill: ALL request "
        "schedules (every subset of fill positions, final request appended) for flows <= 6 "
        "(quick) / <= 11 (thorough); Split(bufsize=b) around the FillRequest for b=1..N+1. "
        "Non-trivial: flow holds at least one complete block")
ASSUMPTIONS = ["flows are iterators (as Sequence and Split pass them), values are unique ints",
               "'at most one block buffered' is read as: after a request() has been drained, at "
               "most bufsize input values and at most one block's results remain buffered",
               "the equality with run() is demanded for yield_on_remainder off only (as stated)"]
ANCHORS = [("lena/core/adapters.py", 404, 628), ("lena/core/fill_request_seq.py", 26, 109),
           ("lena/core/split.py", 361, 376)]
MUST_REACH = ["lena/core/adapters.py:FillRequest.fill", "lena/core/adapters.py:FillRequest.request",
              "lena/core/adapters.py:FillRequest._run_fill_compute",
              "lena/core/adapters.py:FillRequest._run_run",
              "lena/core/fill_request_seq.py:FillRequestSeq.request"]
MUST_COUNT = ["histories", "run_executions", "step_budget_guards"]
MIN_NONTRIVIAL = {"quick": 300, "thorough": 1000}
EXHAUSTIVE = {"quick": True, "thorough": True}
NMAX_RUN = {"quick": 12, "thorough": 40}
NMAX_HIST = {"quick": 6, "thorough": 13}
NBIG = {"quick": 20, "thorough": 200}

LEVEL_TEXT = ("Complete enumeration of the configuration space the property names (element kind, "
              "bufsize 1..5, buffer mode, reset, yield_on_remainder) with every flow length up to "
              "the bound and every request schedule for short flows; each execution of the real "
              "FillRequest is compared with a block model that drives a fresh twin of the wrapped "
              "element, under a line-event step budget. Exhaustive within the bound, nothing beyond.")
LEVEL_NOTE = ("Trusts the wrapped elements' own methods (twins are driven through them) and the "
              "sys.monitoring LINE watchdog; reads FillRequest._buffer_in/_buffer_out for the "
              "buffer-size clause (the property's own observation point).")
TECHNIQUE = "history recorder + block-model twin oracle + exactly-once accounting + LINE step budget"

RUN_KINDS = ["run_collect", "run_cum", "run_map", "run_first", "run_named", "run_count"]
FC_KINDS = ["fc_store", "fc_sum", "fc_count", "fc_live"]
FR_KINDS = ["fr_store", "fr_inner", "fr_custom"]


# ------------------------------------------------------------ wrapped elements
class RunCollect(object):
    def run(self, flow):
        yield ("blk", list(flow))


class RunCum(object):
    """Run element with state and a reset method."""

    def __init__(self):
        self.seen = []

    def run(self, flow):
        for v in flow:
            self.seen.append(v)
        yield ("cum", list(self.seen))

    def reset(self):
        self.seen = []


class RunNamedReset(object):
    """Run element with state whose reset method has another name (given through reset_name);
    it also has an unrelated method that happens to be called reset."""

    def __init__(self):
        self.total = 0

    def run(self, flow):
        for v in flow:
            self.total += v if isinstance(v, (int, float)) and not isinstance(v, bool) else 0
            yield ("named", v, self.total)

    def clear(self):
        self.total = 0

    def reset(self):
        # not the reset of the accumulation: e.g. reloads a calibration
        self.total = 10 ** 6


class _Odd(object):
    """Values whose comparison is unusual but legal: == answers with a non-bool, with True for
    everything, or raises (symbolic expressions, mock.ANY, arrays)."""

    def __init__(self, tag):
        self.tag = tag

    def __repr__(self):
        return "<%s>" % self.tag

    __hash__ = object.__hash__


class EqEverything(_Odd):
    def __eq__(self, other):
        return True

    def __ne__(self, other):
        return False

    __hash__ = object.__hash__


class EqNonBool(_Odd):
    def __eq__(self, other):
        return ["elementwise", "comparison"]

    __hash__ = object.__hash__


class EqRaises(_Odd):
    def __eq__(self, other):
        raise ValueError("the truth value of a comparison with %r is ambiguous" % (self,))

    __hash__ = object.__hash__

    def __bool__(self):
        raise ValueError("the truth value of %r is ambiguous" % (self,))


def _tagview(x):
    """Comparable picture of results that may hold _Odd values (compared by identity tag)."""
    if isinstance(x, _Odd):
        return "odd:" + x.tag
    if isinstance(x, tuple):
        return ("T",) + tuple(_tagview(y) for y in x)
    if isinstance(x, list):
        return [_tagview(y) for y in x]
    return x


class OnlyIter(object):
    """A re-iterable flow container that is not a sequence (only __iter__)."""

    def __init__(self, xs):
        self._xs = list(xs)

    def __iter__(self):
        return iter(self._xs)


class RunMap(object):
    def run(self, flow):
        for v in flow:
            yield v + 1000


class RunFirst(object):
    """Yields the first value of its flow and does not consume the rest (like Slice(1))."""

    def run(self, flow):
        for v in flow:
            yield ("first", v)
            return


class Store(object):
    def __init__(self):
        self.vals = []

    def fill(self, v):
        self.vals.append(v)

    def compute(self):
        yield ("st", list(self.vals))

    def reset(self):
        self.vals = []


class LiveStore(object):
    """Yields its own live list (like lena.structures.Graph yields itself); reset() empties that
    list in place: a result is what it is when it arrives."""

    def __init__(self):
        self.values = []

    def fill(self, v):
        self.values.append(v)

    def compute(self):
        yield self.values

    def reset(self):
        del self.values[:]


class StoreFR(object):
    def __init__(self):
        self.vals = []

    def fill(self, v):
        self.vals.append(v)

    def request(self):
        yield ("fr", list(self.vals))

    def reset(self):
        self.vals = []


class CustomNames(object):
    """fill / request / reset under names of its own; the methods with the standard names
    exist too and must never be called (they spoil the results)."""

    def __init__(self):
        self.vals = []

    def my_fill(self, v):
        self.vals.append(v)

    def my_request(self):
        yield ("cfr", list(self.vals))

    def my_reset(self):
        self.vals = []

    def fill(self, v):
        self.vals.append(("standard fill() was called", v))

    def request(self):
        yield ("standard request() was called", list(self.vals))

    def reset(self):
        self.vals = ["standard reset() was called"]


class StopAt(object):
    """Fill/compute element that signals LenaStopFill when it is given the value *m* (an
    element telling its caller that it needs no more values); that value is not stored."""

    def __init__(self, m):
        self.m = m              # the value that stops the filling
        self.vals = []

    def fill(self, v):
        import lena.core
        if v == self.m:
            raise lena.core.LenaStopFill()
        self.vals.append(v)

    def compute(self):
        yield ("st", list(self.vals))

    def reset(self):
        self.vals = []


def make_el(kind):
    import lena.core
    import lena.flow
    import lena.math
    if kind == "run_collect":
        return RunCollect()
    if kind == "run_cum":
        return RunCum()
    if kind == "run_map":
        return RunMap()
    if kind == "run_named":
        return RunNamedReset()
    if kind == "run_first":
        return RunFirst()
    if kind == "run_count":
        # an element with run AND fill/compute (the adapter takes its run)
        return lena.flow.Count()
    if kind == "fc_store":
        return Store()
    if kind == "fc_live":
        return LiveStore()
    if kind == "fc_sum":
        return lena.math.Sum()
    if kind == "fc_count":
        return lena.core.FillCompute(lena.flow.Count())
    if kind == "fr_store":
        return StoreFR()
    if kind == "fr_custom":
        return CustomNames()
    if kind == "fr_inner":
        # a real lena fill/request element: FillRequest around a Store, block size 1
        return lena.core.FillRequest(Store(), bufsize=1, reset=True, buffer_input=True)
    raise ValueError(kind)


def has_reset(kind):
    return kind not in ("run_collect", "run_map", "run_first", "fc_count", "run_count")


def apply_block(kind, el, block):
    if kind == "fr_custom":
        for v in block:
            el.my_fill(v)
        return list(el.my_request())
    if kind.startswith("run_"):
        return list(el.run(iter(block)))
    for v in block:
        el.fill(v)
    if hasattr(el, "request") and callable(el.request) and not kind.startswith("fc_"):
        return list(el.request())
    return list(el.compute())


def _arrived(x):
    """A result as a streaming consumer sees it at arrival (a live list is copied)."""
    return list(x) if type(x) is list else x


def model_run(kind, n, reset, yor, xs):
    """Block model: what the wrapped element yields for each consecutive block."""
    el = make_el(kind)
    out = []
    for i in range(0, len(xs), n):
        b = xs[i:i + n]
        if len(b) < n and not yor:
            break
        out.extend(_arrived(x) for x in apply_block(kind, el, b))
        if reset:
            if kind == "fr_custom":
                el.my_reset()
            elif kind == "run_named":
                el.clear()
            else:
                el.reset()
    return out


def make_fr(kind, n, mode, reset, yor):
    import lena.core
    kw = {"bufsize": n, "yield_on_remainder": yor}
    if mode == "in":
        kw["buffer_input"] = True
    elif mode == "out":
        kw["buffer_output"] = True
    if kind.startswith("run_") and not has_reset(kind):
        kw["reset"] = False
    else:
        kw["reset"] = reset
    if kind == "fr_custom":
        kw.update(fill="my_fill", request="my_request", reset_name="my_reset")
    if kind == "run_named":
        kw.update(reset_name="clear")
    return lena.core.FillRequest(make_el(kind), **kw)


def cases(tier, seed):
    nmax = NMAX_RUN[tier]
    hmax = NMAX_HIST[tier]
    for kind in RUN_KINDS + FC_KINDS + FR_KINDS:
        for n in range(1, 6):
            for mode in ["in", "out"]:
                if kind == "fc_live" and mode == "out":
                    # results that are live objects of the element cannot be kept in a buffer
                    # of results while the element goes on: not a combination the adapter offers
                    continue
                for reset in ([False, True] if has_reset(kind) else [False]):
                    for yor in [False, True]:
                        yield {"k": "run", "kind": kind, "n": n, "mode": mode, "reset": reset,
                               "yor": yor, "nmax": nmax}
                    if kind.startswith("run_"):
                        continue
                    for N in range(0, hmax + 1):
                        yield {"k": "hist", "kind": kind, "n": n, "mode": mode, "reset": reset,
                               "N": N}
                    yield {"k": "split", "kind": kind, "n": n, "mode": mode, "reset": reset,
                           "nmax": min(nmax, 10)}
    # beyond the small sizes: block sizes 6..130, flows up to several blocks of them, request
    # schedules drawn at random (sparse, dense, only off block boundaries), Split block sizes
    # around the block size and its multiples
    from rv import gen
    for kind in RUN_KINDS + FC_KINDS + FR_KINDS:
        for j in range(NBIG[tier]):
            rng = gen.rng_for(seed, "C16big", kind, j)
            n = rng.choice([6, 7, 8, 15, 16, 17, 31, 32, 33, 63, 64, 65, 100, 127, 128, 129,
                            rng.randint(6, 130)])
            mode = rng.choice(["in", "out"])
            if kind == "fc_live" and mode == "out":
                mode = "in"
            reset = rng.choice([False, True]) if has_reset(kind) else False
            Ns = sorted(set([n - 1, n, n + 1, 2 * n - 1, 2 * n, 2 * n + 1, 3 * n + rng.randint(0, n),
                             rng.randint(17, 4 * n)]))
            yield {"k": "run", "kind": kind, "n": n, "mode": mode, "reset": reset,
                   "yor": rng.choice([False, True]), "nmax": Ns[-1], "Ns": Ns, "big": 1}
            if kind.startswith("run_"):
                continue
            N = rng.choice(Ns[2:])
            masks = []
            for _m in range(6):
                dens = rng.choice([0.02, 0.1, 0.5, 0.9])
                m = 0
                for i in range(N):
                    if rng.random() < dens and not (_m == 5 and (i + 1) % n == 0):
                        m |= 1 << i
                masks.append(m)
            masks.append(sum(1 << i for i in range(N) if (i + 1) % n == 0))   # aligned
            masks.append((1 << N) - 1)                                          # after every fill
            yield {"k": "hist", "kind": kind, "n": n, "mode": mode, "reset": reset, "N": N,
                   "masks": [m or 1 for m in masks], "big": 1}
            yield {"k": "split", "kind": kind, "n": n, "mode": mode, "reset": reset,
                   "nmax": Ns[-1], "Ns": [Ns[1], Ns[-2], Ns[-1]],
                   "bs": sorted(set([1, n - 1, n, n + 1, 2 * n, 2 * n + 1, n // 2, n // 2 + 1,
                                     rng.randint(2, 3 * n)])) + [1000, None], "big": 1}
    # values that are false or None at every position of the flow (block starts included)
    for kind in ["run_collect", "run_first", "fc_store", "fc_count", "fr_store", "fr_inner",
                 "fr_custom"]:
        for n in range(1, 4):
            for mode in ["in", "out"]:
                for yor in [False, True]:
                    yield {"k": "run_special", "kind": kind, "n": n, "mode": mode,
                           "reset": has_reset(kind), "yor": yor}
    # a wrapped element that signals LenaStopFill (the caller - Split - then asks for the
    # results and drops the element)
    for n in range(1, 4):
        for mode in ["in", "out"]:
            for m in range(1, 10):
                yield {"k": "stop", "n": n, "mode": mode, "m": m}
    for n in range(1, 5):
        for reset in [False, True]:
            for pre in [False, True]:
                for post in [False, True]:
                    yield {"k": "frseq", "n": n, "reset": reset, "pre": pre, "post": post,
                           "nmax": 9}
                    for inner in ("run_count", "fc_store", "fr_store"):
                        yield {"k": "frseq", "n": n, "reset": reset, "pre": pre, "post": post,
                               "nmax": 9, "inner": inner}
    # long flows: many blocks buffered between two requests (Split's default bufsize is 1000)
    for kind in ["fc_sum", "fr_store"]:
        for n in (1, 2, 7):
            for mode in ["in", "out"]:
                yield {"k": "long", "kind": kind, "n": n, "mode": mode}
    # user code that fails with StopIteration (a bare next() on an exhausted iterator): the run
    # must fail, never end as if the flow were over
    for kindu in ["fc", "fr", "run"]:
        for n in range(1, 4):
            for mode in ["in", "out", "none"]:
                if mode == "none" and kindu != "run":
                    continue        # only a run element may do without a buffer
                for at in range(0, 7):
                    yield {"k": "userstop", "kind": kindu, "n": n, "mode": mode, "at": at}
    yield {"k": "init"}


class _StopsAt(object):
    """fill/compute, fill/request or run element whose user code raises StopIteration when it
    meets value number *at* (0-based)."""

    def __init__(self, kind, at):
        self._at = at
        self._seen = 0
        self._vals = []
        if kind == "fc":
            self.fill, self.compute = self._fill, self._results
        elif kind == "fr":
            self.fill, self.request, self.reset = self._fill, self._results, self._reset
        else:
            self.run = self._run

    def _fill(self, value):
        weights = iter(())
        if self._seen == self._at:
            self._seen += 1
            next(weights)           # StopIteration
        self._seen += 1
        self._vals.append(value)

    def _results(self):
        yield list(self._vals)

    def _reset(self):
        self._vals = []

    def _run(self, flow):
        for v in flow:
            self._fill(v)
            yield v


def classify_diff(got, exp, xs, n):
    """Name the shape of a disagreement between result lists (for the mech key)."""
    def flat(rs):
        out = []
        for r in rs:
            if isinstance(r, tuple) and len(r) == 2 and isinstance(r[1], list):
                out.extend(r[1])
            elif isinstance(r, tuple):
                out.append(r[1])
            else:
                out.append(r)
        return out
    fg, fe = flat(got), flat(exp)
    try:
        if len(set(fg)) < len(fg) and len(set(fe)) == len(fe):
            return "values-duplicated"
        if set(fe) - set(fg):
            return "values-lost"
        if set(fg) - set(fe):
            return "extra-values"
        if fg != fe:
            return "values-reordered"
    except TypeError:
        pass
    if len(got) != len(exp):
        return "wrong-number-of-results"
    return "wrong-blocks"


def _alternately(g1, g2):
    out = ([], [])
    live = [iter(g1), iter(g2)]
    turn = 0
    while any(g is not None for g in live):
        i = turn % 2
        turn += 1
        if live[i] is None:
            continue
        try:
            out[i].append(next(live[i]))
        except StopIteration:
            live[i] = None
    return out


def _guard(obs, budget):
    import lena.core
    from rv.monitors.steps import StepBudget
    FR = lena.core.FillRequest
    obs.count("step_budget_guards")
    return StepBudget([FR.fill, FR.request, FR._run_fill_compute, FR._run_run], budget)


def run_case(r, obs):
    import lena.core
    from rv.monitors.steps import StepBudgetExceeded
    k = r["k"]
    if k == "userstop":
        kind, n, mode, at = r["kind"], r["n"], r["mode"], r["at"]
        obs.nontrivial = True
        kw = {"bufsize": n, "reset": kind == "fr"}
        if mode == "in":
            kw["buffer_input"] = True
        elif mode == "out":
            kw["buffer_output"] = True
        elif kind == "run":
            kw["yield_on_remainder"] = True     # a run element without a buffer
        for N in (at + 1, at + 3, 2 * n + at + 1):
            if kind == "run" and mode != "none" and at >= (N // n) * n:
                continue        # the value lies in the incomplete last block, which is not run
            fr = lena.core.FillRequest(_StopsAt(kind, at), **kw)
            got, exc = [], None
            try:
                for x in fr.run(iter(range(N))):
                    got.append(_arrived(x))
            except (RuntimeError, StopIteration) as e:
                exc = e
            obs.count("run_executions")
            obs.check(exc is not None, "user-exception-ends-the-flow-silently:run:" + kind,
                      "FillRequest(element whose user code raises StopIteration at value %d, "
                      "bufsize=%d, buffer=%s).run(range(%d)) ended normally with %r"
                      % (at, n, mode, N, got))
        return
    if k == "run":
        kind, n, mode, reset, yor = r["kind"], r["n"], r["mode"], r["reset"], r["yor"]
        for N in (r.get("Ns") or range(0, r["nmax"] + 1)):
            xs = list(range(1, N + 1))
            exp = model_run(kind, n, reset, yor, xs)
            fr = make_fr(kind, n, mode, reset, yor)
            obs.count("run_executions")
            if N >= n:
                obs.nontrivial = True
            try:
                with _guard(obs, 400 * (N + 2) + 2000):
                    got = [_arrived(x) for x in fr.run(iter(xs))]
            except StepBudgetExceeded as e:
                obs.fail("run:%s:buffer_%s:nontermination" % (kind.split("_")[0], mode),
                         "FillRequest(%s, bufsize=%d, %s, reset=%s, yor=%s).run(%r): %s"
                         % (kind, n, mode, reset, yor, xs, e))
                continue
            if got != exp:
                shape = classify_diff(got, exp, xs, n)
                why = ""
                if kind == "run_first":
                    why = ":element-leaves-block-unconsumed"
                obs.fail("run:%s:buffer_%s%s:%s%s" % (kind.split("_")[0], mode,
                                                    ":yor" if yor else "", shape, why),
                         "FillRequest(%s, bufsize=%d, buffer_%sput, reset=%s, "
                         "yield_on_remainder=%s).run(iter(%r)) = %r, block model gives %r"
                         % (kind, n, mode, reset, yor, xs, got, exp))
            obs.count("oracle_evaluations")
            if kind not in ("fr_custom", "run_named") and N in (n - 1, n, n + 1, r["nmax"]):
                # the options given positionally, in the order of the documented signature
                # FillRequest(el, bufsize, reset, buffer_input, buffer_output, yield_on_remainder)
                reset_p = False if (kind.startswith("run_") and not has_reset(kind)) else reset
                frp = lena.core.FillRequest(make_el(kind), n, reset_p,
                                            True if mode == "in" else None,
                                            True if mode == "out" else None, yor)
                try:
                    with _guard(obs, 400 * (N + 2) + 2000):
                        gotp = [_arrived(x) for x in frp.run(iter(xs))]
                except StepBudgetExceeded as e:
                    gotp = "does not return: %s" % e
                obs.count("run_executions")
                obs.check(gotp == exp, "run:%s:buffer_%s%s:options-given-positionally"
                          % (kind.split("_")[0], mode, ":yor" if yor else ""),
                          "FillRequest(%s, %d, %r, %r, %r, %r).run(iter(%r)) = %r, block model "
                          "gives %r" % (kind, n, reset_p, True if mode == "in" else None,
                                        True if mode == "out" else None, yor, xs, gotp, exp))
            if N == 0:
                obs.check(got == [], "run:empty-flow-yields", "empty flow yielded %r" % (got,))
            if N in (0, 1, n, 2 * n + 1, r["nmax"]):
                # driven as an element of a Sequence / Source whose flow is a re-iterable
                # container that is not a sequence (a dict, a dict view, an object with __iter__)
                import itertools
                for cname, mkc in (("dict", lambda: dict.fromkeys(xs)),
                                   ("dict-values", lambda: dict(enumerate(xs)).values()),
                                   ("only-__iter__", lambda: OnlyIter(xs))):
                    for how in ("sequence", "source"):
                        frc = make_fr(kind, n, mode, reset, yor)
                        try:
                            with _guard(obs, 800 * (N + 2) + 4000):
                                if how == "sequence":
                                    stream = lena.core.Sequence(frc).run(mkc())
                                else:
                                    stream = lena.core.Source(mkc(), frc)()
                                gotc = [_arrived(x) for x in itertools.islice(stream, len(exp) + 4)]
                        except StepBudgetExceeded as e:
                            obs.fail("run:%s:buffer_%s:nontermination" % (kind.split("_")[0], mode),
                                     "in a %s over a %s: %s" % (how, cname, e))
                            continue
                        except Exception as e:  # pylint: disable=broad-except
                            gotc = "raised %r" % (e,)
                        obs.count("run_executions")
                        obs.check(gotc == exp,
                                  "run:%s:buffer_%s%s:in-a-%s-over-a-non-sequence-container"
                                  % (kind.split("_")[0], mode, ":yor" if yor else "", how),
                                  "FillRequest(%s, bufsize=%d, buffer_%sput, reset=%s, "
                                  "yield_on_remainder=%s) in a %s run over a %s of %r gives %r "
                                  "(first %d results), block model gives %r"
                                  % (kind, n, mode, reset, yor, how, cname, xs, gotc,
                                     len(exp) + 4, exp))
            if N in (n, 2 * n + 1, r["nmax"]) and N:
                # (a) two run() generators of one object alive at once (the element twice in a
                # sequence, two flows zipped): each processes its own flow in its own blocks
                ys = [x + 500 for x in xs]
                fr2 = make_fr(kind, n, mode, reset, yor)
                twin_exp = None
                if not has_reset(kind) or reset or kind in ("run_collect", "run_map",
                                                             "run_first", "fc_count"):
                    twin_exp = model_run(kind, n, reset, yor, ys)
                if kind in ("run_collect", "run_map", "run_first"):
                    # stateless wrapped elements only: a stateful one is shared by design
                    try:
                        with _guard(obs, 800 * (N + 2) + 4000):
                            ga, gb = _alternately(fr2.run(iter(xs)), fr2.run(iter(ys)))
                    except StepBudgetExceeded as e:
                        obs.fail("run:%s:buffer_%s:nontermination" % (kind.split("_")[0], mode),
                                 "two live runs: %s" % e)
                    else:
                        obs.count("run_executions", 2)
                        obs.check(ga == exp and gb == twin_exp,
                                  "run:%s:buffer_%s%s:two-live-runs-of-one-object"
                                  % (kind.split("_")[0], mode, ":yor" if yor else ""),
                                  "two run() generators of one FillRequest(%s, bufsize=%d, "
                                  "buffer_%sput, yield_on_remainder=%s) consumed alternately give "
                                  "%r and %r, expected %r and %r"
                                  % (kind, n, mode, yor, ga, gb, exp, twin_exp))
                # (b) a deep copy (what SplitIntoBins / MapBins / Split copies are) run beside
                # the original
                import copy
                orig = make_fr(kind, n, mode, reset, yor)
                dup = copy.deepcopy(orig)
                gd = [_arrived(x) for x in dup.run(iter(ys))]
                go = [_arrived(x) for x in orig.run(iter(xs))]
                obs.count("run_executions", 2)
                obs.check(go == exp and gd == model_run(kind, n, reset, yor, ys),
                          "run:%s:buffer_%s%s:deep-copy-differs"
                          % (kind.split("_")[0], mode, ":yor" if yor else ""),
                          "a deep copy of FillRequest(%s, bufsize=%d, buffer_%sput) run on %r gives "
                          "%r and the original on %r gives %r"
                          % (kind, n, mode, ys, gd, xs, go))
    elif k == "run_special":
        kind, n, mode, reset, yor = r["kind"], r["n"], r["mode"], r["reset"], r["yor"]
        obs.nontrivial = True
        for N in range(1, 7):
            for p in range(N):
                for special in (None, 0, False, "", (), "eq-everything", "eq-nonbool",
                                "eq-raises"):
                    xs = list(range(1, N + 1))
                    odd = isinstance(special, str) and special.startswith("eq-")
                    if odd:
                        if kind in ("fc_count", "fr_inner") or N > 4:
                            continue
                        special = {"eq-everything": EqEverything, "eq-nonbool": EqNonBool,
                                   "eq-raises": EqRaises}[special](special)
                    xs[p] = special
                    exp = model_run(kind, n, reset, yor, xs)
                    fr = make_fr(kind, n, mode, reset, yor)
                    obs.count("run_executions")
                    try:
                        with _guard(obs, 400 * (N + 2) + 2000):
                            got = [_arrived(x) for x in fr.run(iter(xs))]
                    except StepBudgetExceeded as e:
                        obs.fail("run:%s:buffer_%s:nontermination" % (kind.split("_")[0], mode),
                                 "run(%r): %s" % (xs, e))
                        continue
                    except Exception as e:  # pylint: disable=broad-except
                        if not odd:
                            raise
                        got = "raised %r" % (e,)
                    obs.count("oracle_evaluations")
                    if _tagview(got) != _tagview(exp):
                        at = "block-start" if p % n == 0 else "inside-a-block"
                        obs.fail("run:%s:buffer_%s%s:%s-value-at-%s"
                                 % (kind.split("_")[0], mode, ":yor" if yor else "",
                                    "unusual-__eq__" if odd else "false-or-None", at),
                                 "FillRequest(%s, bufsize=%d, buffer_%sput, reset=%s, "
                                 "yield_on_remainder=%s).run(iter(%r)) = %r, block model gives %r"
                                 % (kind, n, mode, reset, yor, xs, got, exp))
    elif k == "stop":
        n, mode, m = r["n"], r["mode"], r["m"]
        obs.nontrivial = True
        kw = {"bufsize": n, "reset": True}
        kw["buffer_input" if mode == "in" else "buffer_output"] = True
        for B in (1, 2, 3, 5, None):
            for N in range(0, 9):
                xs = list(range(1, N + 1))
                # reference: the same Split with the bare element wrapped by a twin adapter is
                # what is under test; the statement is about the VALUES: everything the
                # element accepted before it stopped appears exactly once, in full blocks
                sp = lena.core.Split([lena.core.FillRequest(StopAt(m), **kw)], bufsize=B)
                obs.count("split_executions")
                try:
                    with _guard(obs, 600 * (N + 2) + 3000):
                        got = [_arrived(x) for x in sp.run(iter(xs))]
                except StepBudgetExceeded as e:
                    obs.fail("stop:buffer_%s:nontermination" % mode, "%s" % e)
                    continue
                except lena.core.LenaStopFill:
                    obs.count("stop_signal_escapes_split")
                    continue
                obs.count("oracle_evaluations")
                # the value that made fill() raise was not accepted: it belongs to no block;
                # the results are the full blocks of the values accepted before it
                accepted = xs[:xs.index(m)] if m in xs else xs
                exp = [("st", accepted[i:i + n]) for i in range(0, len(accepted) - n + 1, n)]
                if got != exp:
                    shape = classify_diff(got, exp, xs, n)
                    if any(isinstance(res, tuple) and res[1] == [] for res in got):
                        shape = "result-for-an-empty-block"
                    obs.fail("stop:buffer_%s:%s" % (mode, shape),
                             "Split([FillRequest(StopAt(%d), bufsize=%d, buffer_%sput, "
                             "reset=True)], bufsize=%r).run(%r) = %r; the element accepted %r, "
                             "whose full blocks are %r" % (m, n, mode, B, xs, got, accepted, exp))
    elif k == "hist":
        kind, n, mode, reset, N = r["kind"], r["n"], r["mode"], r["reset"], r["N"]
        xs = list(range(1, N + 1))
        exp = model_run(kind, n, reset, False, xs)
        if N >= n:
            obs.nontrivial = True
        for mask in (r.get("masks") or range(1 << N)):
            fr = make_fr(kind, n, mode, reset, False)
            got = []
            hist = []
            obs.count("histories")
            fills_since_request = 0
            max_fills_between = 0
            aligned = True
            try:
                with _guard(obs, 600 * (N + 2) + 3000):
                    for i, x in enumerate(xs):
                        fr.fill(x)
                        hist.append("f%d" % x)
                        fills_since_request += 1
                        max_fills_between = max(max_fills_between, fills_since_request)
                        if mask >> i & 1:
                            res = [_arrived(x) for x in fr.request()]
                            hist.append("r->%r" % (res,))
                            got.extend(res)
                            if (i + 1) % n:
                                aligned = False
                            fills_since_request = 0
                            _buffers(fr, n, mode, hist, obs)
                    res = [_arrived(x) for x in fr.request()]
                    hist.append("r->%r" % (res,))
                    got.extend(res)
                    _buffers(fr, n, mode, hist, obs)
            except StepBudgetExceeded as e:
                cond = "fill-past-full-block" if max_fills_between > n else "within-block"
                obs.fail("fill-request:buffer_%s:nontermination:%s" % (mode, cond),
                         "FillRequest(%s, bufsize=%d, buffer_%sput, reset=%s): history %s does "
                         "not return: %s" % (kind, n, mode, reset, " ".join(hist), e))
                continue
            obs.count("oracle_evaluations")
            if mask % 5 == 3 or mask == (1 << N) - 1:
                # the original and a deep copy of it driven in turn by the same history (the
                # copy with its own values): the copy keeps its own buffers
                import copy
                o = make_fr(kind, n, mode, reset, False)
                c = copy.deepcopy(o)
                go, gc = [], []
                try:
                    with _guard(obs, 1200 * (N + 2) + 6000):
                        for i, x in enumerate(xs):
                            o.fill(x)
                            c.fill(x + 500)
                            if mask >> i & 1:
                                go.extend(_arrived(x) for x in o.request())
                                gc.extend(_arrived(x) for x in c.request())
                        go.extend(_arrived(x) for x in o.request())
                        gc.extend(_arrived(x) for x in c.request())
                except StepBudgetExceeded as e:
                    obs.fail("fill-request:buffer_%s:nontermination:deep-copy" % mode, "%s" % e)
                else:
                    expc = model_run(kind, n, reset, False, [x + 500 for x in xs])
                    obs.count("histories", 2)
                    obs.check(go == exp and gc == expc,
                              "fill-request:buffer_%s:deep-copy-shares-state" % mode,
                              "FillRequest(%s, bufsize=%d, buffer_%sput, reset=%s) and a deep copy "
                              "of it, both driven by the history %s: original %r (expected %r), "
                              "copy %r (expected %r)"
                              % (kind, n, mode, reset, " ".join(hist), go, exp, gc, expc))
            if mask % 3 == 1 and N and kind != "fc_live":
                # (not for an element whose results are live objects: read later, they have
                # changed)
                # the result of request() is not read at once: it is dropped unread at the
                # masked points (nothing was taken, so nothing may be lost), or read only after
                # the next fill
                for how in ("dropped-unread", "read-after-the-next-fill"):
                    fr2 = make_fr(kind, n, mode, reset, False)
                    got2, pending = [], None
                    try:
                        with _guard(obs, 1200 * (N + 2) + 6000):
                            for i, x in enumerate(xs):
                                fr2.fill(x)
                                if pending is not None:
                                    got2.extend(pending)
                                    pending = None
                                if mask >> i & 1:
                                    req = fr2.request()
                                    if how == "read-after-the-next-fill":
                                        pending = req
                                    del req
                            if pending is not None:
                                got2.extend(pending)
                            got2.extend(fr2.request())
                    except StepBudgetExceeded as e:
                        obs.fail("fill-request:buffer_%s:nontermination:%s" % (mode, how), "%s" % e)
                        continue
                    obs.count("histories")
                    if got2 != exp:
                        obs.fail("fill-request:buffer_%s:%s:request-result-%s"
                                 % (mode, classify_diff(got2, exp, xs, n), how),
                                 "FillRequest(%s, bufsize=%d, buffer_%sput, reset=%s), history %s "
                                 "with every request() result %s: all results together %r, run() "
                                 "on the whole flow gives %r"
                                 % (kind, n, mode, reset, " ".join(hist), how, got2, exp))
            if mask in (0, (1 << N) - 1, 5) and N and reset and kind in ("fc_store", "fr_store"):
                # values that are objects compared by identity: the results hold the very
                # objects that were filled (nothing is copied on the way)
                objs = [_Odd("v%d" % i) for i in range(N)]
                fr4 = make_fr(kind, n, mode, reset, False)
                held = []
                for i, x in enumerate(objs):
                    fr4.fill(x)
                    if mask >> i & 1:
                        held.extend(fr4.request())
                held.extend(fr4.request())
                inside = []
                for res in held:
                    inside.extend(res[1] if isinstance(res, tuple) and isinstance(res[1], list)
                                  else [res])
                nfull = (N // n) * n
                obs.count("histories")
                obs.check(len(inside) == nfull and all(a is b for a, b in zip(inside, objs)),
                          "fill-request:buffer_%s:results-do-not-hold-the-filled-objects" % mode,
                          "FillRequest(%s, bufsize=%d, buffer_%sput): %d objects filled, the "
                          "results hold %r - expected the first %d filled objects themselves"
                          % (kind, n, mode, N, inside, nfull))
            if got != exp:
                shape = classify_diff(got, exp, xs, n)
                cond = ("requests-on-block-boundaries" if aligned else
                        "request-off-block-boundary")
                if max_fills_between > n:
                    cond += ":fills-past-full-block"
                obs.fail("fill-request:buffer_%s:%s:%s" % (mode, shape, cond),
                         "FillRequest(%s, bufsize=%d, buffer_%sput, reset=%s): history %s gives "
                         "%r, run() on the whole flow / block model gives %r"
                         % (kind, n, mode, reset, " ".join(hist), got, exp))
    elif k == "split":
        kind, n, mode, reset = r["kind"], r["n"], r["mode"], r["reset"]
        for N in (r.get("Ns") or range(0, r["nmax"] + 1)):
            xs = list(range(1, N + 1))
            exp = model_run(kind, n, reset, False, xs)
            for b in (r.get("bs") or list(range(1, N + 2)) + [1000, None]):
                fr = make_fr(kind, n, mode, reset, False)
                sp = lena.core.Split([fr], bufsize=b)
                obs.count("split_executions")
                if N >= n:
                    obs.nontrivial = True
                try:
                    with _guard(obs, 600 * (N + 2) + 3000):
                        got = [_arrived(x) for x in sp.run(iter(xs))]
                except StepBudgetExceeded as e:
                    obs.fail("split:buffer_%s:nontermination:%s"
                             % (mode, "split-bufsize>block" if (b is None or b > n)
                                else "split-bufsize<=block"),
                             "Split([FillRequest(%s, bufsize=%d, buffer_%sput, reset=%s)], "
                             "bufsize=%r).run(%r) does not return: %s"
                             % (kind, n, mode, reset, b, xs, e))
                    continue
                obs.count("oracle_evaluations")
                if got != exp:
                    shape = classify_diff(got, exp, xs, n)
                    bb = N + 1 if b is None else b
                    rel = ("split-bufsize-multiple-of-block" if bb % n == 0 else
                           "split-bufsize-not-multiple-of-block")
                    if bb > n:
                        rel += ":larger-than-block"
                    obs.fail("split:buffer_%s:%s:%s" % (mode, shape, rel),
                             "Split([FillRequest(%s, bufsize=%d, buffer_%sput, reset=%s)], "
                             "bufsize=%r).run(%r) = %r, block model gives %r"
                             % (kind, n, mode, reset, b, xs, got, exp))
                # the same branch after branches that stop reading (LenaStopFill) in the middle
                # of the flow: the FillRequest branch still gets every value
                if N and b is not None and b <= N:
                    import lena.flow
                    import lena.math
                    for stop_at in sorted(set([0, 1, N // 2])):
                        tagged = lambda v: ("STOPPED-BRANCH", v)
                        first = [(lena.flow.Slice(stop_at), lena.math.Sum(), tagged),
                                 (lena.flow.Slice(stop_at),
                                  lena.core.FillRequest(Store(), bufsize=2, reset=True,
                                                        buffer_input=True), tagged)]
                        sp2 = lena.core.Split(first + [make_fr(kind, n, mode, reset, False)],
                                              bufsize=b)
                        obs.count("split_executions")
                        try:
                            with _guard(obs, 1200 * (N + 2) + 6000):
                                got2 = [_arrived(v) for v in sp2.run(iter(xs))
                                        if not (isinstance(v, tuple) and len(v) == 2
                                                and v[0] == "STOPPED-BRANCH")]
                        except StepBudgetExceeded as e:
                            obs.fail("split:buffer_%s:nontermination:after-stopping-branches"
                                     % mode, "%s" % e)
                            continue
                        obs.check(got2 == exp,
                                  "split:buffer_%s:%s:after-branches-that-stopped"
                                  % (mode, classify_diff(got2, exp, xs, n)),
                                  "Split([(Slice(%d), Sum()), (Slice(%d), FillRequest(Store)), "
                                  "FillRequest(%s, bufsize=%d, buffer_%sput, reset=%s)], bufsize=%r)"
                                  ".run(%r): the last branch gives %r, block model gives %r"
                                  % (stop_at, stop_at, kind, n, mode, reset, b, xs, got2, exp))
    elif k == "long":
        kind, n, mode = r["kind"], r["n"], r["mode"]
        obs.nontrivial = True
        for N in (999, 1000, 1001, 2001, 2600):
            xs = list(range(1, N + 1))
            exp = model_run(kind, n, True, False, xs)
            for how in ("split-default-bufsize", "split-unbounded", "fill-all-then-request", "run"):
                fr = make_fr(kind, n, mode, True, False)
                obs.count("split_executions")
                try:
                    with _guard(obs, 600 * (N + 2) + 3000):
                        if how == "split-default-bufsize":
                            got = list(lena.core.Split([fr]).run(iter(xs)))
                        elif how == "split-unbounded":
                            got = list(lena.core.Split([fr], bufsize=None).run(iter(xs)))
                        elif how == "run":
                            got = [_arrived(x) for x in fr.run(iter(xs))]
                        else:
                            for x in xs:
                                fr.fill(x)
                            got = list(fr.request())
                except StepBudgetExceeded as e:
                    obs.fail("long:buffer_%s:nontermination" % mode, "%s: %s" % (how, e))
                    continue
                except Exception as e:  # pylint: disable=broad-except
                    got = "raised %s" % type(e).__name__
                obs.count("oracle_evaluations")
                obs.check(got == exp, "long-flow:buffer_%s:%s" % (
                    mode, "raises" if isinstance(got, str) else classify_diff(got, exp, xs, n)),
                          "FillRequest(%s, bufsize=%d, buffer_%sput, reset=True) driven by %s over "
                          "%d values gives %s, block model gives %d results"
                          % (kind, n, mode, how, N,
                             got if isinstance(got, str) else "%d results" % len(got), len(exp)))
    elif k == "frseq":
        n, reset, pre, post = r["n"], r["reset"], r["pre"], r["post"]

        def mk(bufsize, yor=False):
            args = []
            if pre:
                args.append(lambda x: x + 100)
            if r.get("inner"):
                # one FillRequest with the block size of the sequence around it
                args.append(make_fr(r["inner"], bufsize, "in", False, False))
            else:
                args.append(lena.core.FillRequest(Store(), bufsize=1, reset=True,
                                                  buffer_input=True))
            if post:
                args.append(lambda v: ("post", v))
            kw = {"yield_on_remainder": True} if yor else {}
            return lena.core.FillRequestSeq(*args, bufsize=bufsize, reset=reset,
                                            buffer_input=True, **kw)
        for N in range(0, r["nmax"] + 1):
            xs = list(range(1, N + 1))
            # the sequence's own run with yield_on_remainder: the final partial block too
            twin = mk(n, True)
            expy = []
            for i in range(0, N, n):
                for v in xs[i:i + n]:
                    twin.fill(v)
                expy.extend(list(twin.request()))
                if reset:
                    twin.reset()
            try:
                with _guard(obs, 800 * (N + 2) + 3000):
                    goty = list(mk(n, True).run(iter(xs)))
            except StepBudgetExceeded as e:
                obs.fail("frseq:nontermination", "FillRequestSeq(yor).run(%r): %s" % (xs, e))
            else:
                obs.count("frseq_executions")
                obs.check(goty == expy, "frseq:yor:run-differs-from-block-model",
                          "FillRequestSeq(pre=%s, FillRequest(Store), post=%s, bufsize=%d, "
                          "reset=%s, yield_on_remainder=True).run(%r) = %r, expected %r"
                          % (pre, post, n, reset, xs, goty, expy))
            twin = mk(n)
            exp = []
            for i in range(0, N, n):
                b = xs[i:i + n]
                if len(b) < n:
                    break
                for v in b:
                    twin.fill(v)
                exp.extend(list(twin.request()))
                if reset:
                    twin.reset()
            real = mk(n)
            obs.count("frseq_executions")
            if N >= n:
                obs.nontrivial = True
            try:
                with _guard(obs, 800 * (N + 2) + 3000):
                    got = list(real.run(iter(xs)))
            except StepBudgetExceeded as e:
                obs.fail("frseq:nontermination", "FillRequestSeq(bufsize=%d).run(%r): %s"
                         % (n, xs, e))
                continue
            obs.check(got == exp, "frseq:run-differs-from-block-model",
                      "FillRequestSeq(pre=%s, FillRequest(Store), post=%s, bufsize=%d, reset=%s)"
                      ".run(%r) = %r, expected %r" % (pre, post, n, reset, xs, got, exp))
            # the same sequence inside a Split: Split drives the sequence's own
            # fill/request (blocks are those of the inner FillRequest, size 1; the
            # bufsize keyword only concerns FillRequestSeq.run).  Reference: a fresh
            # twin filled with every value and requested once.
            twin2 = mk(n)
            for v in xs:
                twin2.fill(v)
            exp2 = list(twin2.request())
            for b in [1, 2, 3, N + 1]:
                sp = lena.core.Split([mk(n)], bufsize=b)
                try:
                    with _guard(obs, 800 * (N + 2) + 3000):
                        got = [_arrived(x) for x in sp.run(iter(xs))]
                except StepBudgetExceeded as e:
                    obs.fail("frseq:split:nontermination", "Split([FillRequestSeq]) %s" % e)
                    continue
                if got != exp2:
                    shape = classify_diff(got, exp2, xs, 1)
                    obs.fail("frseq:split:%s" % shape,
                             "Split([FillRequestSeq(bufsize=%d, reset=%s, pre=%s, post=%s)], "
                             "bufsize=%d).run(%r) = %r, expected %r"
                             % (n, reset, pre, post, b, xs, got, exp2))
                obs.count("oracle_evaluations")
    elif k == "init":
        obs.nontrivial = True
        import lena.math
        bad = [
            ("both-buffers", dict(buffer_input=True, buffer_output=True, reset=True), "LenaValueError"),
            ("no-buffer", dict(reset=True), "LenaValueError"),
            ("bufsize-0", dict(bufsize=0, buffer_input=True, reset=True), "LenaValueError"),
            ("bufsize-frac", dict(bufsize=1.5, buffer_input=True, reset=True), "LenaValueError"),
            ("bufsize-neg", dict(bufsize=-1, buffer_input=True, reset=True), "LenaValueError"),
            ("reset-unset-fc", dict(buffer_input=True), "LenaTypeError"),
        ]
        for name, kw, exc in bad:
            try:
                lena.core.FillRequest(lena.math.Sum(), **kw)
            except Exception as e:  # pylint: disable=broad-except
                obs.check(type(e).__name__ == exc, "init:%s:wrong-exception" % name,
                          "FillRequest(Sum(), %r) raised %r, documented %s" % (kw, e, exc))
            else:
                obs.fail("init:%s:accepted" % name, "FillRequest(Sum(), %r) accepted" % (kw,))
        try:
            lena.core.FillRequest(RunMap(), reset=True, buffer_input=True)
        except lena.core.LenaTypeError:
            obs.count("oracle_evaluations")
        except Exception as e:  # pylint: disable=broad-except
            obs.fail("init:reset-missing:wrong-exception", repr(e))
        else:
            obs.fail("init:reset-missing:accepted", "reset=True accepted without reset method")
        try:
            lena.core.FillRequest(5, reset=False, buffer_input=True)
        except lena.core.LenaTypeError:
            obs.count("oracle_evaluations")
        except Exception as e:  # pylint: disable=broad-except
            obs.fail("init:no-methods:wrong-exception", repr(e))
        else:
            obs.fail("init:no-methods:accepted", "FillRequest(5) accepted")


def _buffers(fr, n, mode, hist, obs):
    """Buffer sizes after a drained request()."""
    bi = getattr(fr, "_buffer_in", None)
    bo = getattr(fr, "_buffer_out", None)
    obs.count("buffer_probes")
    if bi is not None and len(bi) > n:
        obs.fail("fill-request:buffer_in:more-than-one-block-after-request",
                 "after %s: %d values in _buffer_in (bufsize %d)" % (" ".join(hist), len(bi), n))
    if bo is not None and len(bo) > 1:
        obs.fail("fill-request:buffer_out:results-kept-after-request",
                 "after %s: %d results still in _buffer_out" % (" ".join(hist), len(bo)))


RULE += (' Added: None / false values at every flow position, an element with custom method names (the standard names spoil the results), elements that signal LenaStopFill on a given value under Split.')
RULE += (' Added: a run element whose reset method is given through reset_name (and which has an '
         'unrelated method called reset); FillRequest as an element of a Sequence / Source run over '
         'a dict, a dict view and an object that only has __iter__; a FillRequest branch of Split '
         'after branches that signal LenaStopFill in the middle of the flow.')
RULE += (' Added: values whose == answers with a non-bool / True for everything / raises, at every '
         'flow position; flows of 999..2600 values (hundreds to thousands of blocks buffered between '
         'two requests, Split with its default bufsize).')
RULE += (' Added: the options given positionally in the order of the documented signature; '
         'request() results that are dropped unread or read only after the next fill.')
RULE += (' Added: an element whose results are its own live state (copied by the consumer at '
         'arrival); values that are objects compared by identity (the results hold those objects).')
RULE += (' Added: wrapped fill/compute, fill/request and run elements whose user code raises '
         'StopIteration at value k (every position in a block): run() must fail, not end.')

RULE += (' Round 10: block sizes 6..130 with flows of up to four blocks, random request schedules, Split block sizes around them; lena.flow.Count (run and fill/compute) as wrapped element; FillRequestSeq around one FillRequest of its own block size.')
