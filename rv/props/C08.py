"""C08 - context addressing, formatting and update elements touch exactly the named item.

Runtime monitoring of the real lena.context functions and elements on enumerated
key paths x seeded contexts: a reference lookup/writer/deleter/renderer
(rv/props/_c08_ref.py) judges every returned value and every context after a
call, and an exception contract judges every exception that escapes: only
LenaKeyError / LenaTypeError / LenaValueError may, and LenaKeyError only where a
missing key is configured to raise.
"""
import copy
import itertools
import pickle

from rv.props import _c08_ref as R

ID = "C08"
LEVEL = "exploration"
RULE = ("seeded contexts over keys {a,b,c}, depth<=3, leaves {ints, strings incl. key names and "
        "'', None, True, lists incl. one holding a key, float, {}}; per context ALL key paths of "
        "length 0..4 over {a,b,c} plus paths ending in str(leaf)/a foreign word, in every "
        "notation (dotted string, list, both one-key dict forms; DeleteContext: string, list, "
        "tuple), with and without default; templates of literals and 0..3 fields (plain, !r, "
        "!s); UpdateContext: ALL 39 subcontext paths of length 1..3 x 30 update specifications "
        "(simple values, literal, single-field, multi-field templates) x the full option matrix "
        "value x default{unset,scalar,dict} x skip_on_missing x raise_on_missing x recursively "
        "(48 combinations, illegal ones must raise LenaValueError) x seeded contexts incl. a "
        "value without context; to_string on shuffled / mutated JSON-like dicts; an enumerated "
        "table of malformed arguments. Path components are never empty. Non-trivial: the case "
        "saw both a present and an absent/through-scalar path (addr, fmt), a changed context "
        "(upd), or is a table case")
ASSUMPTIONS = [
    "path components are non-empty and contain no dots (the code documents empty components "
    "as undefined)",
    "templates are well formed: literals without braces and non-empty {{dotted.path}} fields "
    "(format_context documents other strings as unsupported; conversions !r/!s only for "
    "format_context)",
    "jinja2 is installed; key names do not collide with attribute names of dict/str/list",
    "to_string injectivity is judged type-aware (1, 1.0, True are different) on JSON-native "
    "leaves with string keys",
    "lena.flow is imported before lena.context.UpdateContext is used (import order is C20)",
]
ANCHORS = [("lena/context/functions.py", 14, 60), ("lena/context/functions.py", 102, 326),
           ("lena/context/functions.py", 409, 523), ("lena/context/update_context.py", 16, 232),
           ("lena/context/elements.py", 10, 50), ("lena/meta/elements.py", 18, 61)]
MUST_REACH = [
    "lena/context/functions.py:contains", "lena/context/functions.py:get_recursively",
    "lena/context/functions.py:str_to_dict",
    "lena/context/functions.py:str_to_dict.<locals>.nest_list",
    "lena/context/functions.py:str_to_list", "lena/context/functions.py:to_string",
    "lena/context/functions.py:format_context",
    "lena/context/functions.py:format_context.<locals>._format_context",
    "lena/context/functions.py:format_update_with",
    "lena/context/update_context.py:UpdateContext.__init__",
    "lena/context/update_context.py:UpdateContext.__call__",
    "lena/context/elements.py:DeleteContext.__call__",
    "lena/meta/elements.py:SetContext._set_context",
]
MUST_COUNT = ["exception_contract_evals", "lookups", "contains_calls", "delete_calls",
              "update_calls", "renderings", "to_string_pairs", "illegal_option_combinations",
              "missing_key_configurations"]
MIN_NONTRIVIAL = {"quick": 1500, "thorough": 40000}
LEVEL_TEXT = ("Seeded exploration of contexts combined with exhaustive enumeration of key paths "
              "(length 0..4), notations, the UpdateContext option matrix and subcontext paths; "
              "every call of the real functions/elements is compared with a reference "
              "lookup/writer/renderer and every escaping exception is judged by the exception "
              "contract. Held on the explored inputs; silent about empty path components, "
              "malformed templates beyond the table and keys outside the alphabet.")
LEVEL_NOTE = ("Trusts the ~150-line reference model and jinja2's rendering of plain "
              "{{a.b}} fields (str of the value, '' for undefined).")
TECHNIQUE = "reference-model oracle + exception contract over enumerated paths/options x seeded contexts"

NCTX = {"quick": 700, "thorough": 40000}        # addr cases (one context each)
NFMT = {"quick": 400, "thorough": 20000}
NUPD_CTX = {"quick": 8, "thorough": 8}          # contexts per upd case
NUPD_ROUNDS = {"quick": 1, "thorough": 30}      # upd cases per (sub, spec)
NTOSTR = {"quick": 60, "thorough": 3000}

SIMPLE_VALUES = [5, None, [1, 2], {"k": 1}, {"a": {"z": 1}, "b": 2}, 0.5, True, {}]
SINGLE_FIELDS = [list(p) for p in itertools.product(R.KEYS, repeat=1)] + \
    [list(p) for p in itertools.product(R.KEYS, repeat=2)] + \
    [["a", "b", "c"], ["b", "c", "a"], ["c", "a", "a"], ["a", "a", "a", "a"]]
MULTI = [
    [["lit", "x_"], ["fld", ["a"]]],
    [["fld", ["a", "b"]], ["lit", "_"], ["fld", ["c"]]],
    [["fld", ["a"]], ["fld", ["b"]], ["fld", ["c"]]],
    [["fld", ["b", "a"]], ["lit", "-"], ["fld", ["a", "b", "c"]], ["lit", "-y"]],
    [["lit", ""]],
    [["lit", "lit"]],
]


def upd_specs():
    specs = [["simple", v] for v in SIMPLE_VALUES]
    # values that are not a dict or a list themselves but hold some (a tuple of cut ranges)
    specs += [["simpletuple", [[0, 1], [2, 3]]], ["simpletuple", [{"k": [1]}, 5]]]
    # user objects: hashable like every plain object, and mutable
    specs += [["simpleobj", "bare"], ["simpleobj", "in-tuple"], ["simpleobj", "in-dict"]]
    specs += [["str", [["fld", p]]] for p in SINGLE_FIELDS]
    specs += [["str", m] for m in MULTI]
    return specs


def cases(tier, seed):
    from rv import gen
    for i in range(NCTX[tier]):
        rng = gen.rng_for(seed, "C08", "addr", i)
        yield {"k": "addr", "ctx": R.rand_ctx(rng, 3 if i % 4 else 2)}
    yield {"k": "addr", "ctx": {}}
    # beyond the small sizes: items 5..300 levels deep, addressed in every notation
    for i, depth in enumerate([5, 17, 33, 63, 64, 65, 66, 100, 129, 200, 300]):
        rng = gen.rng_for(seed, "C08", "deep", i)
        path = [rng.choice(R.KEYS) for _ in range(depth)]
        leaf = rng.choice([1, "s", None, [1], {}])
        ctx = leaf
        for j, k in enumerate(reversed(path)):
            ctx = {k: ctx}
            if rng.random() < 0.3:
                other = [x for x in R.KEYS if x != k]
                ctx[rng.choice(other)] = rng.choice([0, "t", {"a": 1}])
        wrong = list(path)
        wrong[depth // 2] = [x for x in R.KEYS if x != path[depth // 2]][0]
        paths = [path, path[:depth // 2], path[:-1], path + ["a"], wrong, path[:3]]
        yield {"k": "addr", "ctx": ctx, "paths": paths, "deep": depth}
    yield {"k": "addr_dotted"}
    for i in range(6 if tier == "quick" else 60):
        rng = gen.rng_for(seed, "C08", "missing", i)
        yield {"k": "addr_missing", "ctx": R.rand_ctx(rng, 3)}
    yield {"k": "roundtrip"}
    for i in range(NFMT[tier]):
        rng = gen.rng_for(seed, "C08", "fmt", i)
        ctx = R.rand_ctx(rng, 3)
        yield {"k": "fmt", "ctx": ctx,
               "templates": [R.rand_template(rng, ctx) for _ in range(12)],
               "keys": [[rng.choice(R.KEYS) for _ in range(rng.randint(1, 3))]
                        for _ in range(3)]}
    subs = [p for p in R.all_paths(3) if p]
    specs = upd_specs()
    n = 0
    for rnd in range(NUPD_ROUNDS[tier]):
        for sub in subs:
            for spec in specs:
                rng = gen.rng_for(seed, "C08", "upd", n)
                n += 1
                ctxs = [R.rand_ctx(rng, 3) for _ in range(NUPD_CTX[tier])]
                # one context in which the subcontext and the source exist as dicts
                rich = R.rand_ctx(rng, 2)
                R.write(rich, sub, {"a": 1, "k": {"z": 0}}, True)
                if spec[0] == "str":
                    for f in R.fields(spec[1]):
                        if R.get(rich, f[1]) is R.ABSENT and rng.random() < 0.8:
                            try:
                                R.write(rich, f[1], R.cp(rng.choice(R.LEAVES + [{"a": [1]}])), True)
                            except TypeError:
                                pass
                ctxs.append(rich)
                ctxs.append({})
                ctxs.append(None)      # a value without context
                yield {"k": "upd", "sub": sub, "spec": spec, "ctxs": ctxs}
    for i in range(NTOSTR[tier]):
        rng = gen.rng_for(seed, "C08", "tostr", i)
        items = []
        for _ in range(6):
            d = R.rand_json(rng)
            items.append(d)
            items.append(R.mutate_json(rng, d))
        yield {"k": "tostr", "items": items, "shuffle_seed": rng.randint(0, 10 ** 9)}
    for fn in ["get_recursively", "format_context", "format_update_with", "UpdateContext",
               "DeleteContext", "to_string", "str_to_dict"]:
        yield {"k": "malformed", "fn": fn}


# ------------------------------------------------------------------ helpers
def nested(path, terminal):
    d = terminal
    for k in reversed(path):
        d = {k: d}
    return d


_worker_seen = {}
PER_WORKER = 3


class Ctl(object):
    """Per-case helper: exception contract + folded reporting."""

    def __init__(self, obs):
        import lena.core
        self.obs = obs
        self.lena_excs = (lena.core.LenaKeyError, lena.core.LenaTypeError,
                          lena.core.LenaValueError)
        self.seen = {}
        self.evals = 0
        self.contract = 0

    def fail(self, mech, msg):
        # one witness per mechanism and case, at most PER_WORKER per worker process (the
        # worker keeps only its first 200 violation records: every mechanism must fit in)
        n = self.seen.get(mech, 0)
        self.seen[mech] = n + 1
        if n == 0:
            _worker_seen[mech] = _worker_seen.get(mech, 0) + 1
            if _worker_seen[mech] <= PER_WORKER:
                self.obs.fail(mech, msg)
            else:
                self.obs.count("violating_cases_folded")

    def call(self, fname, shape, thunk, what):
        """Run thunk under the exception contract.
        -> ("ok", value) | (LenaXxxError name, exc) | ("foreign", exc)"""
        self.contract += 1
        try:
            return ("ok", thunk())
        except self.lena_excs as e:
            return (type(e).__name__, e)
        except Exception as e:  # pylint: disable=broad-except
            self.fail("%s-%s-%s" % (fname, type(e).__name__, shape),
                      "%s raised %s(%s); only LenaKeyError/LenaTypeError/LenaValueError may "
                      "escape" % (what(), type(e).__name__, str(e)[:200]))
            return ("foreign", e)

    def close(self):
        self.obs.count("oracle_evaluations", self.evals)
        self.obs.count("exception_contract_evals", self.contract)
        for mech, n in self.seen.items():
            if n > 1:
                self.obs.count("violating_checks_folded", n - 1)


class _Cut(object):
    """A user object given as an update value or a default: hashable (by identity, as any plain
    object) and mutable."""

    def __init__(self, lo=0, hi=1):
        self.range = [lo, hi]

    def __eq__(self, other):
        return type(other) is _Cut and other.range == self.range

    def __ne__(self, other):
        return not self == other

    __hash__ = object.__hash__

    def __repr__(self):
        return "_Cut(%r, %r)" % tuple(self.range)


def mids(v, acc):
    if type(v) is _Cut:
        acc.add(id(v))
        mids(v.range, acc)
    elif type(v) is dict:
        acc.add(id(v))
        for x in v.values():
            mids(x, acc)
    elif type(v) is list:
        acc.add(id(v))
        for x in v:
            mids(x, acc)
    elif isinstance(v, tuple):
        # immutable itself; what it holds may not be
        for x in v:
            mids(x, acc)
    return acc


def shares(a, b):
    ia = mids(a, set())
    return bool(ia) and bool(ia & mids(b, set()))


def run_case(r, obs):
    # import order: lena.flow first (UpdateContext relies on it; that is C20's concern)
    import lena.flow
    import lena.context
    import lena.core
    import lena.meta
    ctl = Ctl(obs)
    try:
        {"addr": run_addr, "addr_dotted": run_addr_dotted, "addr_missing": run_addr_missing,
         "roundtrip": run_roundtrip,
         "fmt": run_fmt, "upd": run_upd,
         "tostr": run_tostr, "malformed": run_malformed}[r["k"]](r, obs, ctl)
    finally:
        ctl.close()


# ------------------------------------------------------------------ addressing
def run_addr(r, obs, ctl):
    import lena.context as LC
    ctx = R.cp(r["ctx"])
    snap = repr(ctx)
    DEF = object()
    paths = [tuple(q) for q in r["paths"]] if r.get("paths") else \
        R.all_paths(4) + R.extra_paths(ctx)
    seen_shapes = set()
    for p in paths:
        exp = R.get(ctx, p)
        shp = R.shape(ctx, p)
        seen_shapes.add(shp)
        s = ".".join(p)
        forms = [("str", s), ("list", list(p))]
        if len(p) >= 1:
            forms.append(("dict-empty-terminal", nested(p, {})))
        if len(p) >= 2:
            forms.append(("dict-value-terminal", nested(p[:-1], p[-1])))
        if not p:
            forms.append(("dict", {}))
        for form, keys in forms:
            for with_default in (False, True):
                if with_default:
                    out = ctl.call("get_recursively", shp,
                                   lambda: LC.get_recursively(ctx, keys, DEF),
                                   lambda: "get_recursively(%r, %r, default)" % (ctx, keys))
                else:
                    out = ctl.call("get_recursively", shp,
                                   lambda: LC.get_recursively(ctx, keys),
                                   lambda: "get_recursively(%r, %r)" % (ctx, keys))
                obs.count("lookups")
                ctl.evals += 1
                if out[0] == "foreign":
                    continue
                if exp is R.ABSENT:
                    good = (out[0] == "ok" and out[1] is DEF) if with_default \
                        else out[0] == "LenaKeyError"
                else:
                    good = out[0] == "ok" and out[1] is exp
                if not good:
                    ctl.fail("get_recursively-wrong-result:%s:%s" % (form, shp),
                             "get_recursively(%r, %r%s) -> %s %r, reference lookup gives %r"
                             % (ctx, keys, ", default" if with_default else "", out[0],
                                out[1], exp))
        if p:
            # contains agrees with the lookup (+ stringified-leaf rule)
            expc = R.contains(ctx, p)
            out = ctl.call("contains", shp, lambda: LC.contains(ctx, s),
                           lambda: "contains(%r, %r)" % (ctx, s))
            obs.count("contains_calls")
            ctl.evals += 1
            if out[0] != "foreign" and not (out[0] == "ok" and out[1] is expc):
                ctl.fail("contains-disagrees-with-lookup:" + shp,
                         "contains(%r, %r) -> %s %r, lookup says %r"
                         % (ctx, s, out[0], out[1], expc))
        # DeleteContext in three key notations
        for form, key in (("str", s), ("list", list(p)), ("tuple", tuple(p))):
            c = R.cp(ctx)
            val = (["D"], c)
            out = ctl.call("DeleteContext", shp, lambda: LC.DeleteContext(key)(val),
                           lambda: "DeleteContext(%r) on context %r" % (key, ctx))
            obs.count("delete_calls")
            if out[0] == "foreign":
                continue
            if not p:
                # empty key: only the exception contract is demanded
                continue
            ctl.evals += 1
            expd = R.delete(R.cp(ctx), p)
            if out[0] != "ok":
                ctl.fail("DeleteContext-raises-%s:%s" % (out[0], shp),
                         "DeleteContext(%r) on %r raised %r; a missing key must be ignored"
                         % (key, ctx, out[1]))
            elif out[1] is not val or val[0] != ["D"]:
                ctl.fail("DeleteContext-changes-value",
                         "DeleteContext(%r) returned %r for value %r" % (key, out[1], val))
            elif c != expd:
                parent_gone = len(p) > 1 and R.get(c, p[:-1]) is R.ABSENT \
                    and R.get(expd, p[:-1]) is not R.ABSENT
                ctl.fail("DeleteContext-deletes-parent" if parent_gone
                         else "DeleteContext-wrong-context:" + shp,
                         "DeleteContext(%r) on %r left %r, expected %r" % (key, ctx, c, expd))
    # a value without context passes unchanged
    out = ctl.call("DeleteContext", "no-context", lambda: LC.DeleteContext("a.b")(5),
                   lambda: "DeleteContext('a.b')(5)")
    if out[0] != "foreign" and not (out[0] == "ok" and out[1] == 5):
        ctl.fail("DeleteContext-changes-value", "DeleteContext('a.b')(5) -> %r" % (out,))
    ctl.evals += 1
    if repr(ctx) != snap:
        ctl.fail("read-only-function-changes-context",
                 "get_recursively/contains changed the context %s -> %r" % (snap, ctx))
    obs.nontrivial = "present" in seen_shapes and len(seen_shapes) >= 3


DOTTED_CTXS = [
    {"output.filename": "flat", "output": {"filename": "nested", "k": {"z": 1}}, "a": 1},
    {"a.b": 5, "k": 0},
    {"a.b.c": "flat", "a": {"b.c": "half", "b": {"c": "nested"}}},
    {"a": {"b.c": 1, "b": {"c": 2}}},
    {"a.b": {"c": 1}, "a": {"b": {"c": 2}}},
    {"input": {"run1.root": {"n": 1}, "run1": {"root": 5}}, "k": 0},
    {"a": {"b.c": {"d.e": [1]}}, "a.b.c": 7},
]
DOTTED_PATHS = [["a", "b.c"], ["a.b", "c"], ["a.b"], ["a", "b", "c"], ["input", "run1.root"],
                ["input", "run1.root", "n"], ["input", "run1", "root"], ["a", "x.y"],
                ["a", "b.c", "d.e"], ["a.b.c"], ["k", "z.z"], ["output.filename"],
                ["output", "filename"], ["output", "k"]]


def run_addr_dotted(r, obs, ctl):
    """Keys that contain a dot (file names are typical) have no dotted-string notation, but
    a list / tuple of keys and a one-key-per-level dictionary name them unambiguously."""
    import lena.context as LC
    obs.nontrivial = True
    for ctx0 in DOTTED_CTXS:
        for p in DOTTED_PATHS:
            ctx = R.cp(ctx0)
            exp = R.get(ctx, p)
            forms = [("list", list(p)), ("dict-empty-terminal", nested(p, {}))]
            if len(p) >= 2:
                forms.append(("dict-value-terminal", nested(p[:-1], p[-1])))
            for form, keys in forms:
                out = ctl.call("get_recursively", "dotted-component",
                               lambda: LC.get_recursively(ctx, keys),
                               lambda: "get_recursively(%r, %r)" % (ctx, keys))
                obs.count("lookups")
                ctl.evals += 1
                if out[0] == "foreign":
                    continue
                good = out[0] == "LenaKeyError" if exp is R.ABSENT else \
                    (out[0] == "ok" and out[1] is exp)
                if not good:
                    ctl.fail("get_recursively-wrong-result:%s:dotted-component" % form,
                             "get_recursively(%r, %r) -> %s %r, reference lookup gives %r"
                             % (ctx, keys, out[0], out[1], exp))
            # the dotted string made of the same characters always names the nested item (one
            # key per dot-separated part), whatever keys with dots exist beside it
            s = ".".join(p)
            sp = s.split(".")
            exp_s = R.get(ctx, sp)
            out = ctl.call("get_recursively", "dotted-string-beside-dotted-key",
                           lambda: LC.get_recursively(ctx, s),
                           lambda: "get_recursively(%r, %r)" % (ctx, s))
            obs.count("lookups")
            ctl.evals += 1
            if out[0] != "foreign":
                good = out[0] == "LenaKeyError" if exp_s is R.ABSENT else \
                    (out[0] == "ok" and out[1] is exp_s)
                if not good:
                    ctl.fail("get_recursively-wrong-result:string:dotted-key-beside",
                             "get_recursively(%r, %r) -> %s %r, the item addressed by the keys %r "
                             "is %r" % (ctx, s, out[0], out[1], sp, exp_s))
            out = ctl.call("contains", "dotted-string-beside-dotted-key",
                           lambda: LC.contains(ctx, s), lambda: "contains(%r, %r)" % (ctx, s))
            obs.count("contains_calls")
            ctl.evals += 1
            if out[0] == "ok" and bool(out[1]) != (exp_s is not R.ABSENT):
                ctl.fail("contains-disagrees-with-get_recursively:dotted-key-beside",
                         "contains(%r, %r) = %r, the item addressed by %r is %r"
                         % (ctx, s, out[1], sp, exp_s))
            if not isinstance(exp_s, dict):
                cfmt = R.cp(ctx0)
                out = ctl.call("format_context", "dotted-string-beside-dotted-key",
                               lambda: LC.format_context("{{" + s + "}}")(cfmt),
                               lambda: "format_context('{{%s}}')(%r)" % (s, cfmt))
                ctl.evals += 1
                if out[0] != "foreign":
                    good = out[0] == "LenaKeyError" if exp_s is R.ABSENT else \
                        (out[0] == "ok" and out[1] == str(exp_s))
                    if not good:
                        ctl.fail("format_context-wrong-item:dotted-key-beside",
                                 "format_context('{{%s}}') on %r -> %r, the addressed item is %r"
                                 % (s, cfmt, out, exp_s))
            cu = R.cp(ctx0)
            valu = (["D"], cu)
            out = ctl.call("UpdateContext", "dotted-string-beside-dotted-key",
                           lambda: LC.UpdateContext("zz", "{{" + s + "}}", value=True,
                                                    default="DFLT")(valu),
                           lambda: "UpdateContext('zz', '{{%s}}', value=True, default='DFLT') "
                                   "on %r" % (s, ctx0))
            obs.count("update_calls")
            ctl.evals += 1
            if out[0] != "foreign":
                want = "DFLT" if exp_s is R.ABSENT else exp_s
                if out[0] != "ok" or cu.get("zz") != want:
                    ctl.fail("UpdateContext-wrong-value:value:dotted-key-beside",
                             "UpdateContext('zz', '{{%s}}', value=True, default='DFLT') on %r "
                             "gives %r, the addressed item is %r" % (s, ctx0, cu, exp_s))
            for form, key in (("list", list(p)), ("tuple", tuple(p))):
                c = R.cp(ctx0)
                val = (["D"], c)
                out = ctl.call("DeleteContext", "dotted-component",
                               lambda: LC.DeleteContext(key)(val),
                               lambda: "DeleteContext(%r) on context %r" % (key, ctx0))
                obs.count("delete_calls")
                ctl.evals += 1
                if out[0] == "foreign":
                    continue
                expd = R.delete(R.cp(ctx0), p)
                if out[0] != "ok":
                    ctl.fail("DeleteContext-raises-%s:dotted-component" % out[0],
                             "DeleteContext(%r) on %r raised %r" % (key, ctx0, out[1]))
                elif c != expd or out[1] is not val:
                    ctl.fail("DeleteContext-wrong-context:dotted-component",
                             "DeleteContext(%r) (a %s of keys, one of which contains a dot) on "
                             "%r left %r, expected %r" % (key, form, ctx0, c, expd))


def _to_dd(v):
    """The same tree made of collections.defaultdict (a dict subclass with __missing__: a
    look-up of an absent key by d[key] would create it)."""
    import collections
    if isinstance(v, dict):
        d = collections.defaultdict(dict)
        for k, x in v.items():
            d[k] = _to_dd(x)
        return d
    if isinstance(v, list):
        return [_to_dd(x) for x in v]
    return v


def _plain(v):
    if isinstance(v, dict):
        return {k: _plain(x) for k, x in v.items()}
    if isinstance(v, list):
        return [_plain(x) for x in v]
    return v


def run_addr_missing(r, obs, ctl):
    """Contexts that are dict subclasses with __missing__ (defaultdict, Counter, auto-vivifying
    trees): an absent item is absent, and asking for it does not create it."""
    import lena.context as LC
    plain = R.cp(r["ctx"])
    DEF = object()
    obs.nontrivial = True
    for p in R.all_paths(3) + R.extra_paths(plain):
        if not p:
            continue
        exp = R.get(plain, p)
        s = ".".join(p)
        for form, keys in (("str", s), ("list", list(p)), ("dict", nested(p, {}))):
            for with_default in (False, True):
                ctx = _to_dd(plain)
                if with_default:
                    out = ctl.call("get_recursively", "defaultdict",
                                   lambda: LC.get_recursively(ctx, keys, DEF),
                                   lambda: "get_recursively(defaultdict %r, %r, default)"
                                   % (plain, keys))
                else:
                    out = ctl.call("get_recursively", "defaultdict",
                                   lambda: LC.get_recursively(ctx, keys),
                                   lambda: "get_recursively(defaultdict %r, %r)" % (plain, keys))
                obs.count("lookups")
                ctl.evals += 1
                if out[0] == "foreign":
                    continue
                if exp is R.ABSENT:
                    good = (out[0] == "ok" and out[1] is DEF) if with_default \
                        else out[0] == "LenaKeyError"
                else:
                    good = out[0] == "ok" and _plain(out[1]) == exp
                if not good:
                    ctl.fail("get_recursively-wrong-result:%s:dict-subclass-with-__missing__"
                             % form,
                             "get_recursively(<defaultdict tree of %r>, %r%s) -> %s %r, the item "
                             "is %s" % (plain, keys, ", default" if with_default else "",
                                        out[0], out[1],
                                        "absent" if exp is R.ABSENT else repr(exp)))
                if _plain(ctx) != plain:
                    ctl.fail("look-up-creates-items:dict-subclass-with-__missing__",
                             "get_recursively(<defaultdict tree of %r>, %r) changed the context "
                             "to %r" % (plain, keys, _plain(ctx)))
        ctx = _to_dd(plain)
        out = ctl.call("contains", "defaultdict", lambda: LC.contains(ctx, s),
                       lambda: "contains(defaultdict %r, %r)" % (plain, s))
        ctl.evals += 1
        if out[0] != "foreign":
            if not (out[0] == "ok" and out[1] is R.contains(plain, p)) or _plain(ctx) != plain:
                ctl.fail("contains-disagrees-with-lookup:dict-subclass-with-__missing__",
                         "contains(<defaultdict tree of %r>, %r) -> %r (context afterwards %r), "
                         "lookup says %r" % (plain, s, out, _plain(ctx), R.contains(plain, p)))
        ctx = _to_dd(plain)
        val = (["D"], ctx)
        out = ctl.call("DeleteContext", "defaultdict", lambda: LC.DeleteContext(s)(val),
                       lambda: "DeleteContext(%r) on defaultdict %r" % (s, plain))
        ctl.evals += 1
        if out[0] != "foreign":
            expd = R.delete(R.cp(plain), p)
            if out[0] != "ok" or _plain(ctx) != expd:
                ctl.fail("DeleteContext-wrong-context:dict-subclass-with-__missing__",
                         "DeleteContext(%r) on <defaultdict tree of %r> -> %s, context %r, "
                         "expected %r" % (s, plain, out[0], _plain(ctx), expd))
        # a formatter over an absent field
        ctx = _to_dd(plain)
        ts = "x{{%s}}y" % s
        out = ctl.call("format_context", "defaultdict", lambda: LC.format_context(ts)(ctx),
                       lambda: "format_context(%r)(defaultdict %r)" % (ts, plain))
        ctl.evals += 1
        if out[0] != "foreign":
            if exp is R.ABSENT:
                good = out[0] == "LenaKeyError"
            else:
                item = ctx
                for kk in p:
                    item = dict.__getitem__(item, kk)      # never through __missing__
                good = out[0] == "ok" and out[1] == "x{}y".format(item)
            if not good or _plain(ctx) != plain:
                ctl.fail("format_context-wrong:dict-subclass-with-__missing__",
                         "format_context(%r)(<defaultdict tree of %r>) -> %r, context afterwards "
                         "%r" % (ts, plain, out, _plain(ctx)))


def run_roundtrip(r, obs, ctl):
    import lena.context as LC
    obs.nontrivial = True
    vals = [object(), 5, None, {"q": 1}, [1], "s", {}, 0, ""]
    for p in R.all_paths(4):
        s = ".".join(p)
        out = ctl.call("str_to_list", "proper", lambda: LC.str_to_list(s),
                       lambda: "str_to_list(%r)" % s)
        ctl.evals += 1
        if out[0] != "foreign" and not (out[0] == "ok" and out[1] == p):
            ctl.fail("str_to_list-wrong", "str_to_list(%r) -> %r" % (s, out))
        if not p:
            continue
        for v in vals:
            out = ctl.call("str_to_dict", "proper", lambda: LC.str_to_dict(s, v),
                           lambda: "str_to_dict(%r, %r)" % (s, v))
            ctl.evals += 3
            if out[0] == "foreign":
                continue
            if out[0] != "ok":
                ctl.fail("str_to_dict-rejects-proper-key", "str_to_dict(%r, %r) raised %r"
                         % (s, v, out[1]))
                continue
            d = out[1]
            if d != nested(p, v) or R.get(d, p) is not v:
                ctl.fail("str_to_dict-wrong-dictionary", "str_to_dict(%r, %r) = %r" % (s, v, d))
            for keys in (s, list(p)):
                g = ctl.call("get_recursively", "present", lambda: LC.get_recursively(d, keys),
                             lambda: "get_recursively(str_to_dict(%r, v), %r)" % (s, keys))
                obs.count("lookups")
                if g[0] != "foreign" and not (g[0] == "ok" and g[1] is v):
                    ctl.fail("str_to_dict-roundtrip-not-identical",
                             "get_recursively(str_to_dict(%r, %r), %r) -> %r" % (s, v, keys, g))
        if len(p) >= 2:
            out = ctl.call("str_to_dict", "proper", lambda: LC.str_to_dict(s),
                           lambda: "str_to_dict(%r)" % s)
            ctl.evals += 1
            if out[0] != "foreign" and not (out[0] == "ok" and out[1] == nested(p[:-1], p[-1])):
                ctl.fail("str_to_dict-wrong-dictionary", "str_to_dict(%r) -> %r" % (s, out))


# ------------------------------------------------------------------ formatting
def run_fmt(r, obs, ctl):
    import lena.context as LC
    import lena.meta
    ctx = R.cp(r["ctx"])
    snap = repr(ctx)
    n_ok = n_abs = 0
    for ti, pieces in enumerate(r["templates"]):
        ts = R.template_str(pieces)
        exp = R.render_format(pieces, ctx)
        flds = R.fields(pieces)
        shp = "all-present" if exp is not R.ABSENT else \
            "field-" + next(R.shape(ctx, f[1]) for f in flds if R.get(ctx, f[1]) is R.ABSENT)
        mk = ctl.call("format_context", "construction", lambda: LC.format_context(ts),
                      lambda: "format_context(%r)" % ts)
        ctl.evals += 1
        if mk[0] == "foreign":
            continue
        if mk[0] != "ok":
            ctl.fail("format_context-rejects-wellformed-template",
                     "format_context(%r) raised %r" % (ts, mk[1]))
            continue
        out = ctl.call("format_context", shp, lambda: mk[1](ctx),
                       lambda: "format_context(%r)(%r)" % (ts, ctx))
        obs.count("renderings")
        ctl.evals += 1
        if out[0] != "foreign":
            if exp is R.ABSENT:
                n_abs += 1
                if out[0] != "LenaKeyError":
                    ctl.fail("format_context-missing-field-not-LenaKeyError:" + shp,
                             "format_context(%r)(%r) -> %r although a field is absent"
                             % (ts, ctx, out))
            else:
                n_ok += 1
                if not (out[0] == "ok" and out[1] == exp and type(out[1]) is str):
                    ctl.fail("format_context-wrong-rendering",
                             "format_context(%r)(%r) -> %r, expected %r" % (ts, ctx, out, exp))
        # the same formatter object used again (elements build it once and call it for every
        # value of a flow): each call renders its own context, whatever the earlier calls met
        if out[0] != "foreign" and flds:
            stripped = R.cp(ctx)
            top = flds[0][1][0] if flds[0][1] else None
            if isinstance(stripped, dict) and top in stripped:
                del stripped[top]
            for c2 in ({}, ctx, stripped, ctx, {"unrelated": 1}, ctx):
                exp2 = R.render_format(pieces, c2)
                c2c = R.cp(c2)
                out2 = ctl.call("format_context", "formatter-reused", lambda: mk[1](c2c),
                                lambda: "format_context(%r) reused on %r" % (ts, c2))
                obs.count("renderings_by_a_reused_formatter")
                ctl.evals += 1
                if out2[0] == "foreign":
                    break
                good = (out2[0] == "LenaKeyError") if exp2 is R.ABSENT else \
                    (out2[0] == "ok" and out2[1] == exp2)
                if not good:
                    ctl.fail("format_context-reused-formatter-wrong",
                             "f = format_context(%r); after f was applied to other contexts "
                             "(some without the fields), f(%r) -> %r, expected %s"
                             % (ts, c2, out2, "LenaKeyError" if exp2 is R.ABSENT else repr(exp2)))
                    break
        # ... also when consecutive contexts hold items that compare equal but are rendered
        # differently (1, True, 1.0), or one context whose item was changed in place
        if out[0] != "foreign" and flds and exp is not R.ABSENT:
            fpath = flds[0][1]
            v0 = R.get(ctx, fpath)
            twins = []
            if isinstance(v0, bool):
                twins = [int(v0), float(v0)]
            elif isinstance(v0, int):
                twins = [float(v0)] + ([bool(v0)] if v0 in (0, 1) else [])
            elif isinstance(v0, float) and v0 == int(v0):
                twins = [int(v0)]
            for tw in twins:
                c2 = R.cp(ctx)
                R.write(c2, fpath, tw, False)
                seq_ctx = [ctx, c2, ctx, c2]
                for cc in seq_ctx:
                    expc = R.render_format(pieces, cc)
                    o3 = ctl.call("format_context", "formatter-reused", lambda: mk[1](R.cp(cc)),
                                  lambda: "format_context(%r) reused on %r" % (ts, cc))
                    obs.count("renderings_by_a_reused_formatter")
                    ctl.evals += 1
                    if o3[0] == "foreign":
                        break
                    if not (o3[0] == "ok" and o3[1] == expc):
                        ctl.fail("format_context-reused-formatter-wrong:equal-items-rendered-"
                                 "differently",
                                 "f = format_context(%r) applied in turn to contexts whose item "
                                 "%r is %r and %r: f(%r) -> %r, expected %r"
                                 % (ts, ".".join(fpath), v0, tw, cc, o3, expc))
                        break
            if isinstance(v0, (list, dict)):
                c3 = R.cp(ctx)
                first = ctl.call("format_context", "formatter-reused", lambda: mk[1](c3),
                                 lambda: "format_context(%r)(%r)" % (ts, c3))
                item = R.get(c3, fpath)
                if isinstance(item, list):
                    item.append("more")
                else:
                    item["more"] = 1
                expc = R.render_format(pieces, c3)
                o3 = ctl.call("format_context", "formatter-reused", lambda: mk[1](c3),
                              lambda: "format_context(%r)(%r)" % (ts, c3))
                ctl.evals += 1
                if first[0] == "ok" and o3[0] != "foreign" and \
                        not (o3[0] == "ok" and o3[1] == expc):
                    ctl.fail("format_context-reused-formatter-wrong:item-changed-in-place",
                             "f = format_context(%r); f(c); the item %r of c changed in place; "
                             "f(c) -> %r, expected %r" % (ts, ".".join(fpath), o3, expc))
        # format_update_with / SetContext with the same template as value
        key = r["keys"][ti % len(r["keys"])]
        ks = ".".join(key)
        value_exp = exp if flds else ts
        for user in ("format_update_with", "SetContext"):
            d = R.cp(ctx)
            if user == "format_update_with":
                out = ctl.call(user, shp, lambda: LC.format_update_with(ks, ts, d),
                               lambda: "format_update_with(%r, %r, %r)" % (ks, ts, ctx))
                got = d
            else:
                def thunk():
                    el = lena.meta.SetContext(ks, ts)
                    el._set_context(d)
                    return el._get_context()
                out = ctl.call(user, shp, thunk,
                               lambda: "SetContext(%r, %r)._set_context(%r)" % (ks, ts, ctx))
                got = out[1] if out[0] == "ok" else d
            obs.count("update_calls")
            ctl.evals += 1
            if out[0] == "foreign":
                continue
            if value_exp is R.ABSENT:
                if out[0] != "LenaKeyError":
                    ctl.fail("%s-missing-field-not-LenaKeyError:%s" % (user, shp),
                             "%s(%r, %r) on %r -> %r although a field is absent"
                             % (user, ks, ts, ctx, out))
                elif d != ctx:
                    ctl.fail(user + "-changes-context-on-error",
                             "%s(%r, %r) raised LenaKeyError but changed %r to %r"
                             % (user, ks, ts, ctx, d))
            else:
                expd = R.write(R.cp(ctx), key, value_exp, True)
                if out[0] != "ok":
                    ctl.fail("%s-raises-%s:%s" % (user, out[0], shp),
                             "%s(%r, %r) on %r raised %r" % (user, ks, ts, ctx, out[1]))
                elif got != expd:
                    ctl.fail(user + "-wrong-context",
                             "%s(%r, %r) on %r gives %r, expected %r"
                             % (user, ks, ts, ctx, got, expd))
    # non-template values: set as they are (merged recursively)
    for key in r["keys"]:
        ks = ".".join(key)
        for v in [5, None, {"z": 1}, {"a": {"z": [1]}}, "plain", "", [1]]:
            d = R.cp(ctx)
            out = ctl.call("format_update_with", "plain-value",
                           lambda: LC.format_update_with(ks, R.cp(v), d),
                           lambda: "format_update_with(%r, %r, %r)" % (ks, v, ctx))
            obs.count("update_calls")
            ctl.evals += 1
            expd = R.write(R.cp(ctx), key, R.cp(v), True)
            if out[0] != "foreign" and not (out[0] == "ok" and d == expd):
                ctl.fail("format_update_with-wrong-context",
                         "format_update_with(%r, %r) on %r gives %r (%s), expected %r"
                         % (ks, v, ctx, d, out[0], expd))
    ctl.evals += 1
    if repr(ctx) != snap:
        ctl.fail("read-only-function-changes-context",
                 "format_context changed the context %s -> %r" % (snap, ctx))
    obs.nontrivial = n_ok > 0 and n_abs > 0


# ------------------------------------------------------------------ UpdateContext
UNSET = object()


def _json_invisible_variant(c):
    """The context with every list replaced by a tuple and every dictionary's keys inserted in
    the opposite order; None if that changes nothing."""
    changed = [False]

    def conv(v):
        if isinstance(v, dict):
            if len(v) > 1:
                changed[0] = True
            return dict((k, conv(v[k])) for k in reversed(list(v)))
        if isinstance(v, list):
            changed[0] = True
            return tuple(conv(x) for x in v)
        return v
    out = conv(c)
    return out if changed[0] else None
_combo = [0]


def run_upd(r, obs, ctl):
    import lena.context as LC
    import lena.core
    sub, spec, ctxs = r["sub"], r["spec"], r["ctxs"]
    if spec[0] == "simpletuple":
        spec = ["simple", tuple(R.cp(x) for x in spec[1])]
    if spec[0] == "simpleobj":
        spec = ["simple", {"bare": _Cut(), "in-tuple": (_Cut(1, 2), 5),
                           "in-dict": {"cut": _Cut(2, 3)}}[spec[1]]]
    substr = ".".join(sub)
    if spec[0] == "simple":
        pieces, flds, single = None, [], False
    else:
        pieces = spec[1]
        flds = R.fields(pieces)
        single = len(pieces) == 1 and pieces[0][0] == "fld"
    changed_any = False
    for value, (dname, dflt), skip, rais, rec in itertools.product(
            (False, True), (("unset", UNSET), ("scalar", 7), ("dict", {"d": [1]}),
                            ("object", (_Cut(5, 6), "u"))),
            (False, True), (False, True), (True, False)):
        n_active = int(dflt is not UNSET) + int(skip) + int(rais)
        if spec[0] == "simple":
            kind = "simple"
            legal = n_active == 0
            unspecified = value and legal       # value=True with a non-string update
            update_obj = R.cp(spec[1])
        else:
            update_obj = R.template_str(pieces)
            unspecified = False
            if value and single:
                kind, legal = "value", n_active <= 1
            elif value:
                kind, legal = "value-malformed", False
            else:
                kind, legal = "format", n_active <= 1 and dflt is UNSET
        kwargs = {"value": value, "skip_on_missing": skip, "raise_on_missing": rais,
                  "recursively": rec}
        dflt_obj = None
        if dflt is not UNSET:
            dflt_obj = R.cp(dflt)
            kwargs["default"] = dflt_obj
        config = "default" if dflt is not UNSET else "skip" if skip else \
            "raise" if rais else "none"
        desc = "UpdateContext(%r, %r, %s)" % (
            substr, update_obj, ", ".join("%s=%r" % kv for kv in sorted(kwargs.items())))
        mk = ctl.call("UpdateContext", "construction-" + kind,
                      lambda: LC.UpdateContext(substr, update_obj, **kwargs), lambda: desc)
        ctl.evals += 1
        if mk[0] == "foreign":
            continue
        if not legal:
            obs.count("illegal_option_combinations")
            if mk[0] != "LenaValueError":
                ctl.fail("UpdateContext-illegal-options-accepted:%s:%s"
                         % (kind, "several-missing-policies" if n_active > 1 else config),
                         "%s -> %r, documented: LenaValueError" % (desc, mk))
            continue
        if mk[0] != "ok":
            if unspecified and mk[0] == "LenaValueError":
                continue
            ctl.fail("UpdateContext-legal-options-rejected:%s:%s" % (kind, config),
                     "%s raised %r" % (desc, mk[1]))
            continue
        el = mk[1]
        # every third configuration is used through a deep copy, every third through a pickle
        # round trip (elements are copied by SplitIntoBins / MapBins / Vectorize / Split and
        # sent to worker processes): a copy is the same element
        _combo[0] += 1
        if _combo[0] % 3:
            made = None
            if _combo[0] % 3 == 2:
                try:
                    made = pickle.loads(pickle.dumps(el))
                    desc = "unpickled " + desc
                    obs.count("update_elements_unpickled")
                except Exception:  # pylint: disable=broad-except
                    made = None
            if made is None:
                try:
                    made = copy.deepcopy(el)
                    desc = "deep copy of " + desc
                    obs.count("update_elements_deep_copied")
                except Exception:  # pylint: disable=broad-except
                    # a compiled jinja2 template inside: neither picklable nor copyable
                    obs.count("update_elements_not_copyable")
            if made is not None:
                el = made
        prev_ids = set()
        ctxs_here = list(ctxs)
        if kind in ("format", "value"):
            # the same element then meets contexts that differ from earlier ones only in ways a
            # JSON dump cannot show: a tuple where a list was, another key order of a rendered
            # sub-dictionary
            for cx in ctxs:
                if cx:
                    v1 = _json_invisible_variant(cx)
                    if v1 is not None:
                        ctxs_here.append(v1)
        for ctx in ctxs_here:
            data = ["D"]
            c = R.cp(ctx) if ctx is not None else None
            value_in = (data, c) if c is not None else data
            before = R.cp(c) if c is not None else {}
            # ---- expectation
            src_shape = "no-source"
            if kind == "simple":
                action, val = "write", R.cp(update_obj)
            elif kind == "value":
                src = R.get(before, flds[0][1])
                src_shape = "source-" + R.shape(before, flds[0][1])
                if src is R.ABSENT:
                    obs.count("missing_key_configurations")
                    if dflt is not UNSET:
                        action, val = "write", R.cp(dflt)
                    elif skip:
                        action, val = "skip", None
                    else:
                        action, val = "keyerror", None
                else:
                    action, val = "write", R.cp(src)
            else:
                text, missing = R.render_jinja(pieces, before)
                if missing:
                    obs.count("missing_key_configurations")
                    src_shape = "source-" + next(
                        R.shape(before, f[1]) for f in flds
                        if R.get(before, f[1]) is R.ABSENT)
                elif flds:
                    src_shape = "source-present"
                if missing and rais:
                    action, val = "keyerror", None
                elif missing and skip:
                    action, val = "skip", None
                else:
                    action, val = "write", text
            out = ctl.call("UpdateContext", "%s-%s" % (kind, src_shape),
                           lambda: el(value_in),
                           lambda: "%s on context %r" % (desc, ctx))
            obs.count("update_calls")
            ctl.evals += 1
            if out[0] == "foreign":
                continue
            tag = "%s:%s" % (kind, config)
            if action == "keyerror":
                if out[0] != "LenaKeyError":
                    ctl.fail("UpdateContext-missing-not-handled-as-configured:" + tag,
                             "%s on %r -> %r, expected LenaKeyError" % (desc, ctx, out))
                elif c is not None and c != before:
                    ctl.fail("UpdateContext-changes-context-on-error",
                             "%s on %r raised LenaKeyError but left %r" % (desc, ctx, c))
                continue
            if out[0] != "ok":
                ctl.fail("UpdateContext-missing-not-handled-as-configured:" + tag
                         if out[0] == "LenaKeyError" else
                         "UpdateContext-raises-%s:%s" % (out[0], tag),
                         "%s on %r raised %r, expected action %s" % (desc, ctx, out[1], action))
                continue
            res = out[1]
            if action == "skip":
                same_pair = (c is not None and isinstance(res, tuple) and len(res) == 2
                             and res[0] is data and res[1] == before)
                if not (res is value_in or same_pair) or (c is not None and c != before):
                    ctl.fail("UpdateContext-missing-not-handled-as-configured:" + tag,
                             "%s on %r must skip the update, returned %r" % (desc, ctx, res))
                continue
            if not (isinstance(res, tuple) and len(res) == 2 and isinstance(res[1], dict)):
                ctl.fail("UpdateContext-result-not-a-pair", "%s on %r returned %r"
                         % (desc, ctx, res))
                continue
            if res[0] is not data or data != ["D"]:
                ctl.fail("UpdateContext-changes-data", "%s on %r: data part is %r"
                         % (desc, ctx, res[0]))
            got = res[1]
            expd = R.write(R.cp(before), sub, R.cp(val), rec)
            ctl.evals += 3
            if got != expd:
                alt = R.write(R.cp(before), sub, R.cp(val), not rec)
                if got == alt:
                    mech = "UpdateContext-ignores-recursively:%s:%s" % (
                        kind, "recursively" if rec else "nonrecursive")
                elif R.get(got, sub) is R.ABSENT:
                    mech = "UpdateContext-subcontext-not-created:" + kind
                elif R.get(got, sub) != R.get(expd, sub):
                    mech = "UpdateContext-wrong-value:%s:%s" % (kind, config)
                else:
                    mech = "UpdateContext-touches-other-items:" + kind
                ctl.fail(mech, "%s on %r gives %r, expected %r" % (desc, ctx, got, expd))
            elif got != before:
                changed_any = True
            # ---- aliasing: the installed value is a deep copy
            if kind == "simple" and shares(got, update_obj):
                ctl.fail("UpdateContext-aliases-update-value",
                         "%s: the context %r shares a mutable object with the update "
                         "argument" % (desc, got))
            if dflt_obj is not None and shares(got, dflt_obj):
                ctl.fail("UpdateContext-aliases-default",
                         "%s: the context %r shares a mutable object with the default"
                         % (desc, got))
            if kind == "value":
                sp = flds[0][1]
                disjoint = sp[:len(sub)] != sub[:len(sp)]
                tgt, srcv = R.get(got, sub), R.get(got, sp)
                if disjoint and srcv is not R.ABSENT and tgt is not R.ABSENT \
                        and shares(tgt, srcv):
                    ctl.fail("UpdateContext-aliases-context-item",
                             "%s on %r: item %r and its source %r share a mutable object"
                             % (desc, ctx, sub, sp))
            ids = mids(got, set())
            if ids & prev_ids:
                ctl.fail("UpdateContext-aliases-between-values",
                         "%s: two different values' contexts share a mutable object after "
                         "the update (%r)" % (desc, got))
            prev_ids = ids
    obs.nontrivial = changed_any


# ------------------------------------------------------------------ to_string
def run_tostr(r, obs, ctl):
    import random
    import lena.context as LC
    obs.nontrivial = True
    rng = random.Random(r["shuffle_seed"])
    items = r["items"]
    strs = []
    for d in items:
        out = ctl.call("to_string", "json-native", lambda: LC.to_string(d),
                       lambda: "to_string(%r)" % (d,))
        ctl.evals += 1
        if out[0] == "foreign":
            strs.append(None)
            continue
        if out[0] != "ok" or not isinstance(out[1], str):
            ctl.fail("to_string-rejects-serializable", "to_string(%r) -> %r" % (d, out))
            strs.append(None)
            continue
        strs.append(out[1])
        for _ in range(3):
            e = R.shuffled(rng, d)
            o2 = ctl.call("to_string", "json-native", lambda: LC.to_string(e),
                          lambda: "to_string(%r)" % (e,))
            ctl.evals += 1
            if o2[0] == "ok" and o2[1] != out[1]:
                ctl.fail("to_string-depends-on-key-order",
                         "to_string(%r) = %r but with keys in the order %r it is %r"
                         % (d, out[1], e, o2[1]))
    # keys of types that cannot be ordered with each other (a str beside an int / None): the
    # dictionary has no canonical form - to_string may refuse it (LenaValueError) but must not
    # return strings that depend on the order of the keys
    for d in items:
        if not isinstance(d, dict) or not d:
            continue
        extra = rng.choice([1, None, 2.5, 0])
        where = rng.choice(["top", "nested"])
        m = R.cp(d)
        if where == "top":
            m[extra] = "x"
        else:
            m["nest"] = {"s": 1, extra: 2, "t": {"a": 1, "b": 2}}
        outs = []
        for _ in range(4):
            e = R.shuffled(rng, m)
            o = ctl.call("to_string", "mixed-type-keys", lambda: LC.to_string(e),
                         lambda: "to_string(%r)" % (e,))
            ctl.evals += 1
            obs.count("to_string_mixed_key_calls")
            if o[0] == "ok":
                outs.append((o[1], e))
        if len(set(x[0] for x in outs)) > 1:
            ctl.fail("to_string-depends-on-key-order:mixed-type-keys",
                     "equal dictionaries with keys of mixed types: to_string(%r) = %r but "
                     "to_string(%r) = %r" % (outs[0][1], outs[0][0],
                                             [x for x in outs if x[0] != outs[0][0]][0][1],
                                             [x for x in outs if x[0] != outs[0][0]][0][0]))
    for i in range(len(items)):
        for j in range(i + 1, len(items)):
            if strs[i] is None or strs[j] is None:
                continue
            same = R.canon(items[i]) == R.canon(items[j])
            obs.count("to_string_pairs")
            ctl.evals += 1
            if (strs[i] == strs[j]) != same:
                ctl.fail("to_string-not-injective" if not same else "to_string-not-canonical",
                         "to_string(%r) = %r, to_string(%r) = %r"
                         % (items[i], strs[i], items[j], strs[j]))


# ------------------------------------------------------------------ malformed arguments
def expect_exc(ctl, obs, fname, shape, thunk, what, allowed):
    out = ctl.call(fname, shape, thunk, lambda: what)
    ctl.evals += 1
    obs.count("malformed_arguments")
    if out[0] == "foreign":
        return
    if out[0] not in allowed:
        ctl.fail("%s-malformed-argument-%s:%s"
                 % (fname, "accepted" if out[0] == "ok" else "raises-" + out[0], shape),
                 "%s -> %r, documented: %s" % (what, out, " or ".join(allowed)))


def run_malformed(r, obs, ctl):
    import lena.context as LC
    obs.nontrivial = True
    fn = r["fn"]
    TE, VE, KE = "LenaTypeError", "LenaValueError", "LenaKeyError"
    ctx = {"a": {"b": 5}, "b": "x"}
    if fn == "get_recursively":
        for d in [None, 5, "s", [1], ("a",)]:
            expect_exc(ctl, obs, fn, "d-" + R.tname(d), lambda: LC.get_recursively(d, "a"),
                       "get_recursively(%r, 'a')" % (d,), [TE])
        for keys in [5, None, ("a",), {"a"}, 1.5]:
            expect_exc(ctl, obs, fn, "keys-" + R.tname(keys),
                       lambda: LC.get_recursively(R.cp(ctx), keys),
                       "get_recursively(ctx, %r)" % (keys,), [TE])
        for keys in [["a", 5], [None], [["a"]]]:
            expect_exc(ctl, obs, fn, "keys-list-with-non-string",
                       lambda: LC.get_recursively(R.cp(ctx), keys),
                       "get_recursively(ctx, %r)" % (keys,), [TE])
        for keys in [{"a": 1, "b": 2}, {"a": {"b": 1, "c": 2}}, {"a": {"b": {"x": 1, "y": 2}}}]:
            expect_exc(ctl, obs, fn, "keys-dict-with-two-keys",
                       lambda: LC.get_recursively(R.cp(ctx), keys),
                       "get_recursively(ctx, %r)" % (keys,), [VE])
        for keys in [{"a": ["x"]}, {"a": {"b": ["x"]}}]:
            # a dict notation whose terminal is not a simple key: malformed
            expect_exc(ctl, obs, fn, "keys-dict-with-list-terminal",
                       lambda: LC.get_recursively(R.cp(ctx), keys),
                       "get_recursively(ctx, %r)" % (keys,), [TE, VE, KE])
    elif fn == "format_context":
        for fs in [5, None, ["{{a}}"], {"a": 1}]:
            expect_exc(ctl, obs, fn, "format_str-" + R.tname(fs), lambda: LC.format_context(fs),
                       "format_context(%r)" % (fs,), [TE])
        for fs in ["{{a}", "a}}", "{{a}}}", "{", "x{{a"]:
            expect_exc(ctl, obs, fn, "unbalanced-brace-count", lambda: LC.format_context(fs),
                       "format_context(%r)" % (fs,), [VE])
        for fs in ["{a}", "x{a}y{b}"]:
            expect_exc(ctl, obs, fn, "single-braces", lambda: LC.format_context(fs),
                       "format_context(%r)" % (fs,), [VE])
    elif fn == "format_update_with":
        expect_exc(ctl, obs, fn, "empty-key", lambda: LC.format_update_with("", 5, R.cp(ctx)),
                   "format_update_with('', 5, ctx)", [VE])
        for v in ["{{a}", "{a}", "{{a}}}"]:
            expect_exc(ctl, obs, fn, "unbalanced-value",
                       lambda: LC.format_update_with("a", v, R.cp(ctx)),
                       "format_update_with('a', %r, ctx)" % v, [VE])
        for d in [None, 5, "s"]:
            expect_exc(ctl, obs, fn, "d-" + R.tname(d),
                       lambda: LC.format_update_with("a", 5, d),
                       "format_update_with('a', 5, %r)" % (d,), [TE])
    elif fn == "UpdateContext":
        for sc in [5, None, ["a"], ("a",), b"a", {"a": 1}]:
            expect_exc(ctl, obs, fn, "subcontext-" + R.tname(sc),
                       lambda: LC.UpdateContext(sc, 1), "UpdateContext(%r, 1)" % (sc,), [TE])
        expect_exc(ctl, obs, fn, "subcontext-empty", lambda: LC.UpdateContext("", 1),
                   "UpdateContext('', 1)", [VE])
        for up in ["a{{b}}", "{{a}}b", "{{a}}{{b}}", "{{}}", "{a}", "{{a{b}}}", "a", ""]:
            expect_exc(ctl, obs, fn, "value-true-not-a-single-field",
                       lambda: LC.UpdateContext("a", up, value=True),
                       "UpdateContext('a', %r, value=True)" % up, [VE])
        for up in ["{{a", "{% if %}", "{{a..b}}", "{{ a. }}", "{% for %}", "{{a|nosuchfilter}}",
                   "{{ a b }}"]:
            for kw in [{}, {"raise_on_missing": True}, {"skip_on_missing": True}]:
                expect_exc(ctl, obs, fn, "template-syntax-error",
                           lambda: LC.UpdateContext("a", up, **kw),
                           "UpdateContext('a', %r, %r)" % (up, kw), [VE])
    elif fn == "DeleteContext":
        for key in [5, None, {"a": 1}, 1.5]:
            expect_exc(ctl, obs, fn, "key-not-string-or-list",
                       lambda: LC.DeleteContext(key)((1, R.cp(ctx))),
                       "DeleteContext(%r)((1, ctx))" % (key,), [TE, VE])
    elif fn == "to_string":
        circ = {}
        circ["a"] = circ
        for name, d in [("set", {"a": {1, 2}}), ("object", {"a": object()}),
                        ("bytes", {"a": b"x"}), ("complex", {"a": 1j}),
                        ("tuple-key", {(1, 2): 3}),
                        ("circular", circ)]:
            expect_exc(ctl, obs, fn, "unserializable-" + name, lambda: LC.to_string(d),
                       "to_string(<%s>)" % name, [VE])
    elif fn == "str_to_dict":
        expect_exc(ctl, obs, fn, "empty-with-value", lambda: LC.str_to_dict("", 5),
                   "str_to_dict('', 5)", [VE])
        for s in ["a", "b", "abc"]:
            expect_exc(ctl, obs, fn, "one-part-without-value", lambda: LC.str_to_dict(s),
                       "str_to_dict(%r)" % s, [VE])
        out = ctl.call(fn, "empty", lambda: (LC.str_to_dict(""), LC.str_to_list("")),
                       lambda: "str_to_dict('')")
        ctl.evals += 1
        if out[0] != "foreign" and out != ("ok", ({}, [])):
            ctl.fail("str_to_dict-empty-string", "str_to_dict('') / str_to_list('') -> %r"
                     % (out,))


RULE += (' Added: every formatter is reused on a sequence of contexts with and without the fields; keys containing a dot addressed in list / tuple / dictionary notation.')
RULE += (' Added: simple update values that are tuples holding lists / dicts; dotted strings looked '
         'up (get_recursively, contains, format_context, UpdateContext value=True) in contexts '
         'that also have keys containing dots; to_string on dictionaries with keys of mutually '
         'unorderable types (may refuse, may not depend on key order).')
RULE += (' Added: update values and defaults that are (or hold) plain user objects - hashable and '
         'mutable: the installed value is a deep copy of them too.')

RULE += (' Round 10: items 5..300 levels deep addressed in every notation (full path, prefixes, extension, wrong middle key).')
