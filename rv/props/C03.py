"""C03 - Split.run follows its documented block/branch schedule; common-type methods; Zip.

Deciding monitor: every value a branch yields is tagged with the branch it came
from, and every real execution of Split.run / Split.fill+compute /
Split.fill+request / Split.__call__ / Zip is compared with an executable model
of the DOCUMENTED schedule (rv/props/_c03_model.py) that drives fresh twin
copies of the same branch objects through their own public methods.  A second,
model-free oracle relates the real runs of one configuration across all
bufsizes (fill/compute, Source and per-value branches are bufsize independent).
"""
import copy
import itertools

from rv import gen
from rv.props import _c03_model

ID = "C03"
LEVEL = "exploration"
RULE = ("(a) enumerated: every list of 0..3 (thorough: 0..4) branches over the four kinds "
        "(Source, fill/compute, fill/request, Sequence) x every flow length 0..3 (thorough: "
        "0..5 for <=3 branches) x a StopAt element raising LenaStopFill at every fill index "
        "(or never) in every fill branch x copy_buf in {True, False}; each case is run for "
        "every bufsize in {1..len+1, 1000, None}; branch forms (tuple / explicit sequence / "
        "bare element) and bare-int vs (int, context) flows vary with the seed. (b) seeded "
        "random branch lists 0..4 with pre/post elements (callables, Variable, Filter, Slice, "
        "RunIf, StopAt, Count, Reverse, nested Split), accumulators (Sum, DSum, Mean, "
        "StoreFilled, Count, FillRequest adapters, a native fill/request element), flows 0..7. "
        "(c) common-type Split.fill/compute, fill/request (random fill/request schedules) and "
        "__call__; (d) Zip.fill/compute and fill/request; (e) Split([]) identity. Non-trivial: "
        ">=2 branches of >=2 kinds (for c, d: >=2 branches) and a non-empty flow")
ASSUMPTIONS = [
    "generated callables are total and pure; flows contain no aliased contexts",
    "the branches' own methods (FillComputeSeq.fill/compute, FillRequestSeq.fill/request, "
    "Sequence.run, Source.__call__, FillRequest adapter) are the reference: twin copies "
    "receive the same calls at the same points, so their own defects (C16) cancel out",
    "LenaStopFill raised through the common-type Split.fill / Zip.fill is undocumented and "
    "not generated; FillRequest(buffer_output=True) is not generated (C16)",
]
ANCHORS = [("lena/core/split.py", 17, 69), ("lena/core/split.py", 150, 272),
           ("lena/core/split.py", 307, 411), ("lena/flow/zip.py", 28, 145),
           ("lena/core/check_sequence_type.py", 6, 68)]
MUST_REACH = ["lena/core/split.py:Split.run", "lena/core/split.py:_get_seq_with_type",
              "lena/core/split.py:Split._fill", "lena/core/split.py:Split._compute",
              "lena/core/split.py:Split._request", "lena/core/split.py:Split.__call__",
              "lena/core/split.py:Split._empty_run", "lena/flow/zip.py:Zip._yield",
              "lena/flow/zip.py:Zip._fill", "lena/flow/zip.py:Zip._compute",
              "lena/flow/zip.py:Zip._request"]
MUST_COUNT = ["split_runs_vs_model", "stops_observed", "empty_flow_runs",
              "bufsize_relation_checks", "zip_tuples_compared", "common_type_runs"]
MIN_NONTRIVIAL = {"quick": 3000, "thorough": 50000}
EXHAUSTIVE = {"quick": False, "thorough": False}
LEVEL_TEXT = ("Every execution of the real Split.run (all bufsizes 1..len+1, 1000, None), of the "
              "common-type methods and of Zip is compared value by value with an executable "
              "model of the documented schedule that drives fresh twin copies of the same "
              "branches; small configurations (<=3/4 branches, flows <=3/5, a stop at every fill "
              "index) are enumerated, richer ones sampled. Held on the runs counted in the "
              "evidence; silent about user branches outside the vocabulary.")
LEVEL_NOTE = ("Trusts the branch sequences' own public methods (they are the twins) and the "
              "~40-line schedule model, which was read off Split.run's docstring.")
TECHNIQUE = ("reference-model monitor (documented schedule driving twin branches) + "
             "bufsize-independence relation over tagged outputs")

NRAND = {"quick": 5000, "thorough": 120000}
NCOMMON = {"quick": 2000, "thorough": 30000}
NBIG = {"quick": 300, "thorough": 12000}
NZIP = {"quick": 2000, "thorough": 30000}

KIND_NAME = {"source": "source", "fc": "fill_compute", "fr": "fill_request", "seq": "sequence"}


# ------------------------------------------------------------------ helper elements
class StopAt(object):
    """fill_into element: passes the first *n* values on, raises LenaStopFill at
    fill index *n* (and at every later one)."""

    def __init__(self, n):
        self.n = n
        self.i = 0

    def fill_into(self, element, value):
        import lena.core
        if self.i >= self.n:
            raise lena.core.LenaStopFill()
        self.i += 1
        element.fill(value)


class TagD(object):
    """Per-value callable tagging the data part with the branch tag."""

    def __init__(self, tag):
        self.tag = tag

    def __call__(self, v):
        if gen.has_ctx(v):
            return ((self.tag, v[0]), v[1])
        return (self.tag, v)


class Chunker(object):
    """Native fill/request element: request() yields what was filled since the last
    request, then a marker with the number of request() calls so far."""

    def __init__(self):
        self.buf = []
        self.nreq = 0

    def fill(self, value):
        self.buf.append(value)

    def request(self):
        self.nreq += 1
        for v in self.buf:
            yield v
        n = len(self.buf)
        self.buf = []
        yield ("req", self.nreq, n)

    def reset(self):
        self.buf = []


class TagFC(object):
    """Bare fill/compute element with tagged results."""

    def __init__(self, tag, el):
        self.tag, self.el = TagD(tag), el

    def fill(self, value):
        self.el.fill(value)

    def compute(self):
        for v in self.el.compute():
            yield self.tag(v)


class IterFC(list):
    """Bare fill/compute element that is ALSO iterable (a list subclass collecting what it is
    filled with): an element with fill and compute is a fill/compute element."""

    def __init__(self, tag):
        list.__init__(self)
        self.tag = TagD(tag)

    def fill(self, value):
        # the first value initialises the element, which then switches to its working method
        # (an attribute of the instance from then on)
        del self[:]
        self.fill = self._fill
        self._fill(value)

    def _fill(self, value):
        self.append(value)

    def compute(self):
        yield self.tag(("collected", len(self), gen.freeze(list(self))))


class TagFR(object):
    """Bare fill/request element with tagged results."""

    def __init__(self, tag, el):
        self.tag, self.el = TagD(tag), el

    def fill(self, value):
        self.el.fill(value)

    def request(self):
        for v in self.el.request():
            yield self.tag(v)


def tag_of(v):
    if gen.has_ctx(v):
        v = v[0]
    if isinstance(v, tuple) and v and isinstance(v[0], str) and v[0].startswith("b"):
        return v[0]
    return "?"


# ------------------------------------------------------------------ recipes -> objects
def build_el(r):
    import lena.core
    k = r[0]
    if k == "stopat":
        return StopAt(r[1])
    if k == "tagd":
        return TagD(r[1])
    if k == "chunker":
        return Chunker()
    if k == "fradapter":
        return lena.core.FillRequest(build_el(r[1]), bufsize=r[2], reset=bool(r[3]),
                                     buffer_input=True)
    if k == "nsplit":     # nested common-type Split of bare accumulators
        return lena.core.Split([build_el(x) for x in r[1]], copy_buf=bool(r[2]))
    if k == "runif":
        import lena.flow
        return lena.flow.RunIf(gen.pred(r[1]), *[build_el(e) for e in r[2]])
    return gen.build(r)


def source_args(b):
    import lena.flow
    vals = gen.build_flow(b["vals"])
    if b["src"] == "chain":
        first = [lena.flow.Chain(vals)]
    elif b["src"] == "list":
        first = [vals]
    else:
        first = [lena.flow.CountFrom(b["start"]), lena.flow.Slice(len(vals))]
    return first + [build_el(e) for e in b["tail"]] + [TagD(b["tag"])]


def chain_els(b):
    if b["kind"] == "seq":
        recs = b["els"]
    else:
        recs = b["pre"] + [b["acc"]] + b["post"]
    return [build_el(e) for e in recs] + [TagD(b["tag"])]


def explicit_branch(b):
    """The branch as an explicit lena sequence (also: the twin driven by the model)."""
    import lena.core
    kind = b["kind"]
    if kind == "source":
        if b.get("sub"):
            return source_subclass()(*source_args(b))
        return lena.core.Source(*source_args(b))
    if b["form"] in ("bare", "tuple_bare"):
        bare = bare_branch(b)
        return lena.core.Sequence(bare) if kind == "seq" else bare
    els = chain_els(b)
    if kind == "fc":
        return lena.core.FillComputeSeq(*els)
    if kind == "fr":
        return lena.core.FillRequestSeq(*els, bufsize=b.get("kk", 1), reset=False,
                                        buffer_input=True)
    return lena.core.Sequence(*els)


_SOURCE_SUBCLASS = []


def source_subclass():
    """A user's subclass of Source (a packaged data set): a Source like any other."""
    import lena.core
    if not _SOURCE_SUBCLASS:
        class DataSet(lena.core.Source):
            """Source with a name of its own."""
        _SOURCE_SUBCLASS.append(DataSet)
    return _SOURCE_SUBCLASS[0]


def bare_run_element(b):
    """A single run element given bare as a branch (not in a tuple, not in a Sequence): a plain
    Sequence branch.  Its results carry the branch tag."""
    import lena.core
    r = b["bare_el"]
    if r[0] == "isplit":
        # an inner Split of branches of different kinds ("Split can be used within a Split")
        return lena.core.Split([real_branch(ib) for ib in r[1]], bufsize=r[2])
    if r[0] == "fradapter_run":
        # the FillRequest adapter around a run-only element: documented to have no fill and
        # request, it is run chunk by chunk
        inner = lena.core.Sequence(*([build_el(e) for e in r[1]] + [TagD(b["tag"])]))
        return lena.core.FillRequest(inner, bufsize=r[2], **{r[3]: True})
    raise ValueError(r)


def bare_branch(b):
    kind = b["kind"]
    if kind == "seq" and b.get("bare_el"):
        return bare_run_element(b)
    if kind == "fc" and b.get("iterable"):
        return IterFC(b["tag"])
    if kind == "fc":
        return TagFC(b["tag"], build_el(b["acc"]))
    if kind == "fr":
        return TagFR(b["tag"], build_el(b["acc"]))
    if kind == "seq":
        return TagD(b["tag"])
    raise ValueError(b)


def real_branch(b):
    """The branch in the form the recipe asks for (what the user would write)."""
    if b["kind"] == "source" or b["form"] == "explicit":
        return explicit_branch(b)
    if b["form"] == "bare":
        return bare_branch(b)
    if b["form"] == "tuple_bare":
        return (bare_branch(b),)
    return tuple(chain_els(b))


def frozen(vals):
    return [gen.freeze(v) for v in vals]


def copied(obj, mode, obs):
    """The object itself, a deep copy of it or a pickle round trip (recipe key "copy"): a
    copied Split / Zip has the same branches, bufsize and copy_buf, and is independent of the
    object it was copied from."""
    if not mode:
        return obj
    if mode == "pickle":
        import pickle
        try:
            made = pickle.loads(pickle.dumps(obj))
            obs.count("containers_unpickled")
            return made
        except (pickle.PicklingError, AttributeError, TypeError):
            pass            # a branch that cannot be pickled: copy it instead
    obs.count("containers_deep_copied")
    return copy.deepcopy(obj)


# ------------------------------------------------------------------ generators
CALLS = ["inc", "dbl", "neg", "sq", "mod3", "add10", "half", "ctx:a", "ctx:b"]
PREDN = ["even", "odd", "pos", "lt5", "mod3", "true", "false"]


def rand_pervalue(rng, depth=0):
    k = rng.choice(["call", "call", "call", "filter", "var", "runif"] if depth == 0
                   else ["call", "filter", "var"])
    if k == "call":
        return ["call", rng.choice(CALLS)]
    if k == "filter":
        return ["filter", rng.choice(PREDN)]
    if k == "var":
        return ["var", rng.choice("xyz"), rng.choice(["inc", "dbl", "neg", "half"])]
    return ["runif", rng.choice(PREDN),
            [rand_pervalue(rng, 1) for _ in range(rng.randint(0, 2))]]


def rand_pre(rng, nflow, allow_stop=True):
    out = []
    for _ in range(rng.choice([0, 0, 1, 1, 2])):
        if allow_stop and rng.random() < 0.35:
            if rng.random() < 0.6:
                out.append(["stopat", rng.randint(0, nflow + 1)])
            else:
                a = rng.randint(0, 2)
                out.append(["slice", rng.choice([[rng.randint(0, nflow + 1)],
                                                 [a, a + rng.randint(0, 4)],
                                                 [a, a + rng.randint(0, 4), rng.randint(1, 3)],
                                                 [a, None, rng.randint(1, 2)]])])
        else:
            out.append(rand_pervalue(rng))
    return out


def rand_acc(rng):
    return rng.choice([["sum"], ["sum"], ["dsum"], ["mean"], ["store", 1], ["store", 0],
                       ["fccount", "fc"], ["count", "cnt"],
                       ["nsplit", [["sum"], ["store", 0]], 1],
                       ["nsplit", [["count", "c1"], ["mean"]], 0]])


def rand_fr_acc(rng):
    if rng.random() < 0.4:
        return ["chunker"]
    inner = rng.choice([["sum"], ["dsum"], ["store", 1], ["store", 0], ["count", "cnt"],
                        ["mean"]])
    return ["fradapter", inner, rng.choice([1, 1, 2, 3]), rng.choice([0, 1])]


def rand_post(rng):
    out = []
    for _ in range(rng.choice([0, 0, 1, 2])):
        k = rng.random()
        if k < 0.7:
            out.append(rand_pervalue(rng, 1))
        elif k < 0.85:
            out.append(["count", "pc"])
        else:
            out.append(["reverse"])
    return out


def rand_source(rng, idx, tag):
    n = rng.randint(0, 3)
    src = rng.choice(["chain", "chain", "list", "countfrom"])
    start = 1000 * (idx + 1)
    if src == "countfrom" or rng.random() < 0.6:
        vals = [start + i for i in range(n)]
    else:
        vals = [[start + i, {"s": i}] for i in range(n)]
    b = {"kind": "source", "tag": tag, "form": "explicit", "src": src, "start": start,
         "vals": vals, "tail": [rand_pervalue(rng, 1) for _ in range(rng.choice([0, 0, 1]))]}
    if rng.random() < 0.25:
        b["sub"] = 1
    return b


def rand_branch(rng, idx, nflow, kind=None, allow_stop=True, tagprefix="b"):
    kind = kind or rng.choice(["source", "fc", "fc", "fr", "fr", "seq", "seq"])
    tag = "%s%d" % (tagprefix, idx)
    if kind == "source":
        return rand_source(rng, idx, tag)
    if kind == "seq" and tagprefix == "b" and rng.random() < 0.12:
        # a bare run element as a branch
        if rng.random() < 0.5:
            inner = []
            # (branches of one common kind would make the inner Split an element of that kind)
            ikinds = ["seq"]
            while len(set(ikinds)) < 2:
                ikinds = [rng.choice(["source", "fc", "fr", "seq"])
                          for _ in range(rng.randint(2, 3))]
            for j, ik in enumerate(ikinds):
                ib = rand_branch(rng, j, nflow, kind=ik, allow_stop=allow_stop, tagprefix="i")
                ib["tag"] = tag
                inner.append(ib)
            bare = ["isplit", inner, rng.choice([1, 2, 1000])]
        else:
            a = rng.randint(0, 2)
            bare = ["fradapter_run",
                    [rng.choice([["reverse"], ["slice", [a, a + rng.randint(0, 3)]],
                                 ["call", "inc"], ["count", "ac"], ["slice", [-1]]])
                     for _ in range(rng.randint(0, 2))],
                    rng.choice([1, 2, 3]),
                    rng.choice(["buffer_input", "buffer_output", "yield_on_remainder"])]
        return {"kind": "seq", "tag": tag, "form": rng.choice(["bare", "bare", "tuple_bare"]),
                "els": [], "pervalue": False, "bare_el": bare}
    if kind == "seq":
        els, pervalue = [], True
        for _ in range(rng.choice([0, 1, 1, 2, 3])):
            if rng.random() < 0.2:
                pervalue = False
                a = rng.randint(0, 2)
                els.append(rng.choice([["count", "qc"], ["reverse"], ["sum"], ["end"],
                                       ["slice", [a, a + rng.randint(0, 3)]],
                                       ["slice", [-rng.randint(1, 2)]],
                                       ["split", [[["call", "inc"]], [["filter", "even"]]], 2]]))
            else:
                els.append(rand_pervalue(rng))
        if not pervalue:
            form = "explicit"
        elif not els:
            form = rng.choice(["tuple", "explicit", "bare"])
        else:
            form = rng.choice(["tuple", "explicit"])
        return {"kind": "seq", "tag": tag, "form": form, "els": els, "pervalue": pervalue}
    pre = rand_pre(rng, nflow, allow_stop)
    post = rand_post(rng)
    acc = rand_acc(rng) if kind == "fc" else rand_fr_acc(rng)
    forms = ["tuple", "tuple", "explicit"]
    if not pre and not post:
        forms.append("bare")
    if kind == "fr" and any(e[0] == "count" for e in post):
        # a tuple holding a fill/request and a fill/compute element (Count) is classified
        # as fill/compute by design: write such a branch as an explicit FillRequestSeq
        forms = ["explicit"]
    b = {"kind": kind, "tag": tag, "form": rng.choice(forms), "pre": pre, "acc": acc,
         "post": post}
    if kind == "fr":
        b["kk"] = rng.choice([1, 2, 5])
    if kind == "fc" and rng.random() < 0.12:
        b.update(form="bare", pre=[], post=[], iterable=1)
    return b


def enum_branch(rng, letter, idx, stop, ctx):
    tag = "b%d" % idx
    pre = [] if stop is None else [["stopat", stop]]
    if letter == "S":
        start = 1000 * (idx + 1)
        vals = [[start + i, {"s": i}] if ctx else start + i for i in range(2)]
        return {"kind": "source", "tag": tag, "form": "explicit",
                "src": rng.choice(["chain", "list"]), "start": start, "vals": vals, "tail": []}
    if letter == "C":
        return {"kind": "fc", "tag": tag, "form": rng.choice(["tuple", "explicit"]),
                "pre": pre, "acc": rng.choice([["store", 1], ["store", 0], ["sum"]]),
                "post": []}
    if letter == "R":
        return {"kind": "fr", "tag": tag, "form": rng.choice(["tuple", "explicit"]),
                "pre": pre, "acc": rng.choice([["chunker"], ["chunker"],
                                               ["fradapter", ["store", 1], 1, 1]]),
                "post": [], "kk": 1}
    els = rng.choice([[], [["call", "inc"]], [["filter", "odd"]]])
    return {"kind": "seq", "tag": tag, "els": els, "pervalue": True,
            "form": rng.choice(["tuple", "explicit"] + ([] if els else ["bare"]))}


def enum_cases(seed, maxlen, nmax, salt):
    i = 0
    for L in range(0, maxlen + 1):
        for letters in itertools.product("SCRQ", repeat=L):
            nfill = sum(1 for x in letters if x in "CR")
            for n in range(0, nmax + 1):
                opts = [None] + list(range(0, n))
                for stops in itertools.product(opts, repeat=nfill):
                    for copy_buf in (1, 0):
                        rng = gen.rng_for(seed, "C03enum", salt, i)
                        i += 1
                        ctx = rng.random() < 0.4
                        st = list(stops)
                        branches = []
                        for idx, letter in enumerate(letters):
                            s = st.pop(0) if letter in "CR" else None
                            branches.append(enum_branch(rng, letter, idx, s, ctx))
                        flow = [[x, {"i": x}] if ctx else x for x in range(1, n + 1)]
                        yield {"k": "run", "branches": branches, "flow": flow,
                               "copy_buf": copy_buf, "src": "enum"}


def cases(tier, seed):
    if tier == "quick":
        for c in enum_cases(seed, 3, 3, "q"):
            yield c
    else:
        for c in enum_cases(seed, 4, 3, "t4"):
            yield c
        # longer flows for up to three branches (n = 4, 5 only: 0..3 are covered above)
        for c in enum_cases(seed, 3, 5, "t3"):
            if len(c["flow"]) >= 4:
                yield c
    for i in range(NRAND[tier]):
        rng = gen.rng_for(seed, "C03rand", i)
        flow = gen.rand_flow(rng, 7)
        nb = rng.choice([0, 1, 2, 2, 3, 3, 4, 4])
        rec = {"k": "run", "branches": [rand_branch(rng, j, len(flow)) for j in range(nb)],
               "flow": flow, "copy_buf": rng.choice([1, 1, 0]), "src": "rand"}
        x = rng.random()
        if x < 0.3:
            rec["copy"] = "deepcopy" if x < 0.15 else "pickle"
        yield rec
    # beyond the small sizes: 5..14 branches and / or flows of 17..130 values; bufsizes around
    # powers of two, around the flow length, and the two defaults
    for i in range(NBIG[tier]):
        rng = gen.rng_for(seed, "C03big", i)
        shape = i % 3
        nb = (rng.randint(5, 14), rng.randint(1, 4), rng.randint(5, 9))[shape]
        nf = (rng.randint(3, 12), rng.choice([17, 33, 64, 65, 100, 129, rng.randint(17, 130)]),
              rng.randint(17, 70))[shape]
        ctx = rng.random() < 0.4
        flow = [[rng.randint(-3, 9), {"i": j}] if ctx else rng.randint(-3, 9) for j in range(nf)]
        bs = sorted(set([1, 2, rng.choice([7, 8, 9]), rng.choice([15, 16, 17]),
                         rng.choice([31, 32, 33]), rng.choice([63, 64, 65]), nf - 1, nf, nf + 1,
                         rng.randint(1, nf + 1)]) - {0})
        yield {"k": "run", "branches": [rand_branch(rng, j, nf) for j in range(nb)],
               "flow": flow, "copy_buf": rng.choice([1, 1, 0]), "src": "big",
               "bufsizes": bs + [1000, None]}
    for i in range(NCOMMON[tier]):
        rng = gen.rng_for(seed, "C03common", i)
        flow = gen.rand_flow(rng, 7)
        typ = rng.choice(["fc", "fc", "fr", "fr", "source"])
        nb = rng.choice([1, 2, 2, 3, 3, 4])
        branches = [rand_branch(rng, j, len(flow), kind=typ, allow_stop=False)
                    for j in range(nb)]
        rec = {"k": "common", "type": typ, "branches": branches, "flow": flow,
               "copy_buf": rng.choice([1, 0]), "ops": rand_ops(rng, len(flow), typ),
               "bufsize": rng.choice([1, 2, 1000, None])}
        x = rng.random()
        if x < 0.3:
            rec["copy"] = "deepcopy" if x < 0.15 else "pickle"
        yield rec
    for i in range(NZIP[tier]):
        rng = gen.rng_for(seed, "C03zip", i)
        flow = gen.rand_flow(rng, 7)
        typ = rng.choice(["fc", "fr"])
        nb = rng.choice([1, 2, 2, 3, 3, 4])
        branches = [rand_branch(rng, j, len(flow), kind=typ, allow_stop=False)
                    for j in range(nb)]
        rec = {"k": "zip", "type": typ, "branches": branches, "flow": flow,
               "ops": rand_ops(rng, len(flow), typ), "fields": rng.choice([0, 0, 1])}
        x = rng.random()
        if x < 0.4:
            rec["copy"] = "deepcopy" if x < 0.2 else "pickle"
        yield rec
    for n in range(0, 8):
        for ctx in (0, 1):
            yield {"k": "empty", "n": n, "ctx": ctx}
    # flows longer than 1000 values: the only place where bufsize=1000 (the default) and
    # bufsize=None (one block) differ
    for i, letters in enumerate(["CRQ", "RSQC", "QR", "RCSQ", "SRRC", "QCR", "CC", "CCC", "CCCC",
                                 "RR", "CCR"]):
        for n in (1001, 2300):
            rng = gen.rng_for(seed, "C03long", i, n)
            branches = [enum_branch(rng, letter, idx, rng.choice([None, 1000, 1500]), False)
                        for idx, letter in enumerate(letters)]
            if i >= 6:
                # branches of one kind that stop in different thousands, later branches first
                stops = [1700, 400, 1200, 2100][:len(letters)]
                if i % 2:
                    stops = stops[::-1]
                branches = [enum_branch(rng, letter, idx, st if st < n else None, False)
                            for idx, (letter, st) in enumerate(zip(letters, stops))]
            yield {"k": "run", "branches": branches, "flow": list(range(n)), "copy_buf": i % 2,
                   "src": "long", "bufsizes": [1000, None, 999, 1001, n, n + 1]}


def rand_ops(rng, nflow, typ):
    """Schedule of fills (f) and requests/computes (r): all values are filled in order."""
    if typ == "fc":
        return "f" * nflow + "r"
    if typ == "source":
        return "r"
    ops = []
    for _ in range(nflow):
        if rng.random() < 0.3:
            ops.append("r")
        ops.append("f")
    ops.append("r")
    if rng.random() < 0.3:
        ops.append("r")
    return "".join(ops)


# ------------------------------------------------------------------ oracles
_listed = {}
MAX_LISTED_PER_MECH = 8


def verdict(obs, cond, mech, msg):
    """obs.check, but one worker process lists at most MAX_LISTED_PER_MECH witnesses of one
    mechanism (the worker keeps only its first 200 violations: a frequent mechanism must
    not crowd out a rare one).  Unlisted witnesses are still counted."""
    if cond:
        return obs.check(True, mech, msg)
    _listed[mech] = _listed.get(mech, 0) + 1
    if _listed[mech] > MAX_LISTED_PER_MECH:
        obs.count("oracle_evaluations")
        obs.count("violations_not_listed")
        obs.count("violations_not_listed:" + mech)
        return False
    return obs.check(False, mech, msg)


def classify(real, model, tags_real, tags_model, kind_of_tag, order, empty, stopped):
    """Mechanism string for a disagreement between the real run and the model."""
    suffix = ":empty-flow" if empty else ""

    def sub(vals, tags, t):
        return [v for v, tt in zip(vals, tags) if tt == t]
    if "?" in tags_real:
        return "run-yields-untagged-value" + suffix
    bad = [t for t in order if sub(real, tags_real, t) != sub(model, tags_model, t)]
    if not bad:
        for a, b in zip(tags_real, tags_model):
            if a != b:
                return ("run-order:%s-result-where-%s-result-expected"
                        % (kind_of_tag.get(a, "?"), kind_of_tag.get(b, "?"))) + suffix
        return "run-order" + suffix
    t = bad[0]
    r, m = sub(real, tags_real, t), sub(model, tags_model, t)
    if len(r) < len(m) and r == m[:len(r)]:
        shape = "results-missing"
    elif len(r) > len(m) and r[:len(m)] == m:
        shape = "extra-results"
    elif sorted(map(repr, r)) == sorted(map(repr, m)):
        shape = "results-reordered"
    else:
        shape = "results-differ"
    return "run-branch-result:%s:%s%s%s" % (kind_of_tag.get(t, "?"), shape,
                                            ":stopped-branch" if t in stopped else "", suffix)


def run_split(r, obs):
    import lena.core
    branches, flow_r, copy_buf = r["branches"], r["flow"], bool(r["copy_buf"])
    n = len(flow_r)
    kinds = [KIND_NAME[b["kind"]] for b in branches]
    if not branches:
        return check_identity(obs, gen.build_flow(flow_r))
    order = [b["tag"] for b in branches]
    kind_of_tag = dict(zip(order, kinds))
    if len(branches) >= 2 and len(set(kinds)) >= 2 and n:
        obs.nontrivial = True
    tuple_fr = any(b["kind"] == "fr" and b["form"] == "tuple" for b in branches)
    per_bufsize = {}
    bufsizes = r.get("bufsizes") or (list(range(1, n + 2)) + [1000, None])
    for bi, bufsize in enumerate(bufsizes):
        # ---- model on fresh twins
        twins = [explicit_branch(b) for b in branches]
        stopped_log = []
        try:
            model_raw = _c03_model.schedule(twins, kinds, gen.build_flow(flow_r), bufsize,
                                            copy_buf, lena.core.LenaStopFill, stopped_log)
            model_exc = None
        except Exception as e:  # pylint: disable=broad-except
            model_raw, model_exc = [], type(e).__name__
        obs.count("stops_observed", len(stopped_log))
        # ---- the real Split
        try:
            sp = lena.core.Split([real_branch(b) for b in branches], bufsize=bufsize,
                                 copy_buf=copy_buf)
        except Exception as e:  # pylint: disable=broad-except
            what = "tuple-fill_request-branch" if tuple_fr else "branches"
            verdict(obs, False, "split-construction-raises:%s:bufsize-%s:%s"
                     % (what, "None" if bufsize is None else "int", type(e).__name__),
                     "Split(%r, bufsize=%r, copy_buf=%r) raised %r"
                     % ([(b["kind"], b["form"]) for b in branches], bufsize, copy_buf, e))
            continue
        sp_orig = sp
        sp = copied(sp, r.get("copy"), obs)
        flow = gen.build_flow(flow_r)
        try:
            real_raw = list(sp.run(iter(flow) if bi % 2 else flow))
            real_exc = None
        except Exception as e:  # pylint: disable=broad-except
            real_raw, real_exc = [], type(e).__name__
        obs.count("split_runs_vs_model")
        if not n:
            obs.count("empty_flow_runs")
        if real_exc or model_exc:
            verdict(obs, real_exc == model_exc,
                      "run-raises:%s:model-%s%s" % (real_exc, model_exc, ":empty-flow" if not n else ""),
                      "Split.run raised %s, model %s; branches=%r flow=%r bufsize=%r copy_buf=%r"
                      % (real_exc, model_exc, branches, flow_r, bufsize, copy_buf))
            continue
        tags_real = [tag_of(v) for v in real_raw]
        tags_model = [tag_of(v) for v in model_raw]
        real, model = frozen(real_raw), frozen(model_raw)
        obs.count("outputs_compared", len(model))
        if real != model:
            stopped = set(order[i] for i in stopped_log)
            verdict(obs, False, classify(real, model, tags_real, tags_model, kind_of_tag, order,
                                      not n, stopped),
                      "Split.run differs from the documented schedule: real %r, model %r; "
                      "branches=%r flow=%r bufsize=%r copy_buf=%r"
                      % (real, model, branches, flow_r, bufsize, copy_buf))
        else:
            verdict(obs, True, "", "")
        per_bufsize[repr(bufsize)] = (real, tags_real)
        # ---- the same Split object run again (as RunIf, SplitIntoBins or a Source called twice
        # do): the schedule holds on every run; the twins keep their state like the real
        # branches, only the scheduling starts afresh
        if r.get("src") != "long" and real == model:
            try:
                model2 = frozen(_c03_model.schedule(twins, kinds, gen.build_flow(flow_r), bufsize,
                                                    copy_buf, lena.core.LenaStopFill, []))
                m2exc = None
            except Exception as e:  # pylint: disable=broad-except
                model2, m2exc = [], type(e).__name__
            try:
                real2 = frozen(list(sp.run(iter(gen.build_flow(flow_r)))))
                r2exc = None
            except Exception as e:  # pylint: disable=broad-except
                real2, r2exc = [], type(e).__name__
            obs.count("second_runs_vs_model")
            verdict(obs, real2 == model2 and r2exc == m2exc,
                    "second-run-of-the-same-split-differs" + (":empty-flow" if not n else ""),
                    "the second run of one Split object gives %r (%s), the documented schedule "
                    "on the same branch objects %r (%s); branches=%r flow=%r bufsize=%r copy_buf=%r"
                    % (real2, r2exc, model2, m2exc, branches, flow_r, bufsize, copy_buf))
    # ---- two run() generators of one Split object alive at once (the same Split used twice in
    # one lazy sequence, two flows zipped): each follows the schedule on its own flow.  Judged
    # for Splits of stateless branches only (Sources and per-value sequences): a stateful branch
    # is shared by design
    if all(b["kind"] == "source" or (b["kind"] == "seq" and b["pervalue"]) for b in branches) \
            and not r.get("bufsizes"):
        for bufsize in (1, 2, None):
            try:
                twins = [explicit_branch(b) for b in branches]
                model = frozen(_c03_model.schedule(twins, kinds, gen.build_flow(flow_r), bufsize,
                                                   copy_buf, lena.core.LenaStopFill, []))
                sp = lena.core.Split([real_branch(b) for b in branches], bufsize=bufsize,
                                     copy_buf=copy_buf)
            except Exception:  # pylint: disable=broad-except
                break
            g1 = sp.run(iter(gen.build_flow(flow_r)))
            g2 = sp.run(iter(gen.build_flow(flow_r)))
            outs = ([], [])
            live = [g1, g2]
            turn = 0
            try:
                while live[0] is not None or live[1] is not None:
                    i = turn % 2
                    turn += 1
                    if live[i] is None:
                        continue
                    try:
                        outs[i].append(next(live[i]))
                    except StopIteration:
                        live[i] = None
                # (frozen after the run, like the model: without copy_buf the branches share
                # the value objects)
                outs = (frozen(outs[0]), frozen(outs[1]))
            except Exception as e:  # pylint: disable=broad-except
                outs = ("raised %r" % (e,), None)
            obs.count("two_live_runs_compared")
            verdict(obs, outs[0] == model and outs[1] == model,
                    "two-live-runs-of-one-split-differ",
                    "two run() generators of one Split consumed alternately give %r and %r, the "
                    "documented schedule gives %r for each; branches=%r flow=%r bufsize=%r"
                    % (outs[0], outs[1], model, branches, flow_r, bufsize))
    # ---- model-free relation: bufsize independence (own buffers only)
    if copy_buf and len(per_bufsize) >= 2:
        ref_key = sorted(per_bufsize)[0]
        for b in branches:
            if not (b["kind"] in ("fc", "source") or (b["kind"] == "seq" and b["pervalue"])):
                continue
            t = b["tag"]
            subs = {k: [v for v, tt in zip(vals, tags) if tt == t]
                    for k, (vals, tags) in per_bufsize.items()}
            obs.count("bufsize_relation_checks", len(subs) - 1)
            differing = sorted(k for k in subs if subs[k] != subs[ref_key])
            verdict(obs, not differing,
                      "bufsize-dependent-result:%s%s" % (KIND_NAME[b["kind"]],
                                                         ":empty-flow" if not n else ""),
                      "results of %s branch %s depend on bufsize: %r; branches=%r flow=%r"
                      % (b["kind"], t, {k: subs[k] for k in [ref_key] + differing[:2]},
                         branches, flow_r))


def check_identity(obs, flow):
    import lena.core
    obs.count("empty_split_runs")
    for bufsize in [1, 2, 1000, None]:
        for cb in (True, False):
            for as_iter in (True, False):
                sp = lena.core.Split([], bufsize=bufsize, copy_buf=cb)
                got = list(sp.run(iter(flow) if as_iter else flow))
                verdict(obs, len(got) == len(flow) and all(a is b for a, b in zip(got, flow)),
                          "empty-split-not-identity",
                          "Split([], bufsize=%r, copy_buf=%r).run(%r) = %r"
                          % (bufsize, cb, flow, got))
                # a copy of it (alone and inside a sequence), after and before its first run
                import copy
                import pickle
                for cname, cp in (("copy.copy", copy.copy), ("copy.deepcopy", copy.deepcopy),
                                  ("pickle", lambda o: pickle.loads(pickle.dumps(o)))):
                    for used_first in (True, False):
                        sp0 = lena.core.Split([], bufsize=bufsize, copy_buf=cb)
                        seq0 = lena.core.Sequence(lena.core.Split([], bufsize=bufsize,
                                                                  copy_buf=cb))
                        if used_first:
                            list(sp0.run(iter(flow)))
                            list(seq0.run(iter(flow)))
                        try:
                            got = list(cp(sp0).run(iter(flow)))
                            got2 = list(cp(seq0).run(iter(flow)))
                            got3 = list(sp0.run(iter(flow)))
                        except Exception as e:  # pylint: disable=broad-except
                            got = got2 = got3 = "raised %r" % (e,)
                        obs.count("empty_split_copies")
                        verdict(obs, got == flow and got2 == flow and got3 == flow,
                                "empty-split-not-identity:copied",
                                "%s of Split([], bufsize=%r, copy_buf=%r)%s run on %r gives %r, "
                                "inside a Sequence %r, the original afterwards %r"
                                % (cname, bufsize, cb, " (used before)" if used_first else "",
                                   flow, got, got2, got3))


def run_common(r, obs):
    import lena.core
    branches, flow_r, copy_buf, typ = r["branches"], r["flow"], bool(r["copy_buf"]), r["type"]
    tuple_fr = any(b["kind"] == "fr" and b["form"] == "tuple" for b in branches)
    try:
        sp = lena.core.Split([real_branch(b) for b in branches], bufsize=r["bufsize"],
                             copy_buf=copy_buf)
    except Exception as e:  # pylint: disable=broad-except
        verdict(obs, False, "split-construction-raises:%s:bufsize-%s:%s"
                 % ("tuple-fill_request-branch" if tuple_fr else "branches",
                    "None" if r["bufsize"] is None else "int", type(e).__name__),
                 "Split(%r, bufsize=%r) raised %r"
                 % ([(b["kind"], b["form"]) for b in branches], r["bufsize"], e))
        return
    sp = copied(sp, r.get("copy"), obs)
    twins = [explicit_branch(b) for b in branches]
    obs.count("common_type_runs")
    if len(branches) >= 2 and (flow_r or typ == "source"):
        obs.nontrivial = True
    if typ == "source":
        # "After its flow is empty, next sequence is called": a later Source whose first element
        # does its work when it is called sees what consuming the earlier ones left behind
        log = []

        class Recording(object):
            def __init__(self, vals):
                self.vals = vals

            def __call__(self):
                for v in self.vals:
                    log.append(v)
                    yield v

        class SnapshotAtCall(object):
            """An ordinary callable (not a generator function): reads the log when called."""
            def __call__(self):
                return iter([("seen-at-call", tuple(log))])
        for how in ("call", "source-of-split", "run"):
            del log[:]
            sp3 = lena.core.Split([lena.core.Source(Recording([1, 2, 3])),
                                   lena.core.Source(SnapshotAtCall()),
                                   lena.core.Source(Recording([4])),
                                   lena.core.Source(SnapshotAtCall())])
            if how == "call":
                got3 = list(sp3())
            elif how == "source-of-split":
                got3 = list(lena.core.Source(sp3, gen.func("id"))())
            else:
                got3 = list(sp3.run(iter([])))
            exp3 = [1, 2, 3, ("seen-at-call", (1, 2, 3)), 4, ("seen-at-call", (1, 2, 3, 4))]
            obs.count("common_type_runs")
            verdict(obs, got3 == exp3, "common-type-call-differs:later-source-called-early",
                    "a Split of Sources used through %s yields %r; calling each Source when the "
                    "previous one is exhausted gives %r" % (how, got3, exp3))
        # branches that are different objects but compare equal (lena sequences and elements
        # such as CountFrom, Slice, Chain, Sum compare by value): each is a branch of its own
        import lena.flow
        import lena.math

        def eq_src():
            return lena.core.Source(lena.flow.CountFrom(0), lena.flow.Slice(3))

        def eq_fc():
            return (lena.flow.Slice(2), lena.math.Sum())
        inc = gen.func("inc")
        for name, mkbranches, flow3, exp3 in (
                ("equal Sources", lambda: [eq_src(), (inc,), eq_src()], [10, 20],
                 [0, 1, 2, 11, 21, 0, 1, 2]),
                ("equal Sources, one block each", lambda: [eq_src(), eq_src(), (inc,)], [10],
                 [0, 1, 2, 0, 1, 2, 11]),
                ("equal stopping fill/compute branches", lambda: [eq_fc(), eq_fc(), (inc,)],
                 [0, 0, 0, 0], [0, 0, 1, 1, 1, 1]),
                ("equal fill/compute branches", lambda: [(lena.math.Sum(),), (lena.math.Sum(),)],
                 [1, 2], [3, 3])):
            for b3 in (1, 2, 1000):
                try:
                    got3 = list(lena.core.Split(mkbranches(), bufsize=b3).run(iter(flow3)))
                except Exception as e:  # pylint: disable=broad-except
                    got3 = "raised %r" % (e,)
                obs.count("common_type_runs")
                want = exp3
                if name == "equal stopping fill/compute branches":
                    # both stop at the third value; per-value branch results lie between blocks
                    want = None
                    ok3 = isinstance(got3, list) and sorted(map(repr, got3)) == sorted(
                        map(repr, exp3)) and got3.count(0) == 2
                elif name == "equal Sources" and b3 == 1:
                    ok3 = got3 == [0, 1, 2, 11, 0, 1, 2, 21]
                else:
                    ok3 = got3 == want
                verdict(obs, ok3, "run-branch-result:branches-that-compare-equal",
                        "Split of %s, bufsize=%r, over %r yields %r" % (name, b3, flow3, got3))
        verdict(obs, callable(sp), "common-type-method-missing:source:__call__", "not callable")
        real = frozen(sp())
        model = frozen(itertools.chain(*[t() for t in twins]))
        verdict(obs, real == model, "common-type-call-differs",
                  "Split.__call__() = %r, per-branch concatenation %r; branches=%r"
                  % (real, model, branches))
        return
    methods = ("fill", "compute") if typ == "fc" else ("fill", "request")
    for m in methods:
        if not verdict(obs, callable(getattr(sp, m, None)),
                         "common-type-method-missing:%s:%s" % (KIND_NAME[typ], m),
                         "Split of %d %s branches has no method %s" % (len(branches), typ, m)):
            return
    flow_real, flow_model = gen.build_flow(flow_r), gen.build_flow(flow_r)
    real, model = [], []
    i = 0
    for op in r["ops"]:
        if op == "f":
            sp.fill(flow_real[i])
            for t in twins:
                t.fill(copy.deepcopy(flow_model[i]) if copy_buf else flow_model[i])
            i += 1
            obs.count("common_type_fills")
        else:
            real.append(frozen(sp.compute() if typ == "fc" else sp.request()))
            # frozen value by value, as for the real Split (shared contexts without copy_buf)
            model.append(frozen(v for t in twins
                                for v in (t.compute() if typ == "fc" else t.request())))
    verdict(obs, real == model, "common-type-%s-differs" % methods[1],
              "Split.fill/%s gives %r per %s call, per-branch concatenation gives %r; "
              "branches=%r flow=%r ops=%s copy_buf=%r"
              % (methods[1], real, methods[1], model, branches, flow_r, r["ops"], copy_buf))


def run_zip(r, obs):
    import lena.core
    import lena.flow
    branches, flow_r, typ = r["branches"], r["flow"], r["type"]
    tuple_fr = any(b["kind"] == "fr" and b["form"] == "tuple" for b in branches)
    kw = {}
    if r["fields"]:
        kw = {"name": "zz", "fields": ["f%d" % i for i in range(len(branches))]}
    try:
        z = lena.flow.Zip([real_branch(b) for b in branches], **kw)
    except Exception as e:  # pylint: disable=broad-except
        verdict(obs, False, "zip-construction-raises:%s:%s"
                 % ("tuple-fill_request-branch" if tuple_fr else "branches", type(e).__name__),
                 "Zip(%r) raised %r" % ([(b["kind"], b["form"]) for b in branches], e))
        return
    z_orig = z
    z = copied(z, r.get("copy"), obs)
    twins = [explicit_branch(b) for b in branches]
    # second twin set, used ONLY to name the mechanism of a disagreement: its result
    # generators are consumed the way Zip._yield consumes them (round robin, abandoned at
    # the shortest), so code after the last yield of a branch's request() never runs
    lazy_twins = [explicit_branch(b) for b in branches]
    if len(branches) >= 2 and flow_r:
        obs.nontrivial = True
    methods = ("fill", "compute") if typ == "fc" else ("fill", "request")
    for m in methods:
        if not verdict(obs, callable(getattr(z, m, None)),
                         "zip-method-missing:%s:%s" % (KIND_NAME[typ], m),
                         "Zip of %d %s branches has no method %s" % (len(branches), typ, m)):
            return
    flow_real, flow_model = gen.build_flow(flow_r), gen.build_flow(flow_r)
    i = 0
    nreq = 0
    for op in r["ops"]:
        if op == "f":
            z.fill(flow_real[i])
            for t in twins + lazy_twins:
                t.fill(copy.deepcopy(flow_model[i]))
            i += 1
            continue
        nreq += 1
        got = list(z.compute() if typ == "fc" else z.request())
        per_branch = [list(t.compute() if typ == "fc" else t.request()) for t in twins]
        shortest = min(len(p) for p in per_branch)
        expected = [tuple(lena.flow.get_data_context(p[j])[0] for p in per_branch)
                    for j in range(shortest)]
        got_data = [lena.flow.get_data_context(v)[0] for v in got]
        obs.count("zip_tuples_compared", len(expected))
        which = "first" if nreq == 1 else "later"
        ok = (len(got_data) == len(expected)
              and all(isinstance(g, tuple) for g in got_data)
              and frozen(tuple(g) for g in got_data) == frozen(expected))
        gens = [t.compute() if typ == "fc" else t.request() for t in lazy_twins]
        lazy_rows = []
        while True:
            row = []
            for g in gens:
                try:
                    row.append(lena.flow.get_data_context(next(g))[0])
                except StopIteration:
                    row = None
                    break
            if row is None:
                break
            lazy_rows.append(tuple(row))
        del gens
        if not ok:
            if nreq > 1 and frozen(tuple(g) for g in got_data) == frozen(lazy_rows):
                shape = "branch-result-generators-left-unfinished"
            elif nreq > 1:
                shape = "differs-from-solo-branches"
            elif len(got_data) != len(expected):
                shape = "length-%s-than-shortest" % ("more" if len(got_data) > len(expected)
                                                     else "less")
            else:
                shape = "data-differs"
            verdict(obs, False, "zip-%s:%s-%s:%s" % (methods[1], which, methods[1], shape),
                      "Zip.%s() #%d data parts %r, tuples of the branches' i-th data parts %r "
                      "(branch result lengths %r); branches=%r flow=%r ops=%s"
                      % (methods[1], nreq, got_data, expected, [len(p) for p in per_branch],
                         branches, flow_r, r["ops"]))
            return
        verdict(obs, True, "", "")


def run_case(r, obs):
    k = r["k"]
    if k == "run":
        run_split(r, obs)
    elif k == "common":
        run_common(r, obs)
    elif k == "zip":
        run_zip(r, obs)
    elif k == "empty":
        obs.nontrivial = True
        flow = [(i, {"i": i}) if r["ctx"] else i for i in range(r["n"])]
        check_identity(obs, flow)
    else:
        raise ValueError(k)


RULE += (' Every run-driven Split object is run a second time on a fresh copy of the flow and compared with the schedule model on the same (stateful) twin branches.')
RULE += (' Source branches are also instances of a user subclass of Source; plain-sequence branches '
         'are also a bare run element: an inner Split of branches of mixed kinds, or the FillRequest '
         'adapter around a run-only sequence (buffer_input / buffer_output / yield_on_remainder).')
RULE += (' Splits of stateless branches (Sources, per-value sequences) are also run twice at the '
         'same time: two run() generators of one object consumed alternately.')
RULE += (' The bare iterable fill/compute branch rebinds its fill method on its first value.')

RULE += (' Round 10: 5..14 branches and / or flows of 17..130 values with block sizes around powers of two and the flow length; Splits of one branch kind on 1001 / 2300 values stopping in different thousands; every kind of copy of the empty Split.')
