"""Live contracts for C06 (also reused by C11/C12 as the independent cell finder).

Attached once per worker with rv.monitors.contracts.attach on the REAL

  * lena.structures.hist_functions.get_bin_on_value_1d
  * lena.structures.hist_functions.get_bin_on_value
  * lena.structures.histogram.histogram.fill

Every call any workload makes is evaluated.  The wrappers record and continue:
they never raise on their own (exceptions of the wrapped function propagate
unchanged); a non-terminating interpolation search is cut by a LINE step budget,
recorded, and answered with the reference value so that the run goes on.

Shadow conservation state is kept per histogram object (id -> Shadow, removed by
a weakref callback): exact rational total of the filled weights, exact rational
sum of the rounding errors the additions *should* have made, and the last
observed contents (to notice modifications made between fills by other code:
those re-baseline the shadow and are counted, never reported).
"""
import weakref
from collections import Counter
from fractions import Fraction

from rv.monitors import contracts, steps

counters = Counter()
_state = {"attached": False, "sb": None}
_shadow = {}
STEP_BUDGET = 20000


# ------------------------------------------------------------ reference side
def is_num(x):
    return isinstance(x, (int, float)) and not isinstance(x, bool) and x == x


def _finite(x):
    """Not a float nan/inf (ints, Fractions, Decimals and other objects pass)."""
    return not isinstance(x, float) or (x == x and abs(x) != float("inf"))


def count_le(arr, val):
    """Number of edges not greater than *val* (the statement, literally)."""
    n = 0
    for e in arr:
        if e <= val:
            n += 1
    return n


def scan_1d(arr, x):
    """Independent linear scan: the i with arr[i] <= x < arr[i+1], else None."""
    for i in range(len(arr) - 1):
        if arr[i] <= x < arr[i + 1]:
            return i
    return None


def unify_edges(edges):
    return edges if hasattr(edges[0], "__iter__") else [edges]


def unify_coord(coord):
    return list(coord) if isinstance(coord, (list, tuple)) else [coord]


def scan_cell(edges, coord):
    """Index tuple of the cell containing coord by linear scan, or None."""
    E = unify_edges(edges)
    C = unify_coord(coord)
    if len(E) != len(C):
        raise ValueError("dimension mismatch")
    idx = []
    for arr, x in zip(E, C):
        i = scan_1d(arr, x)
        if i is None:
            return None
        idx.append(i)
    return tuple(idx)


def flat_bins(bins, dim):
    out = bins
    for _ in range(dim - 1):
        out = [c for sub in out for c in sub]
    return list(out)


def flat_index(idx, nbins):
    k = 0
    for i, n in zip(idx, nbins):
        k = k * n + i
    return k


def unflat_index(k, nbins):
    idx = []
    for n in reversed(nbins):
        idx.append(k % n)
        k //= n
    return tuple(reversed(idx))


# ------------------------------------------------------------ 1-d contract
def _check_1d(val, arr, res):
    try:
        if not is_num(val):
            counters["skipped_1d_non_numeric"] += 1
            return
        exp = count_le(arr, val) - 1
        counters["evals_1d"] += 1
        contracts.evaluations["get_bin_on_value_1d"] += 1
        if res != exp or isinstance(res, bool):
            if val < arr[0]:
                where = "underflow"
            elif val >= arr[-1]:
                where = "overflow"
            elif any(val == e for e in arr):
                where = "at-edge"
            else:
                where = "inside"
            contracts.report(
                "bin-index-wrong:" + where,
                "get_bin_on_value_1d(%r, %r) = %r, but %d edge(s) are not greater than the "
                "value, so the index must be %d" % (val, list(arr), res, exp + 1, exp))
    except Exception:  # pylint: disable=broad-except
        counters["contract_oracle_skipped"] += 1


def _make_1d(orig):
    def get_bin_on_value_1d(val, arr):
        sb = _state["sb"]
        if sb is not None:
            sb.steps = 0
        if _state.get("nonterm", 0) >= 20:
            # the search has been seen not to terminate 20 times in this worker (each a
            # recorded violation): stop paying 20000 lines per call, let the workload go on
            counters["calls_bypassed_after_repeated_non_termination"] += 1
            return count_le(arr, val) - 1
        try:
            res = orig(val, arr)
        except steps.StepBudgetExceeded:
            _state["nonterm"] = _state.get("nonterm", 0) + 1
            counters["evals_1d"] += 1
            contracts.evaluations["get_bin_on_value_1d"] += 1
            contracts.report(
                "bin-search-does-not-terminate",
                "get_bin_on_value_1d(%r, %r) executed more than %d lines without returning"
                % (val, list(arr), STEP_BUDGET))
            if sb is not None:
                sb.steps = 0
            return count_le(arr, val) - 1
        _check_1d(val, arr, res)
        return res
    return get_bin_on_value_1d


# ------------------------------------------------------------ n-d contract
def _make_nd(orig):
    def get_bin_on_value(arg, edges):
        res = orig(arg, edges)
        try:
            if isinstance(arg, (tuple, list)):
                nums = all(is_num(a) for a in arg)
                exp = [count_le(arr, a) - 1 for arr, a in zip(edges, arg)] if nums else None
            else:
                nums = is_num(arg)
                exp = [count_le(edges, arg) - 1] if nums else None
            if exp is None:
                counters["skipped_nd_non_numeric"] += 1
            else:
                counters["evals_nd"] += 1
                contracts.evaluations["get_bin_on_value"] += 1
                if not (isinstance(res, list) and res == exp):
                    contracts.report(
                        "get_bin_on_value-differs",
                        "get_bin_on_value(%r, %r) = %r, per-dimension count of edges not "
                        "greater than the coordinate, minus one, is %r" % (arg, edges, res, exp))
        except Exception:  # pylint: disable=broad-except
            counters["contract_oracle_skipped"] += 1
        return res
    return get_bin_on_value


# ------------------------------------------------------------ fill contract
class Shadow(object):
    __slots__ = ("ref", "base", "wtotal", "err", "n", "last_flat", "last_oor", "numeric")


def _frac_sum(flat, oor):
    s = Fraction(oor)
    for c in flat:
        s += Fraction(c)
    return s


def _all_num(flat, oor):
    return is_num(oor) and all(is_num(c) and abs(c) != float("inf") for c in flat)


def _get_shadow(h, flat, oor):
    key = id(h)
    sh = _shadow.get(key)
    if sh is not None and sh.ref() is not h:
        sh = None
    if sh is None:
        sh = Shadow()
        sh.ref = weakref.ref(h, lambda _r, key=key: _shadow.pop(key, None))
        sh.n = 0
        _shadow[key] = sh
        _rebase(sh, flat, oor)
        counters["histograms_shadowed"] += 1
    elif sh.last_flat != flat or sh.last_oor != oor:
        # somebody else changed the contents between two fills (scale, set_nevents, ...)
        counters["shadow_rebaselined"] += 1
        _rebase(sh, flat, oor)
    return sh


def _rebase(sh, flat, oor):
    sh.numeric = _all_num(flat, oor)
    sh.base = _frac_sum(flat, oor) if sh.numeric else None
    sh.wtotal = Fraction(0)
    sh.err = Fraction(0)
    sh.last_flat = flat
    sh.last_oor = oor


def _conservation(sh, flat, oor, h, where):
    if not sh.numeric:
        return True
    counters["conservation_checks"] += 1
    contracts.evaluations["histogram-conservation"] += 1
    real = _frac_sum(flat, oor)
    want = sh.base + sh.wtotal
    if abs(real - want) > sh.err:
        contracts.report(
            "conservation-broken",
            "%s: sum of bins + n_out_of_range = %s but initial content + filled weight = %s "
            "(allowed rounding %s) after %d fills; edges=%r"
            % (where, float(real), float(want), float(sh.err), sh.n, h.edges))
        return False
    return True


def _make_fill(orig):
    def fill(self, coord, weight=1):
        pre = None
        try:
            E = unify_edges(self.edges)
            dim = len(E)
            nbins = [len(a) - 1 for a in E]
            flat0 = flat_bins(self.bins, dim)
            oor0 = self.n_out_of_range
            ncell = 1
            for n in nbins:
                ncell *= n
            if len(flat0) == ncell:
                pre = (E, dim, nbins, flat0, oor0)
        except Exception:  # pylint: disable=broad-except
            counters["contract_oracle_skipped"] += 1
        res = orig(self, coord, weight)
        if pre is not None:
            try:
                _check_fill(self, coord, weight, pre)
            except Exception:  # pylint: disable=broad-except
                counters["contract_oracle_skipped"] += 1
        return res
    return fill


def _check_fill(h, coord, weight, pre):
    E, dim, nbins, flat0, oor0 = pre
    C = unify_coord(coord)
    if len(C) != dim or not all(is_num(c) for c in C):
        counters["skipped_fill_non_numeric"] += 1
        return
    if not _finite(weight) or not _finite(oor0) or not all(_finite(c) for c in flat0):
        # nan / inf weights or contents (the repository's hypothesis tests fill them): NaN is
        # unequal to itself, so "which cells changed" has no answer; outside the domain
        counters["skipped_fill_non_finite"] += 1
        sh = _shadow.get(id(h))
        if sh is not None and sh.ref() is h:
            sh.numeric = False
            sh.last_flat = flat_bins(h.bins, dim)
            sh.last_oor = h.n_out_of_range
        return
    flat1 = flat_bins(h.bins, dim)
    oor1 = h.n_out_of_range
    cell = scan_cell(E, C)
    exp_flat = list(flat0)
    exp_oor = oor0
    if cell is None:
        exp_oor = oor0 + weight
        old = oor0
        new_exp = exp_oor
    else:
        k = flat_index(cell, nbins)
        old = flat0[k]
        exp_flat[k] = new_exp = old + weight
    counters["evals_fill"] += 1
    contracts.evaluations["histogram.fill"] += 1
    ok = (flat1 == exp_flat and oor1 == exp_oor and len(flat1) == len(flat0))
    if not ok:
        changed = [i for i, (a, b) in enumerate(zip(flat0, flat1)) if a != b]
        oor_changed = oor1 != oor0
        if cell is None:
            under = any(x < arr[0] for arr, x in zip(E, C))
            side = "underflow" if under else "overflow"
            if changed:
                mech = "fill-%s-lands-in-a-cell" % side
            elif not oor_changed:
                mech = "fill-%s-not-counted" % side
            else:
                mech = "fill-%s-wrong-amount" % side
        else:
            at_edge = any(any(x == e for e in arr) for arr, x in zip(E, C))
            sfx = ":at-edge" if at_edge else ":inside"
            if len(changed) > 1:
                mech = "fill-changes-several-cells" + sfx
            elif oor_changed and not changed:
                mech = "fill-in-range-counted-out-of-range" + sfx
            elif oor_changed:
                mech = "fill-changes-cell-and-out-of-range" + sfx
            elif not changed:
                mech = "fill-changes-nothing" + sfx
            elif changed[0] != flat_index(cell, nbins):
                mech = "fill-wrong-cell" + sfx
            else:
                mech = "fill-wrong-amount" + sfx
        contracts.report(
            mech,
            "histogram(edges=%r).fill(%r, %r): linear scan puts the value into cell %r; cells "
            "changed: %r (index, old, new), n_out_of_range %r -> %r"
            % (h.edges, coord, weight, cell,
               [(unflat_index(i, nbins), flat0[i], flat1[i]) for i in changed[:6]], oor0, oor1))
    # shadow conservation state
    sh = _get_shadow(h, flat0, oor0)
    sh.n += 1
    if sh.numeric and is_num(weight) and abs(weight) != float("inf") and is_num(new_exp) \
            and abs(new_exp) != float("inf"):
        fw = Fraction(weight)
        sh.wtotal += fw
        if not (isinstance(old, int) and isinstance(weight, int)):
            sh.err += abs(Fraction(new_exp) - Fraction(old) - fw)
    else:
        sh.numeric = False
    sh.last_flat = flat1
    sh.last_oor = oor1
    if sh.n & (sh.n - 1) == 0:
        _conservation(sh, flat1, oor1, h, "class invariant after fill")


def final_conservation(h):
    """Called by workloads at the end of a fill history: class invariant now."""
    try:
        E = unify_edges(h.edges)
        flat = flat_bins(h.bins, len(E))
        sh = _shadow.get(id(h))
        if sh is None or sh.ref() is not h:
            return None
        if sh.last_flat != flat or sh.last_oor != h.n_out_of_range:
            counters["shadow_rebaselined"] += 1
            return None
        return _conservation(sh, flat, h.n_out_of_range, h, "class invariant at end of history")
    except Exception:  # pylint: disable=broad-except
        counters["contract_oracle_skipped"] += 1
        return None


def attach():
    """Attach the three contracts (idempotent). Returns number of binding sites."""
    if _state["attached"]:
        return 0
    import lena.structures  # noqa  (loads every module holding a copy of the functions)
    import sys
    # "import lena.structures.histogram as m" would give the class (the package re-exports it)
    hf = sys.modules["lena.structures.hist_functions"]
    hmod = sys.modules["lena.structures.histogram"]
    orig_1d = hf.get_bin_on_value_1d
    n = contracts.attach(hf, "get_bin_on_value_1d", _make_1d)
    n += contracts.attach(hf, "get_bin_on_value", _make_nd)
    n += contracts.attach(hmod.histogram, "fill", _make_fill)
    sb = steps.StepBudget([orig_1d], STEP_BUDGET)
    sb.__enter__()
    _state["sb"] = sb
    _state["attached"] = True
    counters["binding_sites_rebound"] += n
    return n


def flush(obs):
    """Move the counters accumulated since the last flush into obs, drain violations."""
    for k, v in list(counters.items()):
        if v:
            obs.count("contract_" + k, v)
    counters.clear()
    for v in contracts.drain():
        obs.fail(v["mech"], v["msg"], **v.get("detail", {}))
