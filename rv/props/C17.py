"""C17 - flow iterators equal their Python reference (Slice is list slicing).

Exhaustive enumeration of the documented finite domain; every execution is
watched by the reference-model oracle (Python list slicing / itertools).
"""
import collections
import itertools

ID = "C17"
LEVEL = "exploration"
RULE = ("exhaustive: (start, stop) in {None,-7..7}^2, step in {None,1..4}, every flow "
        "0..10 (thorough: -16..16, steps up to 12, flows 0..24; one case = one argument triple "
        "x all flow lengths, in 1-, 2- and 3-argument form where expressible); fill_into for "
        "all non-negative triples; a table of large indices (250..1023, negative -1..-1000) on "
        "flows of 0..1030 values built from run-time int objects; invalid steps; "
        "Reverse/Chain/CountFrom/RunningChunkBy tables. Non-trivial: the reference "
        "result is non-empty for at least one flow (or the case is a rejection case)")
ASSUMPTIONS = ["flows are finite lists of distinct ints",
               "float steps with integral value (2.0) are not generated"]
ANCHORS = [("lena/flow/iterators.py", 16, 316), ("lena/flow/elements.py", 222, 278)]
MUST_REACH = [
    "lena/flow/iterators.py:Slice._run_negative_islice",
    "lena/flow/iterators.py:Slice.fill_into",
    "lena/flow/iterators.py:Slice.run",
    "lena/flow/iterators.py:Reverse.run",
    "lena/flow/iterators.py:Chain.__call__",
    "lena/flow/iterators.py:CountFrom.__call__",
    "lena/flow/elements.py:RunningChunkBy.run",
]
EXHAUSTIVE = {"quick": True, "thorough": True}
MIN_NONTRIVIAL = {"quick": 1000, "thorough": 1000}

IDX = [None] + list(range(-7, 8))
STEPS = [None, 1, 2, 3, 4]
NMAX = {"quick": 10, "thorough": 24}


def cases(tier, seed):
    idx = IDX if tier == "quick" else [None] + list(range(-16, 17))
    steps = STEPS if tier == "quick" else STEPS + [5, 6, 9, 12]
    for a in idx:
        for b in idx:
            for c in steps:
                yield {"k": "slice", "args": [a, b, c], "n": NMAX[tier]}
    nn = [None] + list(range(0, 8))
    for a in nn:
        for b in nn:
            for c in STEPS:
                yield {"k": "fill", "args": [a, b, c], "n": NMAX[tier]}
    # long flows and large indices (beyond CPython's cache of small ints, beyond 1000)
    big = [None, 0, 1, 250, 255, 256, 257, 258, 300, 511, 600, 1000, 1023]
    for a in big:
        for b in big:
            if a is not None and b is not None and b < a:
                continue
            for c in [None, 1, 3, 7, 128, 257]:
                yield {"k": "long", "args": [a, b, c]}
    for a in [-1, -2, -255, -256, -257, -300, -1000]:
        for b in [None, -1, -100, -256, -258, 600, 1024]:
            yield {"k": "long", "args": [a, b, None], "run_only": True}
    for a in [None, -3, 0, 2]:
        for b in [None, -2, 0, 5]:
            for c in [0, -1, -2, 1.5, 0.5, -0.5, "Frac:3/2", "Frac:-1/2", "Dec:2.5", "Dec:0.1",
                      "inf", "-inf", "nan"]:
                yield {"k": "badstep", "args": [a, b, c]}
    yield {"k": "reverse"}
    yield {"k": "chain"}
    yield {"k": "countfrom"}
    for size in range(1, 6):
        for cont in ["tuple", "list", "namedtuple", "tuple_it"]:
            yield {"k": "chunk", "size": size, "cont": cont}


def _forms(a, b, c):
    """Argument tuples equivalent to slice(a, b, c)."""
    forms = [(a, b, c)]
    if c is None:
        forms.append((a, b))
        if a is None:
            forms.append((b,))
    return forms


class HintedIter(object):
    """One-shot iterator whose __length_hint__ is only an estimate (PEP 424 allows an over- or
    an under-estimate): a reader that skips lines, a wrapper with an approximate total."""

    def __init__(self, xs, hint):
        self._it = iter(xs)
        self._hint = hint

    def __iter__(self):
        return self

    def __next__(self):
        return next(self._it)

    def __length_hint__(self):
        return self._hint


def alternately(g1, g2):
    """Consume two generators in turn; returns the two result lists."""
    out = ([], [])
    live = [iter(g1), iter(g2)]
    turn = 0
    while any(g is not None for g in live):
        i = turn % 2
        turn += 1
        if live[i] is None:
            continue
        try:
            out[i].append(next(live[i]))
        except StopIteration:
            live[i] = None
    return out


class Collect(object):
    def __init__(self):
        self.got = []

    def fill(self, val):
        self.got.append(val)


def run_case(r, obs):
    import lena.core
    import lena.flow
    k = r["k"]
    nmax = r.get("n", 10)
    if k == "slice":
        a, b, c = r["args"]
        for args in _forms(a, b, c):
            for n in range(0, nmax + 1):
                # values unrelated to positions: small, negative, float, non-numeric
                ys = [(-1) ** i * (i // 2) * 0.5 if i % 3 else "v%d" % i for i in range(n)]
                refy = ys[slice(*args)]
                goty = list(lena.flow.Slice(*args).run(iter(ys)))
                obs.check(goty == refy, "slice-run-differs:value-dependent",
                          "Slice%r.run(%r) = %r, list slicing gives %r" % (args, ys, goty, refy))
                xs = list(range(100, 100 + n))
                ref = xs[slice(*args)]
                s = lena.flow.Slice(*args)
                got = list(s.run(iter(xs)))
                obs.count("slice_runs")
                if ref:
                    obs.nontrivial = True
                obs.check(got == ref, "slice-run-differs",
                          "Slice%r.run(%r) = %r, list slicing gives %r" % (args, xs, got, ref))
                # the same element run on a second flow (elements are reusable)
                got2 = list(s.run(iter(xs)))
                obs.check(got2 == ref, "slice-second-run-differs",
                          "second run of Slice%r on %r = %r, expected %r" % (args, xs, got2, ref))
                if n in (3, 6, nmax):
                    # one-shot iterators whose length hint is an estimate
                    for hint in (n + 3, max(0, n - 2), 1, 2 * n + 1):
                        goth = list(lena.flow.Slice(*args).run(HintedIter(xs, hint)))
                        obs.count("slice_runs")
                        obs.check(goth == ref, "slice-run-differs:iterator-with-estimated-length",
                                  "Slice%r.run(iterator over %r whose __length_hint__ is %d) = %r, "
                                  "list slicing gives %r" % (args, xs, hint, goth, ref))
                    # two runs of one instance alive at the same time
                    ys2 = list(range(500, 500 + n))
                    ga, gb = alternately(s.run(iter(xs)), s.run(iter(ys2)))
                    obs.check(ga == ref and gb == ys2[slice(*args)],
                              "slice-run-differs:two-live-runs-of-one-instance",
                              "two runs of one Slice%r consumed alternately give %r and %r, "
                              "expected %r and %r" % (args, ga, gb, ref, ys2[slice(*args)]))
    elif k == "fill":
        a, b, c = r["args"]
        horizon = 40
        for args in _forms(a, b, c):
            selected = set(itertools.islice(range(horizon), *args))
            for n in range(0, nmax + 1):
                xs = list(range(100, 100 + n))
                ref = xs[slice(*args)]
                s = lena.flow.Slice(*args)
                col = Collect()
                stopped_at = None
                for i, x in enumerate(xs):
                    try:
                        s.fill_into(col, x)
                    except lena.core.LenaStopFill:
                        stopped_at = i
                        break
                obs.count("fill_into_histories")
                if n in (4, nmax):
                    # deep copies (what SplitIntoBins / MapBins / Vectorize make of a sequence)
                    # filled in turn with the original: each one slices its own flow
                    import copy
                    import warnings
                    with warnings.catch_warnings():
                        warnings.simplefilter("ignore")
                        group = [lena.flow.Slice(*args)]
                        group += [copy.deepcopy(group[0]), copy.deepcopy(group[0])]
                    cols = [Collect() for _ in group]
                    done = [False] * len(group)
                    for x in xs:
                        for gi, g in enumerate(group):
                            if done[gi]:
                                continue
                            try:
                                g.fill_into(cols[gi], x + 1000 * gi)
                            except lena.core.LenaStopFill:
                                done[gi] = True
                    for gi, c in enumerate(cols):
                        obs.check(c.got == [v + 1000 * gi for v in ref],
                                  "slice-fill_into-differs:deep-copies-filled-in-turn",
                                  "Slice%r and two deep copies of it filled in turn over %r: "
                                  "element %d filled %r, expected %r"
                                  % (args, xs, gi, c.got, [v + 1000 * gi for v in ref]))
                if n in (5, nmax):
                    # a copy (copy.copy / copy.deepcopy) taken after k values: the copy goes on
                    # from position k, and so does the original
                    import copy
                    import warnings
                    for k in sorted(set([1, 2, n // 2, n - 1]) - {0, -1}):
                        for cname, cp in (("copy.copy", copy.copy),
                                          ("copy.deepcopy", copy.deepcopy)):
                            s0 = lena.flow.Slice(*args)
                            c0 = Collect()
                            stopped = False
                            for x in xs[:k]:
                                try:
                                    s0.fill_into(c0, x)
                                except lena.core.LenaStopFill:
                                    stopped = True
                                    break
                            if stopped:
                                continue
                            with warnings.catch_warnings():
                                warnings.simplefilter("ignore")
                                s1 = cp(s0)
                            outs = []
                            for sl in (s1, s0):
                                cc = Collect()
                                cc.got = list(c0.got)
                                for x in xs[k:]:
                                    try:
                                        sl.fill_into(cc, x)
                                    except lena.core.LenaStopFill:
                                        break
                                outs.append(cc.got)
                            obs.count("fill_into_histories", 2)
                            # (a shallow copy shares the position with the original by
                            # definition: only the copy, filled first, is judged then)
                            obs.check(outs[0] == ref and (outs[1] == ref or cname == "copy.copy"),
                                      "slice-fill_into-differs:copied-after-some-values",
                                      "Slice%r filled with %r, then %s; the copy filled with the "
                                      "rest %r collects %r, the original %r, expected %r"
                                      % (args, xs[:k], cname, xs[k:], outs[0], outs[1], ref))
                if n == nmax and len(ref) >= 2:
                    # an element whose fill raises StopIteration for one selected value (next()
                    # on an exhausted iterator inside it): that is the element's failure, not
                    # the end of the slice - LenaStopFill would make Split drop the branch quietly
                    class FailsAt(object):
                        def __init__(self, k):
                            self.k, self.got = k, []

                        def fill(self, v):
                            if len(self.got) == self.k:
                                raise StopIteration("element failed")
                            self.got.append(v)
                    fa = FailsAt(len(ref) // 2)
                    s2 = lena.flow.Slice(*args)
                    outcome = None
                    for i, x in enumerate(xs):
                        try:
                            s2.fill_into(fa, x)
                        except lena.core.LenaStopFill:
                            outcome = ("LenaStopFill", i)
                            break
                        except (StopIteration, RuntimeError):
                            outcome = ("propagated", i)
                            break
                    obs.count("fill_into_histories")
                    later = [j for j in selected if outcome and j > outcome[1] and j < n]
                    obs.check(not (outcome and outcome[0] == "LenaStopFill" and later),
                              "slice-stopfill-too-early:element-fill-raises-StopIteration",
                              "Slice%r.fill_into: the filled element raised StopIteration at flow "
                              "index %r; Slice turned it into LenaStopFill although the indices %r "
                              "are still selected" % (args, outcome and outcome[1], later))
                if ref:
                    obs.nontrivial = True
                obs.check(col.got == ref, "slice-fill_into-differs",
                          "Slice%r.fill_into over %r filled %r, expected %r (stopped at %r)"
                          % (args, xs, col.got, ref, stopped_at))
                if stopped_at is not None:
                    obs.count("stopfill_seen")
                    later = [j for j in selected if j >= stopped_at]
                    obs.check(not later, "slice-stopfill-too-early",
                              "Slice%r raised LenaStopFill at index %d although indices %r "
                              "are still selected" % (args, stopped_at, later))
    elif k == "long":
        args = r["args"]
        obs.nontrivial = True
        for n in (0, 255, 256, 257, 258, 300, 700, 1030):
            # int objects built at run time (never the cached small ints nor shared constants)
            xs = [int("%d" % (100000 + i)) for i in range(n)]
            ref = xs[slice(*args)]
            got = list(lena.flow.Slice(*args).run(iter(xs)))
            obs.count("slice_runs")
            obs.check(got == ref, "slice-run-differs:long-flow",
                      "Slice%r.run over %d values yields %d values (first %r, last %r), list "
                      "slicing gives %d (first %r, last %r)"
                      % (tuple(args), n, len(got), got[:1], got[-1:], len(ref), ref[:1], ref[-1:]))
            if r.get("run_only"):
                continue
            s = lena.flow.Slice(*args)
            col = Collect()
            stopped_at = None
            for i, x in enumerate(xs):
                try:
                    s.fill_into(col, x)
                except lena.core.LenaStopFill:
                    stopped_at = i
                    break
            obs.count("fill_into_histories")
            obs.check(col.got == ref, "slice-fill_into-differs:long-flow",
                      "Slice%r.fill_into over %d values filled %d values (last %r), list slicing "
                      "gives %d (last %r); stopped at %r"
                      % (tuple(args), n, len(col.got), col.got[-1:], len(ref), ref[-1:],
                         stopped_at))
            if stopped_at is not None:
                obs.count("stopfill_seen")
                sel = set(range(n + 2000)[slice(*args)])
                obs.check(not [j for j in sel if j >= stopped_at], "slice-stopfill-too-early",
                          "Slice%r raised LenaStopFill at index %d although later indices are "
                          "still selected" % (tuple(args), stopped_at))
    elif k == "badstep":
        a, b, c = r["args"]
        if isinstance(c, str):
            import decimal
            import fractions
            c = (fractions.Fraction(c[5:]) if c.startswith("Frac:") else
                 decimal.Decimal(c[4:]) if c.startswith("Dec:") else float(c))
        obs.nontrivial = True
        try:
            lena.flow.Slice(a, b, c)
        except lena.core.LenaValueError:
            obs.count("badstep_rejected")
        except Exception as e:  # pylint: disable=broad-except
            obs.fail("slice-badstep-wrong-exception",
                     "Slice(%r,%r,%r) raised %r instead of LenaValueError" % (a, b, c, e))
        else:
            obs.fail("slice-badstep-accepted",
                     "Slice(%r,%r,%r) was accepted at construction" % (a, b, c))
    elif k == "reverse":
        obs.nontrivial = True
        for n in list(range(0, 12)) + [127, 128, 129, 200, 255, 256, 257, 300, 511, 513, 700,
                                        1024, 1025, 1300, 4097]:
            xs = list(range(n))
            got = list(lena.flow.Reverse().run(iter(xs)))
            obs.check(got == list(reversed(xs)), "reverse-differs",
                      "Reverse.run(%r) = %r" % (xs, got))
            rv = lena.flow.Reverse()
            list(rv.run(iter(xs)))
            got = list(rv.run(iter(xs)))
            obs.check(got == list(reversed(xs)), "reverse-second-run-differs",
                      "second run of one Reverse instance on %r = %r" % (xs, got))
            # the flow given as a list that its owner changes while the result is being read:
            # reversed(list(xs)) works on what the flow held when it was read
            for change in ("clear", "pop-front", "append", "refill"):
                ys = list(range(n))
                g = lena.flow.Reverse().run(ys)
                gotr = list(itertools.islice(g, 1))
                if change == "clear":
                    del ys[:]
                elif change == "pop-front" and ys:
                    ys.pop(0)
                elif change == "append":
                    ys.append(99)
                else:
                    ys[:] = [7] * len(ys)
                gotr += list(g)
                obs.check(gotr == list(reversed(range(n))), "reverse-differs:list-changed-while-read",
                          "Reverse.run(list %r), the list %s after the first result was taken: %r, "
                          "expected %r" % (list(range(n)), change, gotr, list(reversed(range(n)))))
            got = list(lena.flow.Reverse().run(xs))   # a list, not an iterator
            obs.check(got == list(reversed(xs)) and xs == list(range(n)),
                      "reverse-differs", "Reverse.run(list %r) = %r" % (xs, got))
    elif k == "chain":
        obs.nontrivial = True
        pools = [[], [1], [1, 2, 3], ["a", "b"], (), (7,), range(3), "xy"]
        for m in range(0, 4):
            for its in itertools.product(pools, repeat=m):
                ch = lena.flow.Chain(*its)
                got = list(ch())
                ref = list(itertools.chain(*its))
                obs.check(got == ref, "chain-differs", "Chain%r() = %r, expected %r" % (its, got, ref))
                # re-iterable arguments: every call chains them again
                got2 = list(ch())
                obs.check(got2 == ref, "chain-second-call-differs",
                          "second call of Chain%r() = %r, expected %r" % (its, got2, ref))
                obs.count("chain_runs")
        # every kind of iterable itertools.chain accepts: dict, dict views, sets, deques,
        # iterators / generators (one-shot), objects with __iter__ only, objects iterable through
        # the sequence protocol only (__getitem__: ctypes arrays, user record containers)
        import collections as _coll
        import ctypes

        class GetItemOnly(object):
            def __init__(self, xs):
                self.xs = xs

            def __getitem__(self, i):
                return self.xs[i]

        class IterOnly(object):
            def __init__(self, xs):
                self.xs = xs

            def __iter__(self):
                return iter(self.xs)

        class CallableIter(IterOnly):
            def __call__(self, *args):
                return ["called"]
        import enum
        Colour = enum.Enum("Colour", "red green")
        makers = {
            "dict": lambda: {"a": 1, "b": 2}, "dict-items": lambda: {"a": 1}.items(),
            "frozenset": lambda: frozenset([5]), "deque": lambda: _coll.deque([1, 2]),
            "generator": lambda: (i for i in range(3)), "iterator": lambda: iter([8, 9]),
            "iter-only": lambda: IterOnly([1, 2]), "getitem-only": lambda: GetItemOnly([3, 4, 5]),
            "ctypes-array": lambda: (ctypes.c_int * 3)(1, 2, 3), "bytes": lambda: b"ab",
            "list": lambda: [0], "empty-getitem-only": lambda: GetItemOnly([]),
            # iterables that can also be called (a data set object, an Enum class)
            "iterable-and-callable": lambda: CallableIter([6, 7]),
            "enum-class": lambda: Colour,
        }
        names = sorted(makers)
        for m in (1, 2):
            for combo in itertools.product(names, repeat=m):
                ref = list(itertools.chain(*[makers[c]() for c in combo]))
                try:
                    got = list(lena.flow.Chain(*[makers[c]() for c in combo])())
                except Exception as e:  # pylint: disable=broad-except
                    got = "raised %r" % (e,)
                obs.check(got == ref, "chain-differs:" + (
                    "sequence-protocol-only-iterable"
                    if any(c in ("getitem-only", "ctypes-array", "empty-getitem-only")
                           for c in combo) else "iterable-kinds"),
                          "Chain(%s)() = %r, itertools.chain gives %r" % (", ".join(combo), got, ref))
                obs.count("chain_runs")
        # a later argument that is filled while an earlier one is being read (values postponed
        # into a deque / dict / list): iter() of it is taken when its turn comes
        for kind in ("deque", "dict", "list", "set"):
            def run(chain_of):
                pending = {"deque": _coll.deque(), "dict": {}, "list": [], "set": set()}[kind]

                def events():
                    for i in range(5):
                        if i % 2:
                            if kind == "dict":
                                pending[i] = None
                            elif kind == "set":
                                pending.add(i)
                            else:
                                pending.append(i)
                        else:
                            yield i
                try:
                    return list(chain_of(events(), pending))
                except Exception as e:  # pylint: disable=broad-except
                    return "raised %r" % (e,)
            got = run(lambda *its: lena.flow.Chain(*its)())
            ref = run(itertools.chain)
            obs.count("chain_runs")
            obs.check(got == ref, "chain-differs:later-argument-filled-while-an-earlier-is-read",
                      "Chain(events(), pending %s)() = %r, itertools.chain gives %r"
                      % (kind, got, ref))
        # a result abandoned half-way: like itertools.chain, Chain does not touch its inputs
        # beyond what it was asked for (a generator given to it can be read on afterwards)
        for take in range(0, 6):
            for how in ("close", "drop", "keep"):
                def mkgens():
                    return (i for i in range(4)), iter([10, 11]), (i for i in range(20, 23))
                g_real, g_ref = mkgens(), mkgens()
                res = lena.flow.Chain(*g_real)()
                ref_it = itertools.chain(*g_ref)
                got = list(itertools.islice(res, take))
                exp = list(itertools.islice(ref_it, take))
                if how == "close":
                    res.close()
                elif how == "drop":
                    del res
                rest = [list(g) for g in g_real]
                rest_ref = [list(g) for g in g_ref]
                obs.count("chain_runs")
                obs.check(got == exp and rest == rest_ref,
                          "chain-differs:inputs-after-an-abandoned-result",
                          "Chain(gen, iterator, gen)() read for %d values then %s: got %r, and the "
                          "inputs still hold %r; with itertools.chain %r and %r"
                          % (take, how, got, rest, exp, rest_ref))
    elif k == "countfrom":
        obs.nontrivial = True
        for start in [0, 1, -5, 2.5, 10 ** 12]:
            for step in [1, 2, -1, 0, 0.25, 7]:
                cf = lena.flow.CountFrom(start, step)
                got = list(itertools.islice(cf(), 25))
                ref = list(itertools.islice(itertools.count(start, step), 25))
                obs.check(got == ref, "countfrom-differs",
                          "CountFrom(%r,%r) = %r.., expected %r" % (start, step, got[:5], ref[:5]))
                obs.count("countfrom_runs")
                # the same instance generates an independent flow on every call,
                # also when the flows are consumed interleaved
                g1 = cf()
                a = [next(g1) for _ in range(3)]
                g2 = cf()
                b = [next(g2) for _ in range(4)]
                a += [next(g1) for _ in range(3)]
                obs.check(a == ref[:6] and b == ref[:4], "countfrom-calls-not-independent",
                          "CountFrom(%r,%r): interleaved calls of one instance gave %r and %r, "
                          "itertools.count gives %r" % (start, step, a, b, ref[:6]))
                again = list(itertools.islice(cf(), 25))
                obs.check(again == ref, "countfrom-calls-not-independent",
                          "CountFrom(%r,%r): a later call gave %r.." % (start, step, again[:5]))
        cf = lena.flow.CountFrom()
        obs.check(list(itertools.islice(cf(), 5)) == [0, 1, 2, 3, 4], "countfrom-differs",
                  "CountFrom() default")
    elif k == "chunk":
        size, cont = r["size"], r["cont"]
        if cont == "tuple":
            mk = lambda: lena.flow.RunningChunkBy(size)
            conv = tuple
        elif cont == "tuple_it":
            mk = lambda: lena.flow.RunningChunkBy(size, tuple, from_iterable=True)
            conv = tuple
        elif cont == "list":
            mk = lambda: lena.flow.RunningChunkBy(size, list, from_iterable=True)
            conv = list
        else:
            NT = collections.namedtuple("NT", ["f%d" % i for i in range(size)])
            mk = lambda: lena.flow.RunningChunkBy(size, NT)
            conv = lambda w: NT(*w)
        for n in range(0, 10):
            xs = list(range(n))
            ref = [conv(xs[i:i + size]) for i in range(0, n - size + 1)]
            got = list(mk().run(iter(xs)))
            if ref:
                obs.nontrivial = True
            obs.check(got == ref and [type(g) for g in got] == [type(x) for x in ref],
                      "runningchunkby-differs",
                      "RunningChunkBy(%d,%s).run(%r) = %r, expected %r" % (size, cont, xs, got, ref))
            el = mk()
            list(el.run(iter(xs)))
            got = list(el.run(iter(xs)))
            obs.check(got == ref, "runningchunkby-second-run-differs",
                      "second run of one RunningChunkBy(%d,%s) on %r = %r" % (size, cont, xs, got))
            got = list(mk().run(xs))
            obs.check(got == ref, "runningchunkby-differs",
                      "RunningChunkBy(%d,%s).run(list) = %r, expected %r" % (size, cont, got, ref))
            # two runs of one instance alive at once (the element twice in one sequence,
            # two flows zipped): each is the sliding window of its own flow
            el = mk()
            ys = list(range(100, 100 + n + 1))
            refy = [conv(ys[i:i + size]) for i in range(0, len(ys) - size + 1)]
            ga, gb = alternately(el.run(iter(xs)), el.run(iter(ys)))
            obs.check(ga == ref and gb == refy, "runningchunkby-differs:two-live-runs",
                      "two runs of one RunningChunkBy(%d,%s) consumed alternately give %r and "
                      "%r, expected %r and %r" % (size, cont, ga, gb, ref, refy))
            obs.count("chunk_runs")

LEVEL_TEXT = ("Exhaustive enumeration of the finite domain the property names (all start/stop "
              "in {None,-7..7}, step in {None,1..4}, flows 0..10; all non-negative fill_into "
              "triples; tables for Reverse/Chain/CountFrom/RunningChunkBy), each execution of "
              "the real element compared with Python list slicing / itertools by a reference "
              "oracle. Complete for that domain, silent about indices beyond 7 and flows "
              "longer than 10 (14 in the thorough tier).")
LEVEL_NOTE = ("Trusts Python's own list slicing, itertools and the /venv interpreter; "
              "line-coverage monitor confirms _run_negative_islice, fill_into and all iterator "
              "run methods were executed.")
TECHNIQUE = "exhaustive workload + reference-model oracle (list slicing / itertools) on every run"
RULE += (' Chain is also given every kind of iterable itertools.chain accepts (dicts and views, sets, '
         'deques, one-shot iterators, objects with only __iter__, objects iterable through '
         '__getitem__ only such as ctypes arrays).')
RULE += (' Added: Chain results abandoned half-way (closed / dropped): the inputs can be read on as '
         'with itertools.chain; Slice.fill_into into an element whose fill raises StopIteration.')
RULE += (' Added: invalid steps that are Fractions, Decimals, infinities and nan, with negative '
         'and non-negative indices.')
RULE += (' Added: Chain arguments that are iterable and also callable (an object, an Enum class).')

RULE += (' Round 10: Reverse on 127..4097 values; Slice copied (copy.copy, copy.deepcopy) after k fills, copy and original filled on.')
