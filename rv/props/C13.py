"""C13 - static context causality.

The static context an element receives is the fold, in document order, of the
SetContext updates that precede it in its enclosing sequences; Split copies per
branch and exports the intersection; nothing later or in a sibling branch can
change what an earlier element saw or the name it derived from it.

Monitors
  (1) reference model (rv/props/_c13_model.py, pure fold over the recipe tree,
      imports nothing from lena) against every consumer leaf:
        StoreContext.context; UpdateContextFromStatic through the run-time context
        it adds to a probe value; MakeFilename through the output.* of a probe
        value; Write.output_directory; Cache through the file it opens (audit hook);
      and against root._get_context().
  (2) causality as a metamorphic relation: a SetContext inserted right after a
      consumer, appended to any enclosing / sibling container, or an altered value
      of an existing SetContext must leave every observation unchanged that is
      not downstream of the change (decided from the paths alone, not from the
      model); identity walker: no consumer shares a mutable object with any
      SetContext element (SetContext mutates the dictionary it is handed).
  (3) a formatting key that cannot be resolved: construction succeeds and
      root._get_context() raises LenaKeyError naming the first missing key.
  (4) the real tree is run on probe values and compared with the model's run:
      a value that passed no UpdateContextFromStatic carries no static key.
"""
import copy
import itertools
import json
import os
import random
import shutil
import tempfile

from rv import gen
from rv.props import _c13_model as M

ID = "C13"
LEVEL = "exploration"
RULE = ("trees of Sequence/Source/Split (root of either kind; Split branches given as tuple, "
        "Sequence, Source or bare element) over the leaves SetContext (constant, falsy, "
        "dictionary and formatting values, nested keys), StoreContext, "
        "UpdateContextFromStatic, MakeFilename, Write, Cache and data elements. Enumerated "
        "completely: all shapes with <= 3 leaves over a 9-leaf vocabulary (quick: 2 container "
        "levels, thorough: 3 levels, plus 4 leaves over a 5-leaf vocabulary), both Sequence "
        "and Source roots; plus seeded random trees up to depth 3 (thorough: 4) with up to "
        "~14 leaves, ~80% resolvable. Every tree is rebuilt in up to 6 (thorough 10) "
        "perturbed forms for the causality relation. Non-trivial: the tree has a SetContext "
        "and at least one consumer observation was compared, or the unresolved-key oracle "
        "was evaluated")
ASSUMPTIONS = [
    "every element instance is used in one tree only (docs: reusing SetContext is unsafe)",
    "empty Split([]) is not generated (its static context is a convention)",
    "intersection of two different sub-dictionaries keeps the key with the recursive "
    "(possibly empty) intersection, as lena.context.intersection documents by example",
    "flows are non-empty lists of (data, context) pairs shorter than the Split buffer",
    "a Write/Cache template that its prefix cannot resolve has no specified name: only "
    "causality is demanded for it",
    "in a tree with an unresolved SetContext only the LenaKeyError clause is checked",
]
ANCHORS = [("lena/core/lena_sequence.py", 84, 133), ("lena/core/split.py", 108, 136),
           ("lena/meta/elements.py", 42, 65), ("lena/meta/elements.py", 91, 95),
           ("lena/meta/elements.py", 129, 138), ("lena/output/make_filename.py", 97, 98),
           ("lena/output/write.py", 286, 298), ("lena/flow/cache.py", 159, 168)]
MUST_REACH = [
    "lena/core/lena_sequence.py:LenaSequence._set_context",
    "lena/core/lena_sequence.py:LenaSequence._get_context",
    "lena/core/split.py:LenaSplit._set_context",
    "lena/core/split.py:LenaSplit._get_context",
    "lena/meta/elements.py:SetContext._set_context",
    "lena/meta/elements.py:SetContext._get_context",
    "lena/meta/elements.py:StoreContext._set_context",
    "lena/meta/elements.py:UpdateContextFromStatic._set_context",
    "lena/meta/elements.py:UpdateContextFromStatic.run",
    "lena/output/make_filename.py:MakeFilename._set_context",
    "lena/output/make_filename.py:MakeFilename.__call__",
    "lena/output/write.py:Write._set_context",
    "lena/flow/cache.py:Cache._set_context",
    "lena/flow/cache.py:Cache._dump_flow_and_yield",
]
MUST_COUNT = ["static_observations", "causality_comparisons", "identity_checks",
              "keyerror_oracle", "run_values_checked", "cache_paths_observed",
              "root_context_checks"]
MIN_NONTRIVIAL = {"quick": 3000, "thorough": 100000}
EXHAUSTIVE = {"quick": False, "thorough": False}
NRANDOM = {"quick": 2500, "thorough": 150000}
NVARIANTS = {"quick": 6, "thorough": 10}

LEVEL_TEXT = ("Every tree of the enumerated small domain and of a seeded random sample of "
              "larger trees is built from the real Sequence/Source/Split/meta/output/Cache "
              "classes; each consumer's observable (stored context, run-time context added to a "
              "probe, produced output.*, Write.output_directory, file opened by Cache) is "
              "compared with an independent fold model, re-observed under perturbations of "
              "later and sibling SetContext elements (metamorphic causality, decided from "
              "tree paths only), checked for dictionaries shared with a SetContext, and the "
              "tree is run on probe values against the model's run. Held on the trees reported "
              "in the evidence; silent about user-defined elements with _set_context and about "
              "FillComputeSeq/FillRequestSeq containers.")
LEVEL_NOTE = ("Trusts the model in rv/props/_c13_model.py (about 120 lines, no lena import) and "
              "the audit hook for the Cache file name. The causality relation does not use the "
              "model. MakeFilename's own formatting rules (no overwrite of existing output "
              "keys, run-time context shadows static context) are re-stated in the run model.")
TECHNIQUE = ("reference-model monitor (pure fold) + metamorphic causality relation + "
             "identity-graph walker + audit-hook log, over enumerated and random recipe trees")

# ------------------------------------------------------------------ vocabulary
FLOW = [[0, {}], [1, {"r": 1}]]

ENUM9 = [["set", "a", 1], ["set", "a", 2], ["set", "b", "{{a}}x"], ["store"], ["ucfs"],
         ["mkfn", {"filename": "{{b}}", "dirname": "{{a}}"}], ["write", "w_{{a}}"],
         ["cache", "c_@_{{a}}.pkl"], ["data", "inc"]]
ENUM5 = [["set", "a", 1], ["set", "b", "{{a}}x"], ["store"], ["ucfs"],
         ["mkfn", {"filename": "{{b}}", "dirname": "{{a}}"}]]

KEYS = ["a", "b", "c", "d.x", "d.y", "e.f.g", "a", "b", "r",    # "r" is also a run-time key
        "a", "c", "d.x", "b", "output.prefix", "output.suffix"]   # static names of output.*
CONSTS = [1, 2, "s", "t", True, 0, "", 3.5, [1, 2], ["cut", [0, 1]]]
FORMATS = ["{{a}}", "{{b}}_{{a}}", "p{{c}}", "{{d.x}}", "{{d.y}}{{a}}", "{{e.f.g}}", "{{d}}",
           "{{a}}{{a}}", "{{c}}-{{b}}"]
DICTS = [["d", {"x": 5, "z": {"w": 1}}], ["e", {"f": {"g": 7}}], ["e.f", {"g": 8, "h": 9}],
         # the same given as dict subclasses (an OrderedDict, a lena.context.Context)
         ["d", {"__odict__": {"x": 5, "z": {"w": 1}}}], ["e", {"__context__": {"f": {"g": 7}}}],
         ["d", {"x": 6, "z": {"__odict__": {"w": 2}}}]]
MK_TEMPLATES = ["{{a}}", "f_{{b}}", "{{d.x}}", "{{a}}_{{c}}", "plain", "{{e.f.g}}", "{{r}}{{a}}",
                "{{d}}"]
WRITE_TEMPLATES = ["w_{{a}}", "out/{{b}}/{{a}}", "plain", "w{{d.x}}", "{{c}}", "{{e.f.g}}_{{a}}",
                   "w{{d}}", "w{{e.f}}"]
CACHE_TEMPLATES = ["c_@_{{a}}.pkl", "c_@_{{b}}{{d.y}}.pkl", "c_@.pkl", "c_@_{{c}}.pkl",
                   "c_@_{{d}}.pkl", "c_@_{{e.f}}.pkl"]
STATIC_TOP = {"a", "b", "c", "d", "e", "zz"}


def _label(item, n):
    """Give a consumer leaf its label (and make a Cache name unique)."""
    k = item[0]
    lab = "%s%d" % (k[0], n)
    if k in ("store", "ucfs"):
        return [k, lab]
    if k == "mkfn":
        return [k, lab, item[1], item[2] if len(item) > 2 else False]
    if k == "write":
        return [k, lab, item[1]]
    if k == "cache":
        return [k, lab, item[1].replace("@", lab)]
    return item


# ------------------------------------------------------------------ enumeration
def _compositions(n):
    if n == 0:
        yield []
        return
    for first in range(1, n + 1):
        for rest in _compositions(n - first):
            yield [first] + rest


def _item_shapes(n, d):
    if n == 1:
        yield "L"
    if d <= 0:
        return
    for its in _items_shapes(n, d - 1):
        yield ["seq", its]
    for comp in _compositions(n):
        if len(comp) > 3:
            continue
        for brs in itertools.product(*[list(_items_shapes(m, d - 1)) for m in comp]):
            yield ["split", [["tuple", list(b)] for b in brs]]


def _items_shapes(n, d):
    for comp in _compositions(n):
        for parts in itertools.product(*[list(_item_shapes(m, d)) for m in comp]):
            yield list(parts)


def _fill(shape, leaves, counter):
    if shape == "L":
        i = counter[0]
        counter[0] += 1
        return _label(copy.deepcopy(leaves[i]), i)
    k = shape[0]
    if k in ("seq", "tuple"):
        return [k, [_fill(s, leaves, counter) for s in shape[1]]]
    if k == "split":
        return ["split", [_fill(b, leaves, counter) for b in shape[1]]]
    raise ValueError(shape)


def _enumerated(tier):
    """(root kind, items shape, leaf assignment) of the complete small domain."""
    plans = [(3, 1 if tier == "quick" else 2, ENUM9)]
    if tier == "thorough":
        plans.append((4, 1, ENUM5))
    for nmax, levels, vocab in plans:
        for n in range((1 if vocab is ENUM9 else 4), nmax + 1):
            shapes = list(_items_shapes(n, levels))
            nsets = [i for i, v in enumerate(vocab) if v[0] == "set"]
            for si, shape in enumerate(shapes):
                for ai, assign in enumerate(itertools.product(range(len(vocab)), repeat=n)):
                    if not any(i in nsets for i in assign):
                        continue            # no SetContext: the context is {} everywhere
                    if tier == "quick" and n == 3 and (si + ai) % 3:
                        continue            # quick: every third of the 3-leaf trees
                    leaves = [vocab[i] for i in assign]
                    if tier == "quick" or (n == 3 and levels == 2):
                        roots = ["seq" if (si // 3 + ai) % 2 else "source"]
                    else:
                        roots = ["seq", "source"]
                    for root in roots:
                        counter = [0]
                        items = [_fill(s, leaves, counter) for s in shape]
                        if root == "seq":
                            yield ["seq", items]
                        else:
                            yield ["source", items, 0]


# ------------------------------------------------------------------ random trees
def _rand_leaf(rng, counter):
    x = rng.random()
    n = counter[0]
    counter[0] += 1
    if x < 0.38:
        y = rng.random()
        if y < 0.5:
            key = rng.choice(KEYS)
            if key.startswith("output."):
                # names are strings (a number as output.prefix is a user error, not a case)
                return ["set", key, rng.choice(["s", "t", "P_", ""])]
            return ["set", key, rng.choice(CONSTS)]
        if y < 0.90:
            return ["set", rng.choice(KEYS), rng.choice(FORMATS)]
        if y < 0.985:
            return ["set"] + copy.deepcopy(rng.choice(DICTS))
        return ["set", rng.choice(KEYS), "{{zz}}"]
    if x < 0.52:
        return _label(["store"], n)
    if x < 0.66:
        return _label(["ucfs"], n)
    if x < 0.76:
        # MakeFilename rejects filename together with prefix / suffix
        pool = ["filename", "dirname", "fileext"] if rng.random() < 0.6 else \
            ["prefix", "suffix", "dirname", "fileext", "prefix", "suffix"]
        fields = sorted(set(rng.sample(pool, rng.randint(1, 3))))
        return _label(["mkfn", {f: rng.choice(MK_TEMPLATES) for f in sorted(fields)},
                       rng.random() < 0.15], n)
    if x < 0.84:
        return _label(["write", rng.choice(WRITE_TEMPLATES)], n)
    if x < 0.90:
        return _label(["cache", rng.choice(CACHE_TEMPLATES)], n)
    return ["data", rng.choice(["inc", "dbl", "ctx:r"])]


def _rand_items(rng, levels, counter, lo, hi):
    return [_rand_item(rng, levels, counter) for _ in range(rng.randint(lo, hi))]


def _pre(rng, items):
    n = 0
    for it in items:
        if it[0] in ("set", "store"):
            n += 1
        else:
            break
    return rng.randint(0, n) if rng.random() < 0.35 else 0


def _fill_items(rng, levels, counter, kind):
    """Items of a fill sequence: context elements and callables, the accumulator, then
    anything (also nested sequences and Splits, which start a partial fold of their own)."""
    pre = []
    for _ in range(rng.randint(0, 2)):
        leaf = _rand_leaf(rng, counter)
        while leaf[0] not in ("set", "store", "mkfn", "data"):
            leaf = _rand_leaf(rng, counter)
        pre.append(leaf)
    return pre + [["acc", kind]] + _rand_items(rng, levels - 1, counter, 1, 4)


def _rand_item(rng, levels, counter):
    x = rng.random()
    if levels <= 0 or x < 0.66:
        return _rand_leaf(rng, counter)
    if x < 0.78:
        return ["seq", _rand_items(rng, levels - 1, counter, 0 if rng.random() < 0.1 else 1, 3)]
    if x < 0.83:
        kind = rng.choice(["fc", "fr"])
        return ["fcseq" if kind == "fc" else "frseq", _fill_items(rng, levels, counter, kind)]
    return _rand_split(rng, levels, counter)


def _rand_split(rng, levels, counter):
    brs = []
    for _ in range(rng.randint(1, 3)):
        y = rng.random()
        lo = 0 if rng.random() < 0.08 else 1
        if y < 0.12:
            # a tuple that holds an accumulator: Split turns it into a fill sequence
            brs.append(["tuple", _fill_items(rng, levels, counter, rng.choice(["fc", "fr"]))])
        elif y < 0.6:
            brs.append(["tuple", _rand_items(rng, levels - 1, counter, lo, 3)])
        elif y < 0.8:
            brs.append(["seq", _rand_items(rng, levels - 1, counter, lo, 3)])
        elif y < 0.9:
            its = _rand_items(rng, levels - 1, counter, lo, 3)
            brs.append(["source", its, _pre(rng, its)])
        else:
            brs.append(["bare", [_rand_leaf(rng, counter)]])
    for br in brs:
        if br[0] == "tuple":
            # a fill sequence given directly in a tuple would make Split take the whole tuple
            # for a fill sequence: it stands in a Sequence of its own there
            # (so does a nested Split whose branches are fill sequences: it is a fill element)
            br[1] = [["seq", [x]] if x[0] in ("fcseq", "frseq") or
                     (x[0] == "split" and '"acc"' in json.dumps(x)) else x for x in br[1]]
    if rng.random() < 0.3:
        # copy_buf concerns the buffer of run-time values; the static context is handed to
        # each branch as an independent copy whatever its value
        return ["split", brs, {"copy_buf": False}]
    return ["split", brs]


def rand_tree(rng, maxlevels):
    counter = [0]
    x = rng.random()
    levels = rng.randint(1, maxlevels) - 1
    if x < 0.06:
        kind = rng.choice(["fc", "fr"])
        return ["fcseq" if kind == "fc" else "frseq",
                _fill_items(rng, max(levels, 1), counter, kind)]
    if x < 0.45:
        return ["seq", _rand_items(rng, levels, counter, 1, 5)]
    if x < 0.82:
        its = _rand_items(rng, levels, counter, 1, 5)
        return ["source", its, _pre(rng, its)]
    return _rand_split(rng, max(levels, 1), counter)


def _twostage():
    """An inner sequence with two formatted SetContext elements that need DIFFERENT keys,
    enclosed by something whose prefix resolves none / the first / the second / both."""
    for m1, m2 in (("a", "b"), ("c", "a"), ("d.x", "b")):
        inner_items = [["set", "t", "r{{%s}}" % m1], ["store", "s1"], ["data", "inc"],
                       ["set", "l", "{{%s}}" % m2], ["store", "s2"]]
        for resolve in ("none", "first", "second", "both"):
            pre = []
            if resolve in ("first", "both"):
                pre.append(["set", m1, 3])
            if resolve in ("second", "both"):
                pre.append(["set", m2, "v"])
            for shape in ("seq", "source", "split", "deep"):
                inner = ["seq", copy.deepcopy(inner_items)]
                p = copy.deepcopy(pre)
                if shape == "seq":
                    yield ["seq", p + [["data", "inc"], inner]]
                elif shape == "source":
                    yield ["source", p + [inner], 0]
                elif shape == "split":
                    yield ["seq", p + [["split", [inner, ["tuple", [["data", "inc"]]]]]]]
                else:
                    yield ["seq", p[:1] + [["seq", p[1:] + [["seq", [inner]]]]]]


def _targeted():
    """Small enumerated families around rarely used options."""
    # Split(copy_buf=False): the static context is still copied per branch
    for nested_key in ("d.x", "a"):
        for first in (0, 1):
            brs = [["tuple", [["set", "d.y" if nested_key == "d.x" else "b", 2], ["store", "sA"],
                              ["data", "inc"]]],
                   ["tuple", [["store", "sB"], ["write", "w1", "o_{{a}}"], ["data", "dbl"]]],
                   ["seq", [["ucfs", "uC"], ["set", "c", "{{%s}}" % nested_key]]]]
            if first:
                brs = brs[1:] + brs[:1]
            for kw in ({"copy_buf": False}, None):
                sp = ["split", copy.deepcopy(brs)] + ([kw] if kw else [])
                yield ["seq", [["set", nested_key, 1], ["set", "a", 5], sp, ["store", "sEnd"]]]
    # a template field that is a whole sub-dictionary: its text changes when an enclosing
    # level adds keys to that dictionary after the inner sequence was built
    for outer_key in ("d.y", "d.x", "e.f.h"):
        field = "{{d}}" if outer_key.startswith("d") else "{{e.f}}"
        inner_key = "d.x" if outer_key.startswith("d") else "e.f.g"
        for depth in (1, 2):
            inner = ["seq", [["set", inner_key, 1], ["set", "t", "T" + field], ["store", "sI"],
                             ["write", "wI", "w_{{t}}"], ["ucfs", "uI"]]]
            body = inner
            for _ in range(depth - 1):
                body = ["seq", [["data", "inc"], body]]
            yield ["seq", [["set", outer_key, 2], body, ["store", "sO"]]]
            yield ["source", [["set", outer_key, 2], body], 0]
    # static names of output.prefix / output.suffix and MakeFilename(prefix=..., suffix=...)
    for static_key in ("output.prefix", "output.suffix", "output.filename"):
        for fields in ({"prefix": "P{{a}}_"}, {"suffix": "_S"}, {"prefix": "P_", "suffix": "_S"},
                       {"filename": "f{{a}}"}, {"prefix": "P_", "dirname": "{{a}}"}):
            for with_ucfs in (0, 1):
                items = [["set", "a", 1], ["set", static_key, "ST"]]
                if with_ucfs:
                    items.append(["ucfs", "u0"])
                items += [["mkfn", "m1", dict(fields), False], ["data", "inc"],
                          ["mkfn", "m2", {"filename": "name"}, False], ["store", "s9"]]
                yield ["seq", items]


def _cache_branches():
    """SetContext elements before a Cache, consumers after it, as a branch / a nested sequence
    of every container kind (these trees are built again while the cache file exists)."""
    n = 0
    for form in ("seq", "tuple", "source"):
        for name in ("c_@.pkl", "c_@_{{a}}.pkl"):
            for outer in ("split", "seq", "source"):
                n += 1
                items = [["set", "a", 1], ["set", "b", "{{a}}x"], ["data", "inc"],
                         ["cache", "c%d" % n, name.replace("@", "c%d" % n)], ["store", "sA"],
                         ["ucfs", "uA"], ["mkfn", "mA", {"filename": "f_{{b}}"}, False],
                         ["write", "wA", "w_{{a}}"], ["set", "c", 3]]
                br = [form, items] + ([0] if form == "source" else [])
                if outer == "split":
                    yield ["seq", [["set", "d.x", 5], ["split", [br, ["tuple", [["store", "sB"]]]]],
                                   ["store", "sEnd"]]]
                elif form in ("tuple", "source"):
                    continue
                elif outer == "seq":
                    yield ["seq", [["set", "d.x", 5], br, ["store", "sEnd"]]]
                else:
                    yield ["source", [["set", "d.x", 5], br, ["store", "sEnd"]], 1]


def _subclass_values():
    """A nested context given as a dict subclass (OrderedDict, lena.context.Context) before a
    Split whose branches write below it and observe it."""
    for marker in ("__odict__", "__context__"):
        for deep in (0, 1):
            val = {marker: {"x": 5, "z": {"w": 1}}} if not deep else \
                {"x": 5, "z": {marker: {"w": 1}}}
            wkey = "d.y" if not deep else "d.z.v"
            writer = ["tuple", [["set", wkey, 2], ["store", "sA"], ["data", "inc"]]]
            reader = ["tuple", [["store", "sB"], ["ucfs", "uB"], ["write", "wB", "w_{{d.x}}"],
                                ["mkfn", "mB", {"filename": "f{{d.x}}"}, False]]]
            other = ["seq", [["set", "d.x", 9], ["store", "sC"]]]
            for brs in ([writer, reader, other], [reader, writer], [other, writer, reader]):
                for kw in (None, {"copy_buf": False}):
                    sp = ["split", copy.deepcopy(brs)] + ([kw] if kw else [])
                    yield ["seq", [["set", "d", copy.deepcopy(val)], sp, ["store", "sEnd"]]]
                    yield ["source", [["set", "a", 1], ["set", "d", copy.deepcopy(val)], sp], 2]


def _dropped_key():
    """A key that an earlier nested sequence exports, that is overridden afterwards and then
    dropped by a Split whose branches disagree on it: the elements after the Split do not see
    it - also in containers that set the context of their elements twice (Source, fill
    sequences)."""
    n = 0
    for other in (None, ["set", "b", 1]):
        for root in ("seq", "source", "fcseq", "frseq", "split-branch"):
            n += 1
            body = [["seq", [["set", "a", 3], ["data", "inc"]]], ["set", "a", 2],
                    ["split", [["tuple", [["set", "a", 3], ["data", "inc"]]],
                               ["tuple", [["data", "dbl"]]]]],
                    ["ucfs", "uX%d" % n], ["mkfn", "mX%d" % n, {"filename": "f_{{b}}"}, False],
                    ["store", "sX%d" % n]]
            if other:
                body = [copy.deepcopy(other)] + body
            if root == "seq":
                yield ["seq", body]
            elif root == "source":
                yield ["source", body, 0]
            elif root == "fcseq":
                yield ["fcseq", [["acc", "fc"]] + body]
            elif root == "frseq":
                yield ["frseq", [["acc", "fr"]] + body]
            else:
                yield ["seq", [["split", [["source", body, 0], ["tuple", [["data", "inc"]]]]]]]


def _nested_then_later():
    """A nested sequence that sets a nested key, followed in the enclosing sequence by a
    SetContext under the same top-level key: the nested sequence keeps its own context."""
    for inner_key, later_key in (("d.x", "d.y"), ("e.f.g", "e.f.h"), ("d.x", "d.x"), ("a", "b")):
        for root in ("seq", "source", "fcseq", "split-branch"):
            inner = ["seq", [["data", "inc"], ["set", inner_key, 1], ["store", "sI"]]]
            body = [inner, ["store", "sM"], ["ucfs", "uM"], ["set", later_key, 2], ["store", "sE"]]
            if root == "seq":
                yield ["seq", body]
            elif root == "source":
                yield ["source", body, 0]
            elif root == "fcseq":
                yield ["fcseq", [["acc", "fc"]] + body]
            else:
                yield ["seq", [["set", "c", 0], ["split", [["seq", body], ["tuple", [["data", "inc"]]]]]]]


def _deep_keys():
    """SetContext keys with tens of dotted components that share a long prefix."""
    for depth in (8, 31, 32, 33, 34, 64, 100):
        pre = ".".join("k%d" % i for i in range(depth))
        body = [["set", pre + ".detector", "far"], ["store", "s1"], ["set", pre + ".cycle", 2],
                ["store", "s2"], ["set", "run", 7], ["data", "inc"],
                ["set", pre + ".lost", True], ["store", "s3"], ["ucfs", "u1"],
                ["split", [["tuple", [["set", pre + ".branch", 1], ["store", "s4"]]],
                           ["tuple", [["data", "inc"], ["store", "s5"]]]]],
                ["store", "s6"]]
        yield ["seq", copy.deepcopy(body)]
        yield ["source", copy.deepcopy(body), 0]
        yield ["seq", [["set", pre + ".outer", 0], ["seq", copy.deepcopy(body)], ["store", "s7"]]]


SRC_TAILS = ["ucfs", "store", "mkfn", "seq-store", "f-ucfs", "set-ucfs", "seq-ucfs-store"]


def cases(tier, seed):
    # a Source whose first element is itself a Source (or a Split of Sources) that sets context
    for first in ("source", "source-two-keys", "split-of-sources", "source-in-source"):
        for tail in SRC_TAILS:
            yield {"k": "srcfirst", "first": first, "tail": tail}
    for root in ("seq", "source", "nested-split"):
        for nbr in (2, 3):
            yield {"k": "userctx", "root": root, "n": nbr}
    for tree in _nested_then_later():
        yield {"k": "tree", "tree": tree, "flow": FLOW, "vseed": 6, "nv": NVARIANTS[tier]}
    for tree in _deep_keys():
        yield {"k": "tree", "tree": tree, "flow": FLOW, "vseed": 7, "nv": 3, "deepkeys": 1}
    for tree in _dropped_key():
        yield {"k": "tree", "tree": tree, "flow": FLOW, "vseed": 5, "nv": NVARIANTS[tier]}
    for tree in _subclass_values():
        yield {"k": "tree", "tree": tree, "flow": FLOW, "vseed": 4, "nv": NVARIANTS[tier]}
    for tree in _cache_branches():
        yield {"k": "tree", "tree": tree, "flow": FLOW, "vseed": 3, "nv": NVARIANTS[tier]}
    for tree in _targeted():
        yield {"k": "tree", "tree": tree, "flow": FLOW, "vseed": 2, "nv": NVARIANTS[tier]}
    for tree in _enumerated(tier):
        yield {"k": "tree", "tree": tree, "flow": FLOW, "vseed": 0, "nv": NVARIANTS[tier]}
    for tree in _twostage():
        yield {"k": "tree", "tree": tree, "flow": FLOW, "vseed": 1, "nv": NVARIANTS[tier]}
    maxlevels = 3 if tier == "quick" else 4
    for i in range(NRANDOM[tier]):
        rng = gen.rng_for(seed, "C13", i)
        tree = rand_tree(rng, maxlevels)
        for _ in range(6):
            try:
                M.fold(tree)
                break
            except M.Unresolved:
                # keep about one unresolved tree in five
                if rng.random() < 0.25:
                    break
                tree = rand_tree(rng, maxlevels)
        if "__odict__" in json.dumps(tree) or "__context__" in json.dumps(tree):
            # a template field that renders a whole sub-dictionary would show the text of the
            # subclass (OrderedDict(...)): such trees format scalar items only
            tree = json.loads(json.dumps(tree).replace("{{d}}", "{{d.x}}")
                              .replace("{{e.f}}", "{{e.f.g}}"))
        nflow = rng.randint(1, 3)
        # run-time values that are equal but differently written (1, 1.0, True)
        flow = [[j, ({"r": rng.choice([j, j, float(j), bool(j)]) if j < 2 else j}
                     if rng.random() < 0.4 else {})] for j in range(nflow)]
        yield {"k": "tree", "tree": tree, "flow": flow, "vseed": rng.randint(0, 10 ** 9),
               "nv": NVARIANTS[tier]}


# ------------------------------------------------------------------ building
class Built(object):
    def __init__(self):
        self.els = {}      # label -> consumer element
        self.sets = []     # SetContext elements
        self.root = None
        self.nodes = {}    # path -> built Sequence / Source / Split / fill sequence


def _flow(flow_r):
    return [(d, copy.deepcopy(c)) for d, c in flow_r]


def _real_value(v):
    """SetContext value of a recipe as a real object (see _c13_model.plain_value)."""
    import collections
    import lena.context
    if isinstance(v, dict):
        if len(v) == 1 and next(iter(v)) == "__odict__":
            return collections.OrderedDict(
                (k, _real_value(x)) for k, x in v["__odict__"].items())
        if len(v) == 1 and next(iter(v)) == "__context__":
            return lena.context.Context(
                dict((k, _real_value(x)) for k, x in v["__context__"].items()))
        return dict((k, _real_value(x)) for k, x in v.items())
    return copy.deepcopy(v)


def _build_item(it, root_dir, flow_r, b, path=()):
    made = _build_item_(it, root_dir, flow_r, b, path)
    if it[0] in ("seq", "source", "split", "fcseq", "frseq"):
        b.nodes[tuple(path)] = made
    return made


def _build_item_(it, root_dir, flow_r, b, path=()):
    import lena.core
    import lena.flow
    import lena.meta
    import lena.output
    k = it[0]
    if k == "set":
        el = lena.meta.SetContext(it[1], _real_value(it[2]))
        b.sets.append(el)
        return el
    if k == "store":
        el = lena.meta.StoreContext()
    elif k == "ucfs":
        el = lena.meta.UpdateContextFromStatic()
    elif k == "mkfn":
        el = lena.output.MakeFilename(overwrite=bool(it[3]), **it[2])
    elif k == "write":
        el = lena.output.Write(it[2], verbose=False)
    elif k == "cache":
        el = lena.flow.Cache(os.path.join(root_dir, it[2]))
    elif k == "data":
        return gen.func(it[1])
    elif k == "acc":
        if it[1] == "fc":
            return lena.flow.StoreFilled()
        return lena.core.FillRequest(lena.flow.StoreFilled(), bufsize=2, reset=True,
                                     buffer_input=True)
    elif k in ("seq", "tuple", "bare", "source", "fcseq", "frseq"):
        items = [_build_item(ch, root_dir, flow_r, b, tuple(path) + (ci,))
                 for ci, ch in enumerate(it[1])]
        if k == "seq":
            return lena.core.Sequence(*items)
        if k == "fcseq":
            return lena.core.FillComputeSeq(*items)
        if k == "frseq":
            return lena.core.FillRequestSeq(*items, bufsize=1, reset=False, buffer_input=True)
        if k == "tuple":
            return tuple(items)
        if k == "bare":
            return items[0]
        pre = it[2] if len(it) > 2 else 0
        return lena.core.Source(*(items[:pre] + [_flow(flow_r)] + items[pre:]))
    elif k == "split":
        kw = it[2] if len(it) > 2 else {}
        return lena.core.Split([_build_item(br, root_dir, flow_r, b, tuple(path) + (bi,))
                                for bi, br in enumerate(it[1])], **kw)
    else:
        raise ValueError("unknown item %r" % (it,))
    b.els[it[1]] = el
    return el


def build(tree, root_dir, flow_r):
    b = Built()
    b.root = _build_item(tree, root_dir, flow_r, b)
    return b


# ------------------------------------------------------------------ observation
def observe(b, rec, root_dir, obs):
    """label -> observation (JSON-like) of every consumer of a built tree."""
    from rv.monitors import audit
    out = {}
    for label, recd in rec.items():
        if label.startswith("#"):
            continue
        el = b.els[label]
        k = recd["kind"]
        if k == "store":
            out[label] = copy.deepcopy(el.context)
        elif k == "ucfs":
            # two probe values; the consumer changes the context of the first one in place at
            # every level before it asks for the second (what a downstream MakeFilename or
            # UpdateContext does): the second one must still receive the static context
            stream = el.run(iter([(0, {}), (1, {})]))
            first = next(stream)
            snap1 = copy.deepcopy(first[1])
            _poison(first[1])
            second = next(stream)
            obs.count("ucfs_probe_pairs")
            out[label] = copy.deepcopy(second[1]) if second[1] != snap1 else snap1
        elif k == "mkfn":
            res = el((0, copy.deepcopy(M.MKFN_PROBE_CONTEXT)))
            if isinstance(res, tuple) and len(res) == 2 and isinstance(res[1], dict):
                out[label] = copy.deepcopy(res[1].get("output", {}))
            else:
                out[label] = {}
        elif k == "write":
            out[label] = el.output_directory
        elif k == "cache":
            audit.start(prefix=root_dir)
            try:
                list(el.run(iter([(0, {})])))
            finally:
                log = audit.stop()
            opened = [e[1] for e in log if e[0] == "open"]
            obs.count("cache_paths_observed", len(opened))
            # a file written under a temporary name counts under its final name
            renames = dict((e[1], e[2]) for e in log if e[0] == "rename")
            opened = [renames.get(p, p) for p in opened]
            if len(set(opened)) == 1:
                out[label] = os.path.relpath(opened[0], root_dir)
            else:
                out[label] = ["opened", sorted(set(os.path.relpath(p, root_dir)
                                                   for p in opened))]
    return out


def _poison(ctx):
    """In-place change of every dictionary and list reachable from *ctx*."""
    from rv.monitors import identity
    for o in list(identity.mutable_ids(ctx).values()):
        if isinstance(o, dict):
            o["__touched_downstream__"] = 1
        elif isinstance(o, list):
            o.append("__touched_downstream__")


def _experiment(tree, label, ctxinfo, transform):
    """Build transform(tree) and tell whether the consumer *label* then observes
    what the fold predicts for it (None: experiment not applicable)."""
    t = transform(copy.deepcopy(tree))
    if t is None:
        return None
    try:
        _, trec = M.fold(t)
        tdir = os.path.join(ctxinfo["tmp"], "cl%d" % next(ctxinfo["n"]))
        T = build(t, tdir, ctxinfo["flow"])
        tobs = observe(T, {label: trec[label]}, tdir, ctxinfo["obs"])
        return tobs[label] == M.expect_static(trec[label])[1]
    except Exception:  # pylint: disable=broad-except
        return None


def classify(tree, rec, label, ctxinfo):
    """Mechanism of a model mismatch, decided by experiments on the real code:
    (a) every SetContext later than the consumer (not upstream of it) is replaced by
        a StoreContext - mismatch gone: the consumer sees a later SetContext;
    (b) the same for all SetContext elements that are not upstream (sibling branches);
    (c) every Source is replaced by a Sequence (root) or a tuple (branch) - mismatch
        gone: it is caused by the way Source handles its elements;
    (d) (a)+(c), (b)+(c)."""
    recd = rec[label]
    p = recd["path"]
    kind = M.KIND_NAME[recd["kind"]]

    def drop(which):
        def tr(t):
            n = 0
            for q, it in M.leaves(tree):
                if it[0] == "set" and not M.affects(tree, q, p) and (
                        which == "all" or (q > p and M.relation(tree, q, p) == "later")):
                    parent = M.node_at(t, q[:-1])
                    parent[1][q[-1]] = ["store", "x%d" % n]
                    n += 1
            return t if n else None
        return tr

    def unsource(t):
        n = 0
        for q, it in list(M.walk(t)):
            if it[0] == "source":
                n += 1
                if q and M.node_at(t, q[:-1])[0] == "split":
                    it[:] = ["tuple", it[1]]
                else:
                    it[:] = ["seq", it[1]]
        return t if n else None
    if _experiment(tree, label, ctxinfo, drop("later")):
        return "consumer-sees-later-setcontext:" + kind
    if _experiment(tree, label, ctxinfo, drop("all")):
        return "consumer-sees-sibling-setcontext:" + kind
    if _experiment(tree, label, ctxinfo, unsource):
        return "static-context-differs:only-inside-Source"
    # two causes at once: reported under the consumer's own one
    if _experiment(tree, label, ctxinfo, lambda t: unsource(drop("later")(t) or t)):
        return "consumer-sees-later-setcontext:" + kind
    if _experiment(tree, label, ctxinfo, lambda t: unsource(drop("all")(t) or t)):
        return "consumer-sees-sibling-setcontext:" + kind
    return "static-context-differs:" + kind


def check_static(tree, rec, got, obs, where, ctxinfo):
    """Oracle (1). Returns number of mismatches."""
    bad = 0
    for label, recd in rec.items():
        if label.startswith("#"):
            continue
        comparable, exp = M.expect_static(recd)
        obs.count("static_observations")
        obs.count("observed_" + recd["kind"])
        if not comparable:
            obs.count("unresolved_name_templates")
            continue
        if not obs.check(got[label] == exp,
                         classify(tree, rec, label, ctxinfo) if got[label] != exp else "",
                         "%s: %s %r at path %r observed %r, the fold of the preceding "
                         "SetContext elements gives %r" % (where, M.KIND_NAME[recd["kind"]],
                                                           recd["item"], recd["path"],
                                                           got[label], exp),
                         tree=tree):
            bad += 1
    return bad


# ------------------------------------------------------------------ variants
def _insertable(node):
    return node[0] in ("seq", "source", "tuple")


def variants(tree, rec, rng, nv):
    """[(description, variant tree, path of the changed/added SetContext)]"""
    cands = []
    fresh = itertools.count()

    def newval():
        return "V%d" % next(fresh)

    def keys_for(item):
        ks = []
        if item[0] == "mkfn":
            for t in item[2].values():
                ks += M.fields_of(t)
        elif item[0] in ("write", "cache"):
            ks += M.fields_of(item[2])
        ks = [k for k in ks if k.split(".")[0] in STATIC_TOP]
        return ks or KEYS

    # a SetContext right after each consumer
    for p, it in M.consumers(tree):
        parent = M.node_at(tree, p[:-1]) if p else None
        if parent is None or not _insertable(parent):
            continue
        key = rng.choice(keys_for(it))
        pos = p[-1] + 1

        def ins(node, pos=pos, key=key):
            node[1].insert(pos, ["set", key, newval()])
            return node
        cands.append(("insert-after-" + it[0], M.replace_at(tree, p[:-1], ins), p[:-1] + [pos]))
    # a SetContext appended to each container
    for p, it in M.walk(tree):
        if it[0] in M.CONTAINERS and _insertable(it):
            key = rng.choice(KEYS)
            n = len(it[1])

            def app(node, key=key):
                node[1].append(["set", key, newval()])
                return node
            cands.append(("append", M.replace_at(tree, p, app), p + [n]))
    # altered value of each existing SetContext
    for p, it in M.leaves(tree):
        if it[0] == "set":
            def alt(node):
                return ["set", node[1], "ALT"]
            cands.append(("alter", M.replace_at(tree, p, alt), p))
    if len(cands) > nv:
        cands = rng.sample(cands, nv)
    return cands


# ------------------------------------------------------------------ reporting
# The worker keeps at most 200 violation records; one frequent mechanism must not
# crowd out a rare one, so each worker reports a mechanism at most PER_MECH times
# and counts the rest ("violations_of:<mech>" holds the true total).
PER_MECH = 4
_reported = {}


class Rep(object):
    def __init__(self, obs):
        self.obs = obs

    def __getattr__(self, name):
        return getattr(self.obs, name)

    def __setattr__(self, name, value):
        if name == "obs":
            object.__setattr__(self, name, value)
        else:
            setattr(self.obs, name, value)

    def fail(self, mech, msg, **detail):
        self.obs.count("violations_of:" + mech)
        _reported[mech] = _reported.get(mech, 0) + 1
        if _reported[mech] <= PER_MECH:
            self.obs.fail(mech, msg, **detail)

    def check(self, cond, mech, msg, **detail):
        self.obs.count("oracle_evaluations")
        if not cond:
            self.fail(mech, msg, **detail)
        return cond


# ------------------------------------------------------------------ the case
def _ident(x):
    return x


def run_srcfirst(r, obs):
    """The elements after the first element of a Source get the static context that the first
    element - a nested Source, a Split of Sources - provides, folded with what precedes them."""
    import lena.core
    import lena.meta
    import lena.output
    obs.nontrivial = True
    first, tail = r["first"], r["tail"]
    S, Set = lena.core.Source, lena.meta.SetContext

    def inner(run=None):
        els = [Set("detector", "far")]
        if run is not None:
            els.append(Set("run", run))
        return S(*(els + [[(1, {}), (2, {"own": 1})], _ident]))
    if first == "source":
        head, base = inner(), {"detector": "far"}
    elif first == "source-two-keys":
        head, base = S(Set("detector", "far"), Set("data.cycle", 2), [(1, {}), (2, {"own": 1})]), \
            {"detector": "far", "data": {"cycle": 2}}
    elif first == "split-of-sources":
        # the context of a Split is what all its branches have in common
        head, base = lena.core.Split([inner(1), inner(2)]), {"detector": "far"}
    else:
        head, base = S(inner(), _ident), {"detector": "far"}
    store = lena.meta.StoreContext()
    exp_store = copy.deepcopy(base)
    exp_vals = None        # expected static part merged into every value, or None
    exp_final = copy.deepcopy(base)
    if tail == "ucfs":
        els = [lena.meta.UpdateContextFromStatic()]
        exp_vals = base
    elif tail == "store":
        els = [store]
    elif tail == "mkfn":
        els = [lena.output.MakeFilename("hist_{{detector}}")]
        exp_vals = {"output": {"filename": "hist_far"}}
    elif tail == "seq-store":
        els = [lena.core.Sequence(_ident, store)]
    elif tail == "f-ucfs":
        els = [_ident, lena.meta.UpdateContextFromStatic(), _ident]
        exp_vals = base
    elif tail == "set-ucfs":
        els = [Set("cycle", 3), lena.meta.UpdateContextFromStatic(), store]
        exp_final = dict(copy.deepcopy(base), cycle=3)
        exp_vals = exp_final
        exp_store = exp_final
    else:
        els = [lena.core.Sequence(lena.meta.UpdateContextFromStatic(), _ident), store]
        exp_vals = base
    outer = S(*([head] + els))
    what = "Source(%s, %s)" % (first, tail)
    obs.count("source_first_programs")
    obs.check(outer._get_context() == exp_final, "static-context-differs:source-first-element",
              "%s._get_context() = %r, expected %r" % (what, outer._get_context(), exp_final))
    if "store" in tail:
        obs.check(store.context == exp_store, "static-context-differs:source-first-element",
                  "%s: the StoreContext after the first element holds %r, the fold of what "
                  "precedes it is %r" % (what, store.context, exp_store))
    vals = list(outer())
    n_exp = 4 if first == "split-of-sources" else 2
    obs.check(len(vals) == n_exp, "flow-differs:source-first-element",
              "%s yielded %d values, expected %d" % (what, len(vals), n_exp))
    if exp_vals is not None:
        for v in vals:
            ctx = v[1] if isinstance(v, tuple) and len(v) == 2 else None
            ok = isinstance(ctx, dict) and all(ctx.get(k) == x for k, x in exp_vals.items())
            obs.check(ok, "run-time-context-differs:source-first-element",
                      "%s yielded %r: its context lacks the static context %r"
                      % (what, v, exp_vals))


class _Keeper(object):
    """A user element that keeps the static context it is given (as it is given)."""

    def __init__(self):
        self.context = None

    def _set_context(self, context):
        self.context = context

    def __call__(self, value):
        return value


class _KeeperFC(_Keeper):
    """A user fill/compute element that keeps its static context."""

    def fill(self, value):
        self.last = value

    def compute(self):
        yield getattr(self, "last", None)

    __call__ = None


def run_userctx(r, obs):
    """User elements with _set_context in the branches of a Split, static context with list-
    and dict-valued keys in front of it: every branch gets an equal context and no two of them
    (nor the SetContext elements) share a mutable object."""
    import lena.core
    import lena.meta
    from rv.monitors import identity
    obs.nontrivial = True
    import lena.math
    keepers = [_Keeper() for _ in range(r["n"])]
    branches = [(keepers[0],), lena.core.Sequence(keepers[1], _ident)] + \
        [(_ident, k) for k in keepers[2:]]
    # branches given as bare elements that handle static context themselves: a user's
    # fill/compute element, an inner Split of fill/compute sequences
    bare_fc = _KeeperFC()
    in_a, in_b = _Keeper(), _Keeper()
    inner = lena.core.Split([lena.core.FillComputeSeq(in_a, lena.math.Sum()),
                             lena.core.FillComputeSeq(in_b, lena.math.Sum())])
    branches += [bare_fc, inner]
    keepers += [bare_fc, in_a, in_b]
    sets = [lena.meta.SetContext("cuts", [0, 1]), lena.meta.SetContext("d", {"x": [1], "y": 2}),
            lena.meta.SetContext("tags", ["a", ["b"]])]
    expected = {"cuts": [0, 1], "d": {"x": [1], "y": 2}, "tags": ["a", ["b"]]}
    split = lena.core.Split(branches)
    if r["root"] == "seq":
        top = lena.core.Sequence(*(sets + [split]))
    elif r["root"] == "source":
        top = lena.core.Source(*(sets + [[1, 2], split]))
    else:
        top = lena.core.Sequence(*(sets + [lena.core.Split([(split,), (_ident,)])]))
    obs.count("user_context_programs")
    for i, k in enumerate(keepers):
        obs.check(k.context == expected, "static-context-differs:user-element-in-split-branch",
                  "user element in branch %d of a Split under %s received %r, the fold of what "
                  "precedes the Split is %r" % (i, r["root"], k.context, expected))
    for a in range(len(keepers)):
        for b in range(a + 1, len(keepers)):
            common = identity.shared(keepers[a].context, keepers[b].context)
            obs.count("identity_checks")
            obs.check(not common, "sibling-branches-share-static-context-object",
                      "the user elements in branches %d and %d of one Split (under %s) were "
                      "given contexts that share the object %r" % (a, b, r["root"], common[:1]))
    del top


def run_case(r, obs):
    if r.get("k") == "userctx":
        return run_userctx(r, obs)
    if r.get("k") == "srcfirst":
        return run_srcfirst(r, obs)
    obs = Rep(obs)
    tree = r["tree"]
    has_cache = any(it[0] == "cache" for _, it in M.leaves(tree))
    tmp = tempfile.mkdtemp(prefix="rv_c13_") if has_cache else None
    try:
        _case(r, obs, tmp or "rv_c13_unused")
    finally:
        from rv.monitors import audit
        audit.stop()
        if tmp:
            shutil.rmtree(tmp, ignore_errors=True)


def _kinds(tree):
    return set(it[0] for _, it in M.leaves(tree))


def _case(r, obs, tmp):
    import lena.core
    from rv.monitors import identity
    tree, flow_r = r["tree"], r["flow"]
    try:
        final, rec = M.fold(tree)
        unresolved = None
    except M.Unresolved as u:
        unresolved, final, rec = u, None, None
    obs.count("trees")
    obs.count("root_" + tree[0])

    # ---- construction never raises a key error (it is kept for _get_context)
    try:
        A = build(tree, os.path.join(tmp, "a"), flow_r)
    except lena.core.LenaKeyError as e:
        obs.fail("keyerror-at-construction", "building %r raised %r" % (tree, e))
        return

    # ---- (3) unresolved formatting key
    if unresolved is not None:
        obs.nontrivial = True
        obs.count("keyerror_oracle")
        obs.count("unresolved_trees")
        try:
            got = A.root._get_context()
        except lena.core.LenaKeyError as e:
            msg = str(e)
            head = msg.split("{")[0] if "{" in msg else msg
            words = head.replace(",", " ").split()
            cands = M.unresolved_candidates(tree)
            if unresolved.component in words:
                obs.count("keyerror_names_first_unresolved_key")
            else:
                obs.count("keyerror_names_another_unresolved_key")
            obs.check(any(c in words for c in cands), "keyerror-names-no-unresolved-key",
                      "SetContext value %r at %r cannot be resolved (missing %r; unresolved "
                      "key components of the tree: %r), _get_context() raised "
                      "LenaKeyError(%r)" % (unresolved.template, unresolved.path,
                                            unresolved.component, sorted(set(cands)), msg),
                      tree=tree)
        except Exception as e:  # pylint: disable=broad-except
            obs.fail("unresolved-key-wrong-exception:" + type(e).__name__,
                     "missing key %r: _get_context() raised %r" % (unresolved.component, e),
                     tree=tree)
        else:
            obs.fail("unresolved-key-no-error",
                     "SetContext value %r at %r cannot be resolved (missing %r) but "
                     "_get_context() returned %r" % (unresolved.template, unresolved.path,
                                                     unresolved.component, got), tree=tree)
        # ---- (3b) the elements that are not downstream of an unresolvable SetContext (earlier
        # ones, and those in sibling branches of a Split) still see the fold of THEIR enclosing
        # sequences
        work = copy.deepcopy(tree)
        failing = []
        while True:
            try:
                _, rec2 = M.fold(work)
                break
            except M.Unresolved as u:
                failing.append(u.path)
                parent = M.node_at(work, u.path[:-1])
                parent[1][u.path[-1]] = ["data", "inc"]
        obs2 = observe(A, rec2, os.path.join(tmp, "a"), obs)
        for label, recd in rec2.items():
            if label.startswith("#"):
                continue
            p = recd["path"]
            if any(M.affects(tree, q, p) for q in failing):
                obs.count("consumers_downstream_of_an_unresolvable_key")
                continue
            comparable, exp = M.expect_static(recd)
            if not comparable:
                continue
            obs.count("static_observations")
            obs.count("consumers_beside_an_unresolvable_key")
            obs.check(obs2[label] == exp,
                      "static-context-differs:beside-an-unresolvable-key:" +
                      M.KIND_NAME[recd["kind"]],
                      "%s %r at path %r observed %r, the fold of its enclosing sequences gives %r; "
                      "the tree has unresolvable SetContext element(s) at %r, none of them "
                      "upstream of it" % (M.KIND_NAME[recd["kind"]], recd["item"], p, obs2[label],
                                          exp, failing), tree=tree)
        return

    # ---- (1) root context and every consumer against the fold
    obs.count("keyerror_oracle")
    obs.count("root_context_checks")
    try:
        got_root = A.root._get_context()
    except lena.core.LenaKeyError as e:
        obs.fail("keyerror-on-resolvable-tree",
                 "every formatting value resolves, _get_context() raised %r" % (e,), tree=tree)
        return
    has_split = any(it[0] == "split" for _, it in M.walk(tree))
    obs.check(got_root == final,
              "sequence-context-differs:%s%s" % (tree[0], "+split" if has_split else ""),
              "_get_context() of the root = %r, fold gives %r" % (got_root, final), tree=tree)

    # ---- (1c) every nested sequence / Split, asked for its context itself (it may be used at a
    # second place, or printed): the fold up to its end, nothing a later element of an
    # enclosing sequence set
    for npath, nobj in sorted(A.nodes.items()):
        if not npath or not hasattr(nobj, "_get_context"):
            continue
        exp_n = rec.get("#nodes", {}).get(npath)
        if exp_n is None:
            continue
        try:
            got_n = nobj._get_context()
        except lena.core.LenaKeyError as e:
            got_n = "LenaKeyError(%s)" % (e,)
        obs.count("nested_sequence_contexts_checked")
        kind_n = M.node_at(tree, list(npath))[0]
        obs.check(got_n == exp_n, "nested-sequence-context-differs:" + kind_n,
                  "the %s at path %r reports the static context %r, the fold up to its end gives "
                  "%r" % (kind_n, list(npath), got_n, exp_n), tree=tree)

    # ---- (2b) identity walker: consumer vs SetContext elements
    naliased = 0
    set_ids = {}
    for s in A.sets:
        identity.mutable_ids(s, into=set_ids)
    for label, el in sorted(A.els.items()):
        obs.count("identity_checks")
        mine = identity.mutable_ids(el)
        common = [mine[i] for i in mine if i in set_ids]
        naliased += 1 if common else 0
        obs.check(not common,
                  "consumer-sees-later-setcontext:" + M.KIND_NAME[rec[label]["kind"]],
                  "identity walker: %s at %r holds the very object %r that a SetContext element holds "
                  "(SetContext mutates the dictionary it is given)"
                  % (M.KIND_NAME[rec[label]["kind"]], rec[label]["path"], common[:1]),
                  tree=tree)

    # ---- (2b') identity walker: consumers in different branches of one Split hold no common
    # mutable object (a list-valued key included): no sibling can change what another saw
    labels = sorted(l for l in A.els if not l.startswith("#") and l in rec)
    for ai in range(len(labels)):
        for bi in range(ai + 1, len(labels)):
            pa, pb = list(rec[labels[ai]]["path"]), list(rec[labels[bi]]["path"])
            k = 0
            while k < len(pa) and k < len(pb) and pa[k] == pb[k]:
                k += 1
            node = tree
            for i in pa[:k]:
                node = node[1][i]
            if node[0] != "split" or k >= len(pa) or k >= len(pb):
                continue
            obs.count("identity_checks")
            common = identity.shared(A.els[labels[ai]], A.els[labels[bi]])
            obs.check(not common, "sibling-branches-share-static-context-object",
                      "identity walker: the consumers at %r and %r, in different branches of "
                      "one Split, hold the very same object %r"
                      % (pa, pb, common[:1]), tree=tree)
    base = observe(A, rec, os.path.join(tmp, "a"), obs)
    ctxinfo = {"tmp": tmp, "n": itertools.count(), "flow": flow_r, "obs": obs}
    nbad = check_static(tree, rec, base, obs, "base tree", ctxinfo)
    # ---- (1d) a deep copy of the whole tree (what SplitIntoBins / MapBins / Vectorize make of
    # the sequences they are given, and what a user does to run one analysis twice): the same
    # enclosing and preceding elements, hence the same static context for every consumer - also
    # after the original was used
    if not nbad and r.get("vseed", 0) % 2 == 0 or r.get("deepkeys"):
        try:
            B = build(tree, os.path.join(tmp, "c"), flow_r)
            C = copy.deepcopy(B)
        except Exception:  # pylint: disable=broad-except
            C = None
            obs.count("trees_not_deep_copyable")
        if C is not None:
            obs.count("deep_copied_trees")
            cobs = observe(C, rec, os.path.join(tmp, "c"), obs)
            check_static(tree, rec, cobs, obs, "deep copy of the tree", ctxinfo)
    kinds = _kinds(tree)
    if "set" in kinds and any(k in kinds for k in M.CONSUMERS):
        obs.nontrivial = True

    # ---- (2) causality, metamorphic
    rng = random.Random(r.get("vseed", 0))
    for vi, (what, vtree, q) in enumerate(variants(tree, rec, rng, r.get("nv", 6))):
        try:
            _, vrec = M.fold(vtree)
        except M.Unresolved:
            obs.count("variants_skipped_unresolved")
            continue
        vdir = os.path.join(tmp, "v%d" % vi)
        try:
            V = build(vtree, vdir, flow_r)
        except lena.core.LenaKeyError as e:
            obs.fail("keyerror-at-construction", "building %r raised %r" % (vtree, e))
            continue
        obs.count("variants")
        vobs = observe(V, vrec, vdir, obs)
        for label, recd in vrec.items():
            if label.startswith("#"):
                continue
            p = recd["path"]
            if M.affects(vtree, q, p):
                obs.count("downstream_of_change")
                continue
            obs.count("causality_comparisons")
            obs.check(vobs[label] == base[label],
                      "consumer-sees-%s-setcontext:%s"
                      % (M.relation(vtree, q, p), M.KIND_NAME[recd["kind"]]),
                      "causality: %s %r at path %r observed %r; after %s of a SetContext at path %r "
                      "(not upstream of it) it observes %r"
                      % (M.KIND_NAME[recd["kind"]], recd["item"], p, base[label], what, q,
                         vobs[label]), tree=tree, variant=vtree)
        check_static(vtree, vrec, vobs, obs, "variant (%s)" % what, ctxinfo)

    # ---- (2c) deep copies of the built tree (a template analysis), each nested under a new
    # enclosing sequence: every element of a copy sees the fold of ITS enclosing sequences
    # (the new prefix included) - also when the prefixes of two copies differ only in how an
    # equal value is written (1 / 1.0 / True) - and the original keeps what it saw
    if tree[0] in ("seq", "tuple") or (tree[0] == "split"):
        import lena.meta
        dc = build(tree, os.path.join(tmp, "dc"), flow_r)
        used = sorted(set(k for _, it in M.consumers(tree)
                          for k in (M.fields_of(it[2]) if it[0] in ("write", "cache") else
                                    [f for t in it[2].values() for f in M.fields_of(t)]
                                    if it[0] == "mkfn" else [])
                          if k.split(".")[0] in STATIC_TOP and k not in ("d", "e", "e.f")))
        if used and rng.random() < 0.6:
            key = rng.choice(used)
            vals = rng.choice([[1, 1.0, True], [0, False, 0.0], [2, 2.0], [True, 1], [-0.0, 0]])
        else:
            key, val = rng.choice([("a", "OUT"), ("c", 7), ("d.y", "o"), ("b", "B2"), ("zz", 1)])
            vals = [val]
        for ci, val in enumerate(vals):
            twin = copy.deepcopy(dc)
            wrapped_tree = ["seq", [["set", key, val], copy.deepcopy(tree)]]
            try:
                _, wrec = M.fold(wrapped_tree)
            except M.Unresolved:
                continue
            try:
                lena.core.Sequence(lena.meta.SetContext(key, copy.deepcopy(val)), twin.root)
            except lena.core.LenaKeyError as e:
                obs.fail("keyerror-at-construction", "nesting a deep copy raised %r" % (e,))
                continue
            obs.count("deep_copied_trees_nested")
            wobs = observe(twin, wrec, os.path.join(tmp, "dc"), obs)
            check_static(wrapped_tree, wrec, wobs, obs,
                         "deep copy no. %d of the tree nested under SetContext(%r, %r)"
                         % (ci, key, val), ctxinfo)
        # the original was not touched by what happened to its copies
        oobs = observe(dc, rec, os.path.join(tmp, "dc"), obs)
        for label in oobs:
            comparable, exp = M.expect_static(rec[label])
            if comparable:
                obs.check(oobs[label] == exp,
                          "original-changed-by-nesting-its-deep-copy:" +
                          M.KIND_NAME[rec[label]["kind"]],
                          "%s %r observed %r after deep copies of the tree were nested under "
                          "SetContext(%r, %r); the fold for the original gives %r"
                          % (M.KIND_NAME[rec[label]["kind"]], rec[label]["item"],
                             oobs[label], key, vals, exp), tree=tree)

    # ---- (4) run the real tree, compare with the model's run
    if any(it[0] == "split" and len(it) > 2 and it[2].get("copy_buf") is False
           for _, it in M.walk(tree)):
        # without copy_buf the branches share the run-time values by design: the run of the
        # tree is outside the model (which gives every branch its own copy)
        obs.count("runs_skipped_copy_buf_false")
        return
    if any(it[0] == "acc" for _, it in M.leaves(tree)):
        # accumulators change what is yielded; the run-time model covers streaming trees only
        obs.count("runs_skipped_accumulator")
        return
    from rv.monitors import audit
    rdir = os.path.join(tmp, "run")
    B = build(tree, rdir, flow_r)
    expected = M.run(tree, rec, _flow(flow_r))
    audit.start(prefix=rdir)
    try:
        if tree[0] == "source":
            stream = B.root()
        else:
            stream = B.root.run(iter(_flow(flow_r)))
        # streaming consumer: keeps a snapshot of every value as received, then changes the
        # received context in place at every level before pulling the next value
        got = []
        for val in stream:
            got.append(copy.deepcopy(val))
            if isinstance(val, tuple) and len(val) == 2 and isinstance(val[1], dict):
                _poison(val[1])
                obs.count("run_contexts_changed_in_place_by_consumer")
    finally:
        log = audit.stop()
    ncache = sum(1 for _, it in M.leaves(tree) if it[0] == "cache")
    opened = set(e[1] for e in log if e[0] == "open")
    obs.count("cache_opens_during_run", len(opened))
    same = len(got) == len(expected) and all(
        isinstance(g, tuple) and len(g) == 2 and g[0] == e[0] and g[1] == e[1]
        for g, e in zip(got, expected))
    obs.count("run_values_checked", len(got))
    leaks = []
    for g, e in zip(got, expected):
        if isinstance(g, tuple) and len(g) == 2 and isinstance(g[1], dict) and not e[2]:
            lk = sorted(k for k in g[1] if k in STATIC_TOP)
            if lk:
                leaks.append((g, lk))
    obs.check(not leaks, "static-leaks-into-runtime",
              "value %r carries static keys %r although no UpdateContextFromStatic lies on "
              "its way" % (leaks[0] if leaks else None, leaks[0][1] if leaks else None),
              tree=tree)
    if not same:
        if nbad or naliased:
            # the same defect was already reported at the consumer itself
            obs.count("run_mismatch_explained_by_static_mismatch")
        elif not leaks:
            obs.check(False, "run-context-differs",
                      "running the tree gives %r, the model's run gives %r"
                      % (got, [(d, c) for d, c, _ in expected]), tree=tree)
    else:
        obs.count("runs_equal_model")
    # ---- (5) the same tree built again in the same directory (the second run of a script):
    # the cache files written by the first run exist now; what every element sees does not
    # depend on the file system
    if ncache:
        existing = [os.path.join(dp, f) for dp, _, fs in os.walk(rdir) for f in fs
                    if f.endswith(".pkl")]
        obs.count("cache_files_existing_at_rebuild", len(existing))
        try:
            C = build(tree, rdir, flow_r)
        except Exception as e:  # pylint: disable=broad-except
            obs.fail("rebuild-with-existing-cache-raises:" + type(e).__name__,
                     "building the tree again while its cache files %r exist raised %r"
                     % (existing, e), tree=tree)
            return
        try:
            got_root2 = C.root._get_context()
        except lena.core.LenaKeyError as e:
            got_root2 = "LenaKeyError(%s)" % (e,)
        obs.check(got_root2 == final,
                  "sequence-context-differs:built-while-cache-files-exist",
                  "_get_context() of the root built while the cache files %r exist = %r, fold "
                  "gives %r" % (existing, got_root2, final), tree=tree)
        cobs = observe(C, rec, rdir, obs)
        for label in cobs:
            comparable, exp = M.expect_static(rec[label])
            if comparable:
                obs.check(cobs[label] == exp,
                          "static-context-differs:built-while-cache-files-exist:" +
                          M.KIND_NAME[rec[label]["kind"]],
                          "built while the cache files %r exist: %s %r at path %r observed %r, "
                          "the fold of the preceding SetContext elements gives %r"
                          % (existing, M.KIND_NAME[rec[label]["kind"]], rec[label]["item"],
                             rec[label]["path"], cobs[label], exp), tree=tree)


RULE += (' Added: Split(copy_buf=False), static output.prefix / output.suffix with MakeFilename(prefix=, suffix=), an enumerated family of two-stage unresolved keys, consumers that change received run-time contexts in place.')
RULE += (' Added: FillComputeSeq / FillRequestSeq nodes and tuple branches holding an accumulator; '
         'several deep copies of one built tree nested under SetContext values that are equal but '
         'written differently (1 / 1.0 / True); every tree with a Cache is built a second time in '
         'the same directory after its run (cache files exist) and observed again; run-time '
         'context values 1 / 1.0 / True.')
RULE += (' Added: for trees with an unresolvable key, the elements that are not downstream of it '
         '(earlier ones, sibling branches) are still judged against the fold of their enclosing '
         'sequences; a family in which a Split drops a key that an earlier pass had set.')
RULE += (' Every nested Sequence / Source / Split / fill sequence of a tree is also asked for its own '
         'static context (the fold up to its end); a family of nested sequences followed by a '
         'SetContext under the same top-level key.')
RULE += (' Added: Sources whose first element is a nested Source (also inside a further Source) or a '
         'Split of Sources that sets static context, followed by UpdateContextFromStatic / '
         'StoreContext / MakeFilename / nested sequences / a SetContext.')
RULE += (' Added: list-valued SetContext constants; identity walk between the consumers in '
         'different branches of one Split.')
RULE += (' Added: user elements that keep the static context they are given, in the branches of a '
         'Split behind list- and dict-valued SetContext elements (identity walk between them).')
RULE += (' Added: branches given as bare elements that handle static context themselves (a user '
         'fill/compute element, an inner Split of fill/compute sequences).')

RULE += (" Round 10: every resolvable tree is also deep-copied as a whole and the copy's consumers observed; SetContext keys of 8..100 dotted components sharing their prefix.")
