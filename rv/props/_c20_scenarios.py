"""Scenario table of C20: every public name of every lena subpackage, exercised
with representative and with invalid arguments.

This module imports NOTHING from lena at import time and never imports a lena
subpackage other than the one under test (passed in as ``P``), so that it can
run in an interpreter that has imported only ``lena.<pkg>``.  Inputs are plain
Python objects and the helper classes below.  The few entries that cannot build
their input without another subpackage use ``L.imp("lena.x")`` and are placed
last (the import changes what the interpreter has loaded).

An entry is (label, python expression, expected):
    expected = None          nothing documented: the outcome only has to be the same in the
                             isolated and in the fully imported interpreter
    expected = "LenaXError"  the docstring documents this exception for these arguments
Names: P = the subpackage module, X = the object under test, L = this module.
"""
import importlib
import re
import sys
import traceback

REPO = None  # set by run()


# ------------------------------------------------------------------ helpers
class FC(object):
    """FillCompute element: sums."""

    def __init__(self, n_out=1):
        self.total = 0
        self.n_out = n_out

    def fill(self, val):
        self.total += val[0] if isinstance(val, tuple) and len(val) == 2 \
            and isinstance(val[1], dict) else val

    def compute(self):
        for i in range(self.n_out):
            yield self.total + i

    def reset(self):
        self.total = 0


class FCNoReset(object):
    def __init__(self):
        self.total = 0

    def fill(self, val):
        self.total += val

    def compute(self):
        yield self.total


class FR(object):
    def __init__(self):
        self.vals = []

    def fill(self, val):
        self.vals.append(val)

    def request(self):
        yield sum(self.vals)

    def reset(self):
        self.vals = []


class RunEl(object):
    def run(self, flow):
        for v in flow:
            yield v + 1


class MyRun(object):
    def my_run(self, flow):
        for v in flow:
            yield v * 2


class CallEl(object):
    def __call__(self, v):
        return v + 1

    def other(self, v):
        return v + 2


class Gen(object):
    def __call__(self):
        for i in range(3):
            yield i


class FillIntoEl(object):
    def fill_into(self, element, value):
        element.fill(value + 10)


class Store(object):
    def __init__(self):
        self.got = []

    def fill(self, v):
        self.got.append(v)


class Scalable(object):
    def __init__(self, s):
        self.s = s

    def scale(self, other=None):
        if other is None:
            return self.s
        self.s = other

    def __repr__(self):
        return "Scalable(%r)" % (self.s,)


class NoScale(object):
    def __repr__(self):
        return "NoScale()"


def inc(v):
    return v + 1


def ident(v):
    return v


def incd(v):
    """inc on the data part of a value"""
    if isinstance(v, tuple) and len(v) == 2 and isinstance(v[1], dict):
        return (v[0] + 1, v[1])
    return v + 1


def true(v):
    return True


def raising(v):
    raise ZeroDivisionError("boom")


def view(v):
    """(data view, context) of a value: coords of graphs, bins of histograms."""
    d, c = (v[0], v[1]) if isinstance(v, tuple) and len(v) == 2 and isinstance(v[1], dict) \
        else (v, None)
    for a in ("coords", "bins", "points"):
        if hasattr(d, a):
            d = [a, getattr(d, a)]
            break
    return (d, c)


def imp(name):
    return importlib.import_module(name)


def drain(it):
    return list(it)


def fill_all(el, vals):
    for v in vals:
        el.fill(v)
    return el


def fc(el, vals):
    """fill *vals*, return list(compute())"""
    for v in vals:
        el.fill(v)
    return list(el.compute())


def fr(el, vals):
    for v in vals:
        el.fill(v)
    return list(el.request())


def seq2(*steps):
    """Evaluate callables in turn, return the results (for multi-step scenarios)."""
    return [s() for s in steps]


def attr(o, name):
    return getattr(o, name)


def mkdir(path):
    import os
    os.mkdir(path)
    return path


def many(fn, n=3000):
    """A long session: fn(0) .. fn(n-1) (distinct arguments each), [n, last result]."""
    res = None
    for i in range(n):
        try:
            res = fn(i)
        except BaseException as e:
            e.args = ("call number %d: " % i + (str(e.args[0]) if e.args else ""),) + e.args[1:]
            raise
    return [n, res]


def tmpdir():
    import tempfile
    return tempfile.mkdtemp(prefix="rv_c20_")


def with_tmp(fn):
    import shutil
    d = tmpdir()
    try:
        return fn(d)
    finally:
        shutil.rmtree(d, ignore_errors=True)


def strip_dir(value, d):
    return repr(value).replace(d, "<tmp>")


SKIPPED = {
    ("structures", "NumpyHistogram"): "needs numpy",
    ("structures", "root_graph_errors"): "needs ROOT",
    ("structures", "ROOTGraphErrors"): "needs ROOT",
    ("output", "WriteROOTTree"): "needs ROOT",
    ("input", "ReadROOTFile"): "needs ROOT",
    ("input", "ReadROOTTree"): "needs ROOT",
}

SCEN = {}

# ------------------------------------------------------------------ lena.context
SCEN["context"] = {
    "Context": [
        ("repr", "repr(X({'a': 1, 'b': {'c': 2}}))", None),
        ("call", "X()((1, {'a': 1}))", None),
        ("attr", "X({'a': 1}).a", None),
        ("attr-missing", "X({'a': 1}).b", "LenaAttributeError"),
        ("private-attr", "X({'a': 1})._b", None),
        ("bad-formatter", "X({}, formatter=5)", None),
        ("in-sequence", "repr(L.imp('lena.core').Sequence(X()))", None),
    ],
    "UpdateContext": [
        ("simple", "X('output.plot', {'scatter': True})(((0, 0), {}))", None),
        ("simple-no-context", "X('a.b', 5)(3)", None),
        ("format", "X('name', '{{x}}_{{y.z}}')((1, {'x': 'X', 'y': {'z': 2}}))", None),
        ("value", "X('copy', '{{x}}', value=True)((1, {'x': {'k': 1}}))", None),
        ("value-missing", "X('copy', '{{x}}', value=True)((1, {}))", "LenaKeyError"),
        ("value-default", "X('copy', '{{x}}', value=True, default=7)((1, {}))", None),
        ("skip-missing", "X('copy', '{{x}}', skip_on_missing=True)((1, {}))", None),
        ("raise-missing", "X('copy', '{{x}}', raise_on_missing=True)((1, {}))", "LenaKeyError"),
        ("not-recursively", "X('a', {'b': 1}, recursively=False)((1, {'a': {'c': 2}}))", None),
        ("bad-subcontext-type", "X(5, 'x')", "LenaTypeError"),
        ("bad-subcontext-empty", "X('', 'x')", "LenaValueError"),
        ("bad-two-options", "X('a', '{{x}}', skip_on_missing=True, raise_on_missing=True)",
         "LenaValueError"),
        ("bad-braces", "X('a', 'p{{x}}', value=True)", "LenaValueError"),
        ("many-distinct", "L.many(lambda i: X('n%d' % i, '{{x}}_%d' % i)((1, {'x': 'X'})))", None),
        ("repr-eq", "[repr(X('a', 'b')), X('a', 'b') == X('a', 'b'), X('a', 'b') == 1]", None),
    ],
    "DeleteContext": [
        ("delete", "X('a.b')((1, {'a': {'b': 1, 'c': 2}}))", None),
        ("missing", "X('a.z')((1, {'a': {'b': 1}}))", None),
        ("missing-sub", "X('q.z')((1, {'a': {'b': 1}}))", None),
        ("list-key", "X(['a', 'b'])((1, {'a': {'b': 1}}))", None),
        ("no-context", "X('a')(5)", None),
    ],
    "contains": [
        ("yes", "X({'fit': {'coordinate': 'x'}}, 'fit.coordinate.x')", None),
        ("no", "X({'fit': {'coordinate': 'x'}}, 'fit.coordinate.y')", None),
        ("top", "X({'fit': 1}, 'fit')", None),
    ],
    "difference": [
        ("basic", "X({'a': 1, 'b': {'c': 2, 'd': 3}}, {'b': {'c': 2}})", None),
        ("level", "X({'a': 1, 'b': {'c': 2, 'd': 3}}, {'b': {'c': 2}}, level=1)", None),
        ("not-dict", "X(1, {})", None),
    ],
    "format_context": [
        ("ok", "X('{{x.y}}_{{z}}')({'x': {'y': 10}, 'z': 1})", None),
        ("missing", "X('{{x}}')({})", "LenaKeyError"),
        ("not-str", "X(5)", "LenaTypeError"),
        ("unbalanced", "X('{{x}')", "LenaValueError"),
        ("single-brace", "X('{x}')", "LenaValueError"),
        ("many-distinct", "L.many(lambda i: X('{{x}}_%d' % i)({'x': 1}))", None),
        ("many-distinct-missing", "L.many(lambda i: X('{{x%d}}' % i)({'x0': 1}))", "LenaKeyError"),
    ],
    "format_update_with": [
        ("ok", "(lambda d: (X('a.b', '{{x}}', d), d)[1])({'x': 1})", None),
        ("missing", "X('a', '{{x}}', {})", "LenaKeyError"),
        ("many-distinct", "L.many(lambda i: (lambda d: (X('a', '{{x}}_%d' % i, d), d['a'])[1])"
                          "({'x': 1}))", None),
        ("many-distinct-keys", "L.many(lambda i: (lambda d: (X('a%d.b' % i, '{{x}}', d), "
                               "sorted(d))[1])({'x': 1}))", None),
    ],
    "get_recursively": [
        ("str", "X({'a': {'b': 1}}, 'a.b')", None),
        ("list", "X({'a': {'b': 1}}, ['a', 'b'])", None),
        ("dict", "X({'a': {'b': 1}}, {'a': 'b'})", None),
        ("default", "X({'a': 1}, 'x.y', default=3)", None),
        ("missing", "X({'a': 1}, 'x')", "LenaKeyError"),
        ("missing-nested", "X({'a': 1}, 'a.b')", "LenaKeyError"),
        ("not-dict", "X(5, 'a')", "LenaTypeError"),
        ("bad-keys", "X({}, 5)", "LenaTypeError"),
        ("bad-dict-keys", "X({}, {'a': 1, 'b': 2})", "LenaValueError"),
        ("bad-list-keys", "X({}, ['a', 1])", "LenaTypeError"),
        ("many-distinct", "L.many(lambda i: X({'a%d' % i: {'b': i}}, 'a%d.b' % i))", None),
    ],
    "intersection": [
        ("basic", "X({1: '1', 2: {3: '3', 4: '4'}}, {2: {4: '4'}})", None),
        ("level", "X({1: '1', 2: {3: '3', 4: '4'}}, {2: {4: '4'}}, level=1)", None),
        ("empty", "X()", None),
        ("not-dict", "X({}, 1)", "LenaTypeError"),
        ("bad-kwarg", "X({}, {}, foo=1)", "LenaTypeError"),
    ],
    "str_to_dict": [
        ("ok", "X('a.b.c d')", None),
        ("value", "X('output.changed', True)", None),
        ("empty", "X('')", None),
        ("one-part", "X('a')", "LenaValueError"),
        ("empty-with-value", "X('', 1)", "LenaValueError"),
        ("many-distinct", "L.many(lambda i: X('a%d.b.c' % i, i))", None),
    ],
    "str_to_list": [
        ("ok", "X('a.b.c')", None),
        ("empty", "X('')", None),
    ],
    "to_string": [
        ("ok", "X({'a': 1, 'b': {'c': 3}})", None),
        ("set", "X({'a': {1, 2}})", "LenaValueError"),
        # values of the standard library's number types, which other subpackages work with
        ("decimal", "X({'sum': __import__('decimal').Decimal('1.5'), 'a': {'b': [1]}})",
         "LenaValueError"),
        ("fraction", "X({'f': __import__('fractions').Fraction(1, 2)})", "LenaValueError"),
    ],
    "update_nested": [
        ("ok", "(lambda c: (X('variable', c, {'name': 'n'}), c)[1])({'variable': {'name': 'x'}})",
         None),
        ("new", "(lambda c: (X('variable', c, {'name': 'n'}), c)[1])({})", None),
    ],
    "update_recursively": [
        ("ok", "(lambda d: (X(d, {'b': {'d': 4}}), d)[1])({'a': 1, 'b': {'c': 3}})", None),
        ("str", "(lambda d: (X(d, 'output.changed', True), d)[1])({})", None),
        ("value-with-dict", "X({}, {'a': 1}, 5)", "LenaValueError"),
        ("not-dict", "X(1, {'a': 1})", None),
    ],
    "IncludeExcludeTree": [
        ("get-include", "X({'a'}, {}, True).get({'a': 1, 'b': 2})", None),
        ("get-exclude", "X({'a'}, {}, False).get({'a': 1, 'b': 2})", None),
        ("repr-eq", "[repr(X(set(), {}, True)), X(set(), {}, True) == X(set(), {}, True)]", None),
    ],
    "make_include_exclude_tree": [
        ("include-all", "X(includes='', excludes='a.b').get({'a': {'b': 1, 'c': 2}, 'd': 3})", None),
        ("exclude-all", "X(includes=('a.b',), excludes=('',)).get({'a': {'b': 1, 'c': 2}})", None),
        ("no-root", "X(includes='a', excludes='b')", None),
    ],
}

# ------------------------------------------------------------------ lena.core
_EXC = [("raise", "(_ for _ in ()).throw(X('msg'))", "LenaException"),
        ("is-lena-exception", "issubclass(X, P.LenaException)", None),
        ("bases", "[b.__name__ for b in X.__mro__]", None)]
SCEN["core"] = {
    "Call": [
        ("call", "X(L.CallEl())(1)", None),
        ("named", "X(L.CallEl(), call='other')(1)", None),
        ("func", "X(L.inc)(1)", None),
        ("bad", "X(5)", "LenaTypeError"),
        ("bad-name", "X(L.CallEl(), call='nothing')", "LenaTypeError"),
    ],
    "FillCompute": [
        ("ok", "L.fc(X(L.FC()), [1, 2])", None),
        ("names", "L.fc(X(L.FC(), fill='fill', compute='compute'), [1])", None),
        ("from-request", "L.fc(X(L.FR()), [1, 2])", None),
        ("bad", "X(5)", "LenaTypeError"),
        ("bad-names", "X(L.FC(), fill='nofill')", "LenaTypeError"),
    ],
    "FillInto": [
        ("ok", "(lambda s: (X(L.FillIntoEl()).fill_into(s, 1), s.got)[1])(L.Store())", None),
        ("from-call", "(lambda s: (X(L.inc).fill_into(s, 1), s.got)[1])(L.Store())", None),
        ("bad", "X(5)", "LenaTypeError"),
        ("repr", "repr(X(L.inc)).split(' at ')[0]", None),
    ],
    "FillRequest": [
        ("ok", "L.fr(X(L.FR(), bufsize=2, buffer_input=True, reset=True), [1, 2])", None),
        ("no-reset-option", "X(L.FR(), bufsize=2, buffer_input=True)", None),
        ("from-fc", "L.fr(X(L.FC(), reset=True, bufsize=2, buffer_input=True), [1, 2])", None),
        ("run", "list(X(L.FC(), reset=True, bufsize=2, buffer_input=True)"
                ".run(iter([1, 2, 3, 4, 5])))", None),
        ("buffer-output", "list(X(L.FC(), reset=True, bufsize=2, buffer_output=True)"
                          ".run(iter([1, 2, 3, 4, 5])))", None),
        ("no-buffer-option", "X(L.FR(), bufsize=2)", None),
        ("bad-bufsize", "X(L.FR(), bufsize=0, buffer_input=True, reset=True)", "LenaValueError"),
        ("bad-el", "X(5, buffer_input=True)", "LenaTypeError"),
        ("bad-reset", "X(L.FCNoReset(), reset=True, buffer_input=True)", "LenaTypeError"),
    ],
    "Run": [
        ("run", "list(X(L.RunEl()).run([1, 2]))", None),
        ("named", "list(X(L.MyRun(), run='my_run').run([1, 2, 3]))", None),
        ("from-call", "list(X(L.inc).run([1, 2]))", None),
        ("from-fc", "list(X(L.FC()).run([1, 2]))", None),
        ("bad", "X(5)", "LenaTypeError"),
        ("bad-name", "X(L.RunEl(), run='norun')", "LenaTypeError"),
        ("repr-eq", "[X(L.inc) == X(L.inc), X(L.inc) == 1]", None),
    ],
    "SourceEl": [
        ("call", "list(X(L.Gen())())", None),
        ("named", "list(X(L.MyRun(), call='my_run') and [])", None),
        ("bad", "X(5)", "LenaTypeError"),
        ("bad-name", "X(L.Gen(), call='nothing')", "LenaTypeError"),
    ],
    "LenaSequence": [
        ("basic", "[len(X(1, 2)), list(X(1, 2)), X(1, 2)[0], X(1) == X(1)]", None),
        ("get-context", "X(L.inc)._get_context()", None),
    ],
    "Sequence": [
        ("run", "list(X(L.inc, L.RunEl()).run([1, 2]))", None),
        ("tuple-arg", "list(X((L.inc, L.inc)).run([1]))", None),
        ("empty", "list(X().run([1, 2]))", None),
        ("nested", "list(X(X(L.inc), L.inc).run([1]))", None),
        ("repr", "repr(X(X()))", None),
        ("bad", "X(5)", "LenaTypeError"),
    ],
    "Source": [
        ("call", "list(X(L.Gen(), L.inc)())", None),
        ("iterable", "list(X([1, 2], L.inc)())", None),
        ("no-args", "X()", "LenaTypeError"),
        ("bad-first", "X(5, L.inc)", "LenaTypeError"),
        ("bad-tail", "X(L.Gen(), 5)", "LenaTypeError"),
        ("only-context-elements", "X(L.imp('lena.meta').SetContext('a', 1))", "LenaTypeError"),
        ("context-element-first", "list(X(L.imp('lena.meta').SetContext('a', 1), [1, 2])())", None),
    ],
    "FillComputeSeq": [
        ("ok", "L.fc(X(L.inc, L.FC(), L.inc), [1, 2])", None),
        ("no-fc", "X(L.inc)", "LenaTypeError"),
        ("bad-before", "X(5, L.FC())", "LenaTypeError"),
        ("empty", "X()", "LenaTypeError"),
        ("only-context-elements", "X(L.imp('lena.meta').SetContext('a', 1))", "LenaTypeError"),
        ("only-context-elements-2", "X(L.imp('lena.meta').SetContext('a', 1), "
         "L.imp('lena.meta').StoreContext())", "LenaTypeError"),
    ],
    "FillSeq": [
        ("ok", "(lambda s: (X(L.inc, s).fill(1), s.got)[1])(L.Store())", None),
        ("empty", "X()", "LenaTypeError"),
        ("bad-last", "X(L.inc, 5)", "LenaTypeError"),
        ("only-context-elements", "X(L.imp('lena.meta').SetContext('a', 1))", "LenaTypeError"),
    ],
    "FillRequestSeq": [
        ("ok", "L.fr(X(L.inc, L.FR(), L.inc, bufsize=2, buffer_input=True, reset=True), [1, 2])",
         None),
        ("no-fr", "X(L.inc)", "LenaTypeError"),
        ("bad-kwarg", "X(L.FR(), foo=1)", "LenaTypeError"),
        ("empty", "X(bufsize=1, buffer_input=True, reset=False)", "LenaTypeError"),
        ("only-context-elements", "X(L.imp('lena.meta').SetContext('a', 1), bufsize=1, "
         "buffer_input=True, reset=False)", "LenaTypeError"),
        ("repr", "repr(X(L.FR(), bufsize=1, buffer_input=True, reset=True)).split('<')[0]", None),
    ],
    "Split": [
        ("run", "list(X([(L.inc,), (L.inc, L.inc)]).run([1, 2]))", None),
        ("fc", "L.fc(X([L.FC(), (L.inc, L.FC())]), [1, 2])", None),
        ("source", "list(X([P.Source([1, 2]), P.Source([3])])())", None),
        ("empty", "list(X([]).run([1, 2]))", None),
        ("not-callable", "list(X([(L.inc,)])())", "LenaAttributeError"),
        ("not-list", "X((L.inc,))", "LenaTypeError"),
        ("bad-seq", "X([5])", "LenaTypeError"),
        ("bad-bufsize", "X([(L.inc,)], bufsize=0)", "LenaValueError"),
        ("repr-context", "[repr(X([(L.inc,)])).split('<')[0], X([(L.inc,)])._get_context()]", None),
    ],
    "LenaSplit": [
        ("context", "X([P.Sequence(L.inc)])._get_context()", None),
        ("eq", "X([]) == X([])", None),
    ],
    "LenaException": _EXC,
    "alter_sequence": [
        ("element", "X(5)", None),
        ("sequence", "repr(X(P.Sequence(L.RunEl()))).split('<')[0]", None),
    ],
    "flatten": [
        ("nested", "len(X(P.Sequence(P.Sequence(L.inc, L.inc), L.inc)))", None),
        ("element", "X(5)", None),
        ("tuple", "X((1, 2))", None),
    ],
    "is_source": [("yes", "X(P.Source([1]))", None), ("no", "X(L.Gen())", None)],
    "is_fill_compute_seq": [("el", "X(L.FC())", None), ("tuple", "X((L.inc, L.FC()))", None),
                            ("no", "X(5)", None), ("source", "X(P.Source([1]))", None)],
    "is_fill_request_seq": [("el", "X(L.FR())", None), ("tuple", "X((L.inc, L.FR()))", None),
                            ("no", "X(5)", None)],
    "is_fill_compute_el": [("yes", "X(L.FC())", None), ("no", "X(L.FR())", None)],
    "is_fill_request_el": [("yes", "X(L.FR())", None), ("no", "X(L.FC())", None)],
    "is_run_el": [("yes", "X(L.RunEl())", None), ("no", "X(L.inc)", None)],
}
for _n in ["LenaAttributeError", "LenaEnvironmentError", "LenaIndexError", "LenaKeyError",
           "LenaNotImplementedError", "LenaRuntimeError", "LenaStopFill", "LenaTypeError",
           "LenaValueError", "LenaZeroDivisionError"]:
    SCEN["core"][_n] = _EXC

# ------------------------------------------------------------------ lena.flow
SCEN["flow"] = {
    "Cache": [
        ("fill-load", "L.with_tmp(lambda d: [list(X(d + '/c.pkl').run(iter([1, (2, {})]))), "
                      "X(d + '/c.pkl').cache_exists(), list(X(d + '/c.pkl').run(iter([]))), "
                      "X(d + '/c.pkl').drop_cache(), X(d + '/c.pkl').cache_exists()])", None),
        ("recompute", "L.with_tmp(lambda d: [list(X(d + '/c.pkl').run(iter([1]))), "
                      "X(d + '/c.pkl', recompute=True).cache_exists()])", None),
        ("repr", "L.with_tmp(lambda d: L.strip_dir(X(d + '/c.pkl'), d))", None),
        ("drop-missing", "L.with_tmp(lambda d: X(d + '/c.pkl').drop_cache())", None),
        # something that exists where the cache should be and cannot be removed as a file
        ("drop-unremovable", "L.with_tmp(lambda d: X(L.mkdir(d + '/c.pkl')).drop_cache())",
         "LenaEnvironmentError"),
        ("set-context", "L.with_tmp(lambda d: (lambda c: (c._set_context({'a': 1}), "
                        "L.strip_dir(c._filename, d))[1])(X(d + '/{{a}}.pkl')))", None),
        ("set-context-key-missing", "L.with_tmp(lambda d: (lambda c: (c._set_context({'b': 1}), "
                                    "L.strip_dir(c._filename, d), c._set_context({'a': 2, 'b': 1}), "
                                    "L.strip_dir(c._filename, d))[1::2])(X(d + '/{{a}}_{{b}}.pkl')))",
         None),
        ("alter-sequence", "L.with_tmp(lambda d: (lambda c: [list(c.run(iter([1, 2]))), "
                           "type(X.alter_sequence(c)).__name__, "
                           "list(X.alter_sequence(c)())])(X(d + '/c.pkl')))", None),
        ("pickle-method", "L.with_tmp(lambda d: list(X(d + '/c.pkl', method='pickle', "
                          "protocol=0).run(iter([1]))))", None),
    ],
    "Count": [
        ("run", "list(X('n').run(iter([0, 1, 2])))", None),
        ("run-empty", "list(X().run(iter([])))", None),
        ("fc", "L.fc(X(), [1, (2, {'a': 1})])", None),
        ("fill-into", "(lambda s: (X().fill_into(s, 5), s.got)[1])(L.Store())", None),
        ("reset-repr-eq", "(lambda c: (c.fill(1), c.reset(), repr(c), c == X())[2:])(X())", None),
    ],
    "DropContext": [
        ("run", "list(X(L.inc).run(iter([(1, {'a': 1}), (2, {})])))", None),
        ("adds-context", "list(X(lambda v: (v, {'b': 2})).run(iter([(1, {'a': 1})])))", None),
        ("bad", "X(5)", None),
    ],
    "End": [("run", "list(X().run(iter([1, 2])))", None),
            ("eq-repr", "[X() == X(), repr(X())]", None)],
    "Filter": [
        ("run", "list(X(lambda v: v > 1).run(iter([1, 2, 3])))", None),
        ("str", "list(X('a.b').run(iter([(1, {'a': {'b': 1}}), (2, {})])))", None),
        ("class", "list(X(int).run(iter([1, 'a', (2, {})])))", None),
        ("fill-into", "(lambda s: (X(lambda v: v > 1).fill_into(s, 5), "
                      "X(lambda v: v > 1).fill_into(s, 0), s.got)[2])(L.Store())", None),
        ("bad", "X(5)", "LenaTypeError"),
        ("repr-eq", "[X(int) == X(int), X(int) != X(str), repr(X(int))]", None),
    ],
    "Print": [
        ("call", "X(before='b', sep='-', end='!')(5)", None),
        ("transform", "X(transform=lambda v: v[0])((1, {}))", None),
    ],
    "Progress": [
        ("run", "list(X('events').run(iter([1, 2, 3])))", None),
        ("format", "list(X(format='{index}/{total}').run(iter([1])))", None),
        ("empty", "list(X().run(iter([])))", None),
        ("long", "list(X('events').run(iter(range(150))))", None),
        ("long-format", "len(list(X(format='{index}/{total} {percent}').run(iter(range(1001)))))",
         None),
    ],
    "StoreFilled": [
        ("group", "L.fc(X(), [1, 2])", None),
        ("single", "L.fc(X(yield_as_a_group=False), [1, 2])", None),
        ("reset-eq", "(lambda s: (s.fill(1), s.reset(), s.group, s == X())[2:])(X())", None),
    ],
    "Chain": [("call", "list(X([1, 2, 3], ['a', 'b'])())", None), ("empty", "list(X()())", None)],
    "CountFrom": [("call", "[v for v, _ in zip(X(3, 2)(), range(4))]", None),
                  ("eq-repr", "[X() == X(), repr(X(1, 2))]", None)],
    "ISlice": [("call", "list(X(1, 3).run(iter(range(5))))", None)],
    "Reverse": [("run", "list(X().run(iter([1, 2, 3])))", None)],
    "Slice": [
        ("stop", "list(X(2).run(iter(range(5))))", None),
        ("negative", "list(X(-2).run(iter(range(5))))", None),
        ("start-stop-step", "list(X(1, 5, 2).run(iter(range(10))))", None),
        ("fill-into", "(lambda s, sl: ([sl.fill_into(s, i) for i in range(2)], s.got)[1])"
                      "(L.Store(), X(1, 3))", None),
        ("stop-fill", "(lambda s, sl: [sl.fill_into(s, i) for i in range(5)])(L.Store(), X(1))",
         "LenaStopFill"),
        ("bad-step", "X(0, 5, 0)", "LenaValueError"),
        ("repr-eq", "[repr(X(1, 2)), X(1) == X(1)]", None),
    ],
    "Zip": [
        ("fc", "L.fc(X([L.FC(), (L.inc, L.FC())]), [1, 2])", None),
        ("fields", "L.fc(X([L.FC(), L.FC()], name='pair', fields=['a', 'b']), [1, 2])", None),
        ("fr", "L.fr(X([L.FR(), L.FR()]), [1, 2])", None),
        ("context", "L.fc(X([(lambda v: (v, {'k': 1}), L.FC()), (lambda v: (v, {'k': 2}), "
                    "L.FC())]), [1])", None),
        ("empty", "X([])", "LenaTypeError"),
        ("bad-seq", "X([5])", "LenaTypeError"),
        ("mixed", "X([L.FC(), L.FR()])", "LenaTypeError"),
        ("bad-fields", "X([L.FC(), L.FC()], fields=['a'])", "LenaTypeError"),
        ("run-seqs", "X([(L.inc,), (L.inc,)])", None),
    ],
    "get_context": [("pair", "X((1, {'a': 1}))", None), ("bare", "X(1)", None),
                    ("not-dict", "X((1, 2))", None)],
    "get_data": [("pair", "X((1, {'a': 1}))", None), ("bare", "X((1, 2, 3))", None)],
    "get_data_context": [("pair", "X((1, {'a': 1}))", None), ("bare", "X(1)", None)],
    "GroupBy": [
        ("default", "L.fc(X(), [(1, {'a': 1}), (2, {'a': 2})])", None),
        ("by-key", "L.fc(X('a'), [(1, {'a': 1, 'b': 0}), (2, {'a': 2}), (3, {'a': 1})])", None),
        ("merge", "L.fc(X(group_by='', merge='b'), [(1, {'a': 1, 'b': 0}), (3, {'a': 1, 'b': 5})])",
         None),
        ("tuple", "L.fc(X(('a', 'c')), [(1, {'a': 1}), (2, {'c': 2})])", None),
        ("unserializable", "L.fc(X('a'), [(1, {'a': {1, 2}})])", "LenaValueError"),
        ("bad-args", "X(5)", None),
        ("reset-eq", "(lambda g: (g.fill(1), g.reset(), g.groups, g == X('a'))[2:])(X('a'))", None),
        ("deprecated", "(lambda g: (g.update((1, {'a': 1})), g.clear(), g.groups)[2])(X('a'))", None),
    ],
    "group_plots": [
        ("same-type", "X([(1, {'a': 1, 'b': 2}), (2, {'a': 1, 'b': 3})])", None),
        ("one", "X([(1, {'a': 1})])", None),
        ("no-context", "X([1, 2])", None),
    ],
    "GroupPlots": [
        ("run", "list(X('{{a}}', lambda v: True).run(iter([(1, {'a': 1}), (2, {'a': 1}), "
                "(3, {'a': 2})])))", None),
        ("not-selected", "list(X('{{a}}', lambda v: L.imp('lena.flow').get_data(v) > 1, "
                         "yield_selected=False).run(iter([(1, {'a': 1}), (2, {'a': 1})])))", None),
        ("scale", "list(X('{{a}}', lambda v: True, scale=4).run(iter([(L.Scalable(2), "
                  "{'a': 1}), (L.Scalable(8), {'a': 1})])))", None),
        ("transform", "list(X('{{a}}', lambda v: True, transform=(lambda v: v,))"
                      ".run(iter([(1, {'a': 1})])))", None),
        ("missing-key", "list(X('{{a}}', lambda v: True).run(iter([(1, {})])))", None),
        ("bad-scale", "list(X('{{a}}', lambda v: True, scale=4).run(iter([(L.NoScale(), "
                      "{'a': 1})])))", "LenaValueError"),
    ],
    "scale_to": [
        ("number", "(lambda g: (X(4, g), g)[1])([(L.Scalable(2), {}), (L.Scalable(8), {})])", None),
        ("selector", "(lambda g: (X(lambda v: v[1].get('ref'), g), g)[1])"
                     "([(L.Scalable(2), {'ref': True}), (L.Scalable(8), {})])", None),
        ("two-candidates", "X(lambda v: True, [(L.Scalable(2), {}), (L.Scalable(8), {})])",
         "LenaValueError"),
        ("no-candidate", "X(lambda v: False, [(L.Scalable(2), {})])", "LenaValueError"),
        ("unknown-scale", "X(4, [(L.NoScale(), {})])", "LenaValueError"),
        ("allow-unknown", "X(4, [(L.NoScale(), {})], allow_unknown_scale=True)", None),
    ],
    "GroupScale": [
        ("call", "X(4)([(L.Scalable(2), {})])", None),
        ("not-iterable", "X(4)(5)", "LenaValueError"),
        ("unknown", "X(4)([(L.NoScale(), {})])", "LenaValueError"),
    ],
    "MapGroup": [
        ("run", "list(X(L.incd).run(iter([([1, 2], {'group': [{}, {'a': 1}]}), 5])))", None),
        ("scalars", "list(X(L.incd, map_scalars=True).run(iter([3, ([1], {'group': [{}]})])))",
         None),
        ("no-scalars", "list(X(L.inc, map_scalars=False).run(iter([3])))", None),
        ("bad-kwarg", "X(L.inc, wrong_kwarg=True)", "LenaTypeError"),
        ("bad-seq", "X(1)", "LenaTypeError"),
        ("no-results", "list(X(P.End()).run(iter([([1, 2], {'group': [{}, {}]})])))", None),
        ("size-mismatch", "list(X(L.incd).run(iter([([1, 2], {'group': [{}]})])))",
         "LenaRuntimeError"),
        ("different-lengths", "list(X(P.Filter(lambda v: L.imp('lena.flow').get_data(v) > 1))"
                              ".run(iter([([1, 2], {'group': [{}, {}]})])))", "LenaRuntimeError"),
    ],
    "RunningChunkBy": [
        ("run", "list(X(2).run(iter(range(5))))", None),
        ("list", "list(X(2, list, from_iterable=True).run(iter(range(4))))", None),
        ("short", "list(X(5).run(iter(range(2))))", None),
        ("bad-container", "X(3, container=5)", "LenaTypeError"),
    ],
    "seq_map": [
        ("one", "X(L.imp('lena.core').Sequence(L.inc), [1, 2])", None),
        ("many", "X(L.imp('lena.core').Sequence(L.inc), [1, 2], one_result=False)", None),
        ("not-one", "X(L.imp('lena.core').Sequence(P.End()), [1, 2])", "LenaValueError"),
    ],
    "RunIf": [
        ("run", "list(X(lambda v: v > 1, L.inc).run(iter([1, 2, 3])))", None),
        ("selector", "list(X(P.Selector(int), L.inc).run(iter([1, 'a'])))", None),
        ("sequence", "list(X(int, L.imp('lena.core').Sequence(L.inc)).run(iter([1])))", None),
        ("bad-select", "X(5, L.inc)", "LenaTypeError"),
        ("bad-args", "X(int, 5)", "LenaTypeError"),
    ],
    "And": [
        ("call", "[X((int, lambda v: v > 1))(2), X((int, lambda v: v > 1))(1)]", None),
        ("raise-off", "X((L.raising,), raise_on_error=False)(1)", None),
        ("raise-on", "X((L.raising,))(1)", None),
        ("bad", "X((5,))", "LenaTypeError"),
        ("repr-eq", "[repr(X((int,))), X((int,)) == X((int,))]", None),
    ],
    "Or": [
        ("call", "[X([int, str])('a'), X([int, str])(1.5)]", None),
        ("bad", "X([5])", "LenaTypeError"),
        ("repr-eq", "[repr(X([int])), X([int]) == X([int])]", None),
    ],
    "Not": [
        ("call", "[X(int)(1), X(int)('a')]", None),
        ("raise-off", "X(L.raising, raise_on_error=False)(1)", None),
        ("raise-on", "X(L.raising)(1)", None),
        ("bad", "X(5)", "LenaTypeError"),
        ("repr-eq", "[repr(X(int)), X(int) == X(int), X(int) == P.Selector(int)]", None),
    ],
    "Selector": [
        ("class", "[X(int)(1), X(int)((1, {})), X(int)('a')]", None),
        ("callable", "X(lambda v: v > 1)(2)", None),
        ("str", "[X('a.b')((1, {'a': {'b': 1}})), X('a.b')(1)]", None),
        ("list", "[X([int, str])('a'), X([int, str])(1.5)]", None),
        ("tuple", "[X((int, lambda v: v > 1))(2), X((int, 'a'))((1, {}))]", None),
        ("raise-off", "X(L.raising, raise_on_error=False)(1)", None),
        ("raise-on", "X(L.raising)(1)", None),
        ("bad", "X(5)", "LenaTypeError"),
        ("bad-nested", "X([int, 5])", "LenaTypeError"),
        ("repr-eq", "[repr(X(int)), repr(X('a')), repr(X(int, raise_on_error=False)), "
                    "X(int) == X(int), X('a') == X('a'), X(int) == 1]", None),
    ],
    "SelectContext": [
        ("present", "X('a.b', lambda c: c > 1)((1, {'a': {'b': 2}}))", None),
        ("false", "X('a.b', lambda c: c > 1)((1, {'a': {'b': 0}}))", None),
        ("missing-key", "X('a.b', lambda c: c > 1)((1, {'a': {}}))", None),
        ("no-context", "X('a', lambda c: True)(5)", None),
        ("predicate-raises", "X('a', L.raising)((1, {'a': 1}))", None),
        ("predicate-raises-off", "X('a', L.raising, raise_on_error=False)((1, {'a': 1}))", None),
    ],
}

# ------------------------------------------------------------------ lena.math
SCEN["math"] = {
    "clip": [("low", "X(-1, (0, 1))", None), ("high", "X(2, [0, 1])", None),
             ("in", "X(0.5, (0, 1))", None),
             ("bad-order", "X(0, (1, 0))", "LenaValueError"),
             ("too-long", "X(0, (0, 1, 2))", "LenaValueError"),
             ("not-container", "X(0, 5)", "LenaTypeError")],
    "flatten": [("nested", "list(X([[1, 2, 3, [4]], 5, [[6]], 7]))", None),
                ("flat", "list(X([1, 2]))", None)],
    "isclose": [("no", "X(1, 2)", None), ("seq", "X([1, 2, 3], (1, 2., 3))", None),
                ("tol", "X(1, 1.1, abs_tol=0.2)", None),
                ("mixed", "X(1, [1])", None), ("strings", "X('a', 'b')", "LenaTypeError"),
                ("diff-len", "X([1], [1, 2])", None)],
    "linspace": [("call", "X(0, 1, 3)", None)],
    "mesh": [("1d", "X((0, 1), 2)", None), ("2d", "X(((0, 1), (10, 12)), (1, 2))", None)],
    "md_map": [("1d", "X(abs, [-1, 1, 0])", None), ("2d", "X(abs, [[0, -1], [2, 3]])", None),
               ("two", "X(lambda x, y: x + y, [0, 1], [2, 3])", None),
               ("not-list", "X(abs, (1, 2))", "LenaTypeError")],
    "refine_mesh": [("1d", "X([0, 1, 2], 2)", None), ("2d", "X([[0, 1], [0, 2]], [2, 1])", None)],
    "vector3": [
        ("basic", "[X(1, 2, 3).x, X(1, 2, 3).getr2(), list(X(1, 2, 3)), repr(X(1, 2, 3))]", None),
        ("ops", "[X(1, 2, 3) + X(1, 1, 1), X(1, 2, 3) * 2, X(1, 2, 3) == X(1, 2, 3), "
                "X(1, 0, 0).dot(X(0, 1, 0)), X(1, 0, 0).cross(X(0, 1, 0))]", None),
        ("compare", "X(1, 2, 3) < X(1, 2, 4)", "LenaTypeError"),
        ("zero-div", "X(0, 0, 0).norm()", None),
        ("angle", "[X(1, 0, 0).angle(X(0, 1, 0)), X(1, 0, 0).cosine(X(1, 0, 0)), "
                  "X(0, 0, 1).theta, X(0, 1, 0).phi]", None),
        ("proj", "[X(1, 1, 0).proj(X(1, 0, 0)), X(1, 1, 0).scalar_proj(X(1, 0, 0)), "
                 "X(1, 0, 0).rotate(1.5, X(0, 0, 1)).isclose(X(0, 1, 0), abs_tol=0.1)]", None),
        ("from-spherical", "X.from_spherical(1, 0.5, 0.5).isclose(X(0.42, 0.23, 0.88), "
                           "abs_tol=0.01)", None),
    ],
    "Mean": [
        ("basic", "L.fc(X(), [1, 2, (3, {'a': 1})])", None),
        ("empty", "L.fc(X(), [])", "LenaZeroDivisionError"),
        ("pass-on-empty", "L.fc(X(pass_on_empty=True), [])", None),
        ("sum-seq", "L.fc(X(sum_seq=P.Sum()), [1, 2])", None),
        ("sum-seq-two-results", "L.fc(X(sum_seq=L.FC(2)), [1, 2])", None),
        ("reset", "(lambda m: (m.fill(1), m.reset(), L.fc(m, [4]))[2])(X())", None),
        ("reset-missing", "X(sum_seq=L.FCNoReset()).reset()", None),
    ],
    "Sum": [("basic", "L.fc(X(), [1, 2, (3, {'a': 1})])", None),
            ("total", "L.fc(X(total=10), [])", None),
            ("reset-eq-repr", "(lambda s: (s.fill(1), s.reset(), s.total, s == X(), repr(s))[2:])"
                              "(X())", None)],
    "DSum": [("basic", "L.fc(X(), [1, 2.5, (3, {'a': 1})])", None),
             ("reset-eq-repr", "(lambda s: (s.fill(1), s.reset(), s.total, s == X(), repr(s))[2:])"
                               "(X())", None)],
    "VarianceMeanCount": [
        ("basic", "L.fc(X(), [1, 2, 3])", None),
        ("uncorrected", "L.fc(X(corrected=False), [1, 2, 3])", None),
        ("empty", "L.fc(X(), [])", "LenaZeroDivisionError"),
        ("one-corrected", "L.fc(X(), [1])", "LenaZeroDivisionError"),
        ("pass-on-empty", "L.fc(X(pass_on_empty=True), [])", None),
        ("own-sums", "L.fc(X(sum_sq=P.DSum(), sum_=P.DSum()), [1, 2, 3])", None),
        ("reset", "(lambda m: (m.fill(1), m.reset(), L.fc(m, [4, 6]))[2])(X())", None),
        ("eq", "X() == X()", None),
    ],
    "variance_mean_count": [("make", "X(1, 2, 3)", None), ("fields", "X._fields", None)],
    "Vectorize": [
        ("dim", "L.fc(X(P.Sum(), dim=2), [(1, 2), (3, 4)])", None),
        ("list", "L.fc(X([P.Sum(), P.Mean()]), [(1, 2), (3, 4)])", None),
        ("construct", "L.fc(X(P.Sum(), dim=3, construct=P.vector3), [(1, 2, 3)])", None),
        ("context", "L.fc(X(P.Sum(), dim=2), [((1, 2), {'a': 1})])", None),
        ("reset", "(lambda v: (v.fill((1, 2)), v.reset(), L.fc(v, [(3, 4)]))[2])"
                  "(X(P.Sum(), dim=2))", None),
        ("list-with-dim", "X([P.Sum()], dim=2)", None),
        ("no-dim", "X(P.Sum())", None),
        ("not-fc", "X(5, dim=2)", None),
        ("no-reset", "X(L.FCNoReset(), dim=2)", None),
    ],
}

# ------------------------------------------------------------------ lena.meta
SCEN["meta"] = {
    "SetContext": [
        ("context", "X('data.detector', 'far')._get_context()", None),
        ("format", "(lambda s: (s._set_context({'detector': 'far'}), s._get_context())[1])"
                   "(X('full', '{{detector}}'))", None),
        ("missing", "X('full', '{{detector}}')._get_context()", "LenaKeyError"),
        ("many-distinct", "L.many(lambda i: (lambda s: (s._set_context({'detector': 'far'}), "
                          "s._get_context())[1])(X('full', '{{detector}}_%d' % i)))", None),
        ("many-distinct-in-sequence",
         "L.many(lambda i: L.imp('lena.core').Sequence(X('a', i), X('b', 'p%d_{{a}}' % i))"
         "._get_context(), 2500)", None),
        ("repr-eq", "[repr(X('a', 'b')), X('a', 1) == X('a', 1), X('a', 1) == 1]", None),
        ("in-sequence", "L.imp('lena.core').Sequence(X('a', 1), X('b', '{{a}}'))._get_context()",
         None),
    ],
    "StoreContext": [
        ("set", "(lambda s: (s._set_context({'a': 1}), s.context)[1])(X())", None),
        ("repr-eq", "[repr(X()), X() == X(), X() == 1]", None),
        ("in-sequence", "(lambda s: (L.imp('lena.core').Sequence(P.SetContext('a', 1), s), "
                        "s.context)[1])(X())", None),
    ],
    "UpdateContextFromStatic": [
        ("run", "(lambda u: (u._set_context({'a': 1}), list(u.run(iter([(1, {})]))))[1])(X())",
         None),
        ("eq", "[X() == X(), X() == 1]", None),
        ("in-sequence", "list(L.imp('lena.core').Sequence(P.SetContext('a', 1), X())"
                        ".run(iter([(1, {})])))", None),
    ],
}

# ------------------------------------------------------------------ lena.variables
SCEN["variables"] = {
    "Variable": [
        ("call", "X('x', lambda d: d[0], type='coordinate', unit='mm')((1, 2))", None),
        ("with-context", "X('x', lambda d: d[0])(((1, 2), {'a': 1}))", None),
        ("attrs", "[X('x', L.ident, unit='mm').unit, X('x', L.ident).name, "
                  "X('x', L.ident).var_context]", None),
        ("attr-missing", "X('x', L.ident).nothing", None),
        ("private-attr", "X('x', L.ident)._nothing", None),
        ("not-callable", "X('x', 5)", "LenaTypeError"),
        ("getter-variable", "X('x', X('y', L.ident))", "LenaTypeError"),
        ("repr", "repr(X('x', L.ident)).split(' at ')[0]", None),
        ("chain", "X('y', L.inc)(X('x', L.inc)(1))", None),
        ("many-distinct", "L.many(lambda i: X('x%d' % i, L.inc, unit='u%d' % i)((i, {})))", None),
    ],
    "Combine": [
        ("call", "X(P.Variable('x', lambda d: d[0]), P.Variable('y', lambda d: d[1]))((1, 2))", None),
        ("named", "X(P.Variable('x', L.ident), name='xx').name", None),
        ("index-dim", "[X(P.Variable('x', L.ident), P.Variable('y', L.ident))[1].name, "
                      "X(P.Variable('x', L.ident), P.Variable('y', L.ident)).dim]", None),
        ("empty", "X()", "LenaTypeError"),
        ("not-variable", "X(5)", "LenaTypeError"),
    ],
    "Compose": [
        ("call", "X(P.Variable('p', lambda d: d[0], type='particle'), "
                 "P.Variable('x', lambda d: d[0], type='coordinate'))(((1.05, 0.98), (1.1, 1.3)))",
         None),
        ("named", "X(P.Variable('a', L.inc), P.Variable('b', L.inc), name='ab', unit='m')(1)", None),
        ("empty", "X()", "LenaTypeError"),
        ("getter-kwarg", "X(P.Variable('a', L.inc), getter=L.inc)", "LenaTypeError"),
        ("not-variable", "X(5)", "LenaTypeError"),
    ],
    "abs": [
        ("call", "X(P.Variable('x', lambda d: d[0], latex_name='x'))((-1, 1))", None),
        ("named", "X(P.Variable('x', L.ident), name='ax', latex_name='|x|')(-2)", None),
    ],
    "Cm": [
        ("mm", "X(P.Variable('x', L.ident, unit='mm'))(10)", None),
        ("no-unit", "X(P.Variable('x', L.ident))", None),
        ("bad-unit", "X(P.Variable('x', L.ident, unit='kg'))", None),
    ],
}


# ------------------------------------------------------------------ lena.structures
_H1 = "X([0, 1, 2], [3, 4])" 
SCEN["structures"] = {
    "histogram": [
        ("fill", "(lambda h: (h.fill(0.5), h.fill(1.5, 2), h.fill(5), h.bins, h.edges, h.dim))"
                 "(X([0, 1, 2]))[3:]", None),
        ("2d", "(lambda h: (h.fill([0, 1]), h.bins)[1])(X([[0, 1, 2], [0, 1, 2]]))", None),
        ("bins", "[X([0, 1, 2], [3, 4]).bins, X([0, 1, 2], [3, 4]).scale(), "
                 "X([0, 1, 2], [3, 4]) == X([0, 1, 2], [3, 4]), repr(X([0, 1], [1]))]", None),
        ("scale-to", "(lambda h: (h.scale(14), h.bins)[1])(X([0, 1, 2], [3, 4]))", None),
        ("add", "(lambda h: (h.add(X([0, 1, 2], [1, 1])), h.bins)[1])(X([0, 1, 2], [3, 4]))", None),
        ("nevents", "(lambda h: (h.fill(0.5), h.get_nevents(), h.set_nevents(5), "
                    "h.get_nevents())[1::2])(X([0, 1, 2]))", None),
        ("context", "(lambda h, c: (h._update_context(c), c)[1])(X([0, 1, 2], [3, 4]), {})", None),
        ("bad-edges", "X([0, 0])", "LenaValueError"),
        ("short-edges", "X([0])", "LenaValueError"),
        ("bad-bins", "X([0, 1, 2], [1])", "LenaValueError"),
        ("scale-zero", "X([0, 1, 2]).scale(1)", "LenaValueError"),
        ("add-not-hist", "X([0, 1]).add(5)", None),
        ("add-other-edges", "X([0, 1]).add(X([0, 2]))", None),
    ],
    "Histogram": [
        ("fc", "[(v[0].bins, v[1]) for v in L.fc(X([0, 1, 2]), [0.5, (1.5, {'a': 1})])]", None),
        ("make-bins", "[v[0].bins for v in L.fc(X([0, 1, 2], make_bins=lambda: [1, 1]), [0.5])]",
         None),
        ("reset", "(lambda h: (h.fill(0.5), h.reset(), [v[0].bins for v in h.compute()])[2])"
                  "(X([0, 1, 2]))", None),
        ("both", "X([0, 1], bins=[0], make_bins=lambda: [0])", "LenaTypeError"),
    ],
    "graph": [
        ("basic", "[repr(X([[0, 1], [2, 3]])), list(X([[0, 1], [2, 3]])), "
                  "X([[0, 1], [2, 3]]).dim, list(X([[0, 1], [2, 3]]).rows()), "
                  "X([[0, 1], [2, 3]]) == X([[0, 1], [2, 3]])]", None),
        ("fields", "[X([[0], [1], [2]], field_names='x, y, error_y').field_names, "
                   "X([[0], [1]], field_names=('a', 'b')).coords]", None),
        ("scale", "(lambda g: (g.scale(), g.scale(10), g.coords))(X([[0, 1], [2, 3]], scale=5))[::2]",
         None),
        ("add", "(X([[0, 1], [2, 3]]) + X([[0, 1], [1, 1]])).coords", None),
        ("context", "(lambda g, c: (g._update_context(c), c)[1])"
                    "(X([[0], [1], [2]], field_names='x,y,error_y'), {})", None),
        ("scale-unknown", "X([[0, 1], [2, 3]]).scale(2)", "LenaValueError"),
        ("scale-zero", "X([[0, 1], [2, 3]], scale=0).scale(2)", "LenaValueError"),
        ("bad-fields-type", "X([[0], [1]], field_names=5)", "LenaTypeError"),
        ("bad-fields-len", "X([[0], [1]], field_names=('x',))", "LenaValueError"),
        ("dup-fields", "X([[0], [1]], field_names=('x', 'x'))", "LenaValueError"),
        ("empty", "X([])", "LenaValueError"),
        ("diff-len", "X([[0, 1], [2]])", "LenaValueError"),
        ("bad-error-name", "X([[0], [1], [2]], field_names=('x', 'y', 'error_z'))",
         "LenaValueError"),
    ],
    "Graph": [
        ("fc", "[(v[0].points, v[1]) for v in L.fc(X(), [(1, 2), ((0, 1), {'a': 1})])]", None),
        ("points", "[X([(1, 2), (0, 1)]).points, X([(1, 2), (0, 1)], sort=False).points, "
                   "repr(X([(0, 1)])), X([(0, 1)]) == X([(0, 1)])]", None),
        ("scale", "[X([(0, 1)], scale=2).scale(), X([(0, 1)], scale=2).scale(4).points]", None),
        ("rows", "list(X([(0, 1), (1, 2)]).rows())", None),
        ("rows-md", "list(X([((0, 1), (2, 3))]).rows())", None),
        ("mixed-dims", "X([(0, 1), ((1, 2), (3, 4))], sort=False)", None),
        ("reset", "(lambda g: (g.fill((0, 1)), g.reset(), g.points)[2])(X())", None),
        ("scale-unset", "X([(0, 1)]).scale()", "LenaAttributeError"),
        ("scale-unset-rescale", "X([(0, 1)]).scale(2)", None),
        ("scale-zero", "X([(0, 1)], scale=0).scale(2)", "LenaValueError"),
        ("set-points", "setattr(X([(0, 1)]), 'points', [])", None),
        ("bad-context", "X([(0, 1)], context=5)", None),
    ],
    "HistCell": [("make", "X([0, 1], 5, 0)", None), ("fields", "X._fields", None)],
    "HistToGraph": [
        ("run", "[L.view(v) for v in X().run(iter([P.histogram([0, 1, 2], [3, 4]), 7, "
                "(P.histogram([0, 1], [1]), {'histogram': {'to_graph': False}})]))]", None),
        ("middle-scale", "[v[0].coords + [v[0].scale()] for v in X(get_coordinate='middle', "
                         "scale=True).run(iter([P.histogram([0, 1, 2], [3, 4])]))]", None),
        ("make-value", "[v[0].coords for v in X(make_value=L.imp('lena.variables').Variable("
                       "'dbl', lambda b: b * 2)).run(iter([P.histogram([0, 1, 2], [3, 4])]))]",
         None),
        ("bad-make-value", "X(make_value=5)", "LenaTypeError"),
        ("bad-coordinate", "X(get_coordinate='top')", "LenaValueError"),
    ],
    "ScaleTo": [
        ("call", "X(14)((P.histogram([0, 1, 2], [3, 4]), {}))[0].bins", None),
        ("bare", "X(14)(P.histogram([0, 1, 2], [3, 4]))[0].bins", None),
        ("zero", "X(1)(P.histogram([0, 1, 2]))", "LenaValueError"),
        ("unknown", "X(1)(P.Graph([(0, 1)]))", None),
    ],
    "NumpyHistogram": [("construct", "X([0, 1, 2])", None)],
    "root_graph_errors": [("construct", "X(P.graph([[0], [1]]))", None)],
    "ROOTGraphErrors": [("construct", "X()", None)],
    "check_edges_increasing": [
        ("ok", "X([0, 1, 2])", None), ("2d", "X([[0, 1], [0, 2]])", None),
        ("equal", "X([0, 1, 1])", "LenaValueError"), ("short", "X([0])", "LenaValueError"),
        ("empty", "X([])", "LenaValueError"), ("2d-bad", "X([[0, 1], [2, 1]])", "LenaValueError"),
    ],
    "cell_to_string": [
        ("1d", "X([(0, 1)])", None),
        ("2d-names", "X([[0, 1], [2, 3]], coord_names=['x', 'y'])", None),
        ("var-context", "X([[0, 1], [2, 3]], var_context={'combine': [{'name': 'x'}, "
                        "{'name': 'y'}]})", None),
        ("reverse", "X([[0, 1], [2, 3]], coord_names=['x', 'y'], reverse=True)", None),
        ("var-context-1d", "X([(0, 1)], var_context={'name': 'x'})", None),
        ("diff-len", "X([(0, 1)], coord_names=['x', 'y'])", None),
    ],
    "get_bin_edges": [("1d", "X([1], [0, 1, 2])", None),
                      ("2d", "X((0, 1), [[0, 1], [0, 1, 2]])", None)],
    "get_bin_on_value_1d": [("in", "X(4.5, [0, 1, 4, 5, 7, 10])", None),
                            ("upper", "X(10, [0, 1, 4, 5, 7, 10])", None),
                            ("under", "X(-10, [0, 1, 4, 5, 7, 10])", None)],
    "get_bin_on_value": [("2d", "X((1.5, 2), [[1, 2, 3], [1, 3.5]])", None),
                         ("1d", "X(2, [1, 2, 3])", None),
                         ("diff-len", "X((1, 2, 3), [[1, 2, 3], [1, 3.5]])", "LenaValueError")],
    "get_bin_on_index": [("1d", "X(0, [5, 6])", None), ("2d", "X((0, 1), [[0, 1], [0, 0]])", None),
                         ("row", "X(0, [[0, 1], [0, 0]])", None),
                         ("out", "X(5, [5, 6])", "LenaIndexError"),
                         ("out-2d", "X((0, 5), [[0, 1], [0, 0]])", "LenaIndexError")],
    "get_example_bin": [("hist", "X(P.histogram([0, 1, 2], [3, 4]))", None),
                        ("2d", "X(P.histogram([[0, 1], [0, 1]], [[7]]))", None),
                        ("list", "X([[5]])", None)],
    "hist_to_graph": [
        ("basic", "X(P.histogram([0, 1, 2], [3, 4])).coords", None),
        ("right", "X(P.histogram([0, 1, 2], [3, 4]), get_coordinate='right').coords", None),
        ("make-value", "X(P.histogram([0, 1, 2], [3, 4]), make_value=lambda b: (b, b / 2), "
                       "field_names=('x', 'y', 'error_y')).coords", None),
        ("scale", "X(P.histogram([0, 1, 2], [3, 4]), scale=True).scale()", None),
        ("bad-coordinate", "X(P.histogram([0, 1, 2], [3, 4]), get_coordinate='top')",
         "LenaValueError"),
        ("bad-fields", "X(P.histogram([0, 1, 2], [3, 4]), field_names=5)", "LenaTypeError"),
    ],
    "init_bins": [("1d", "X([0, 1, 2])", None), ("2d", "X([[0, 1, 2], [0, 1, 2]], 1.5)", None),
                  ("deepcopy", "(lambda b: b[0] is b[1])(X([0, 1, 2], [], deepcopy=True))", None)],
    "integral": [("1d", "X(*P.unify_1_md([3, 4], [0, 1, 3]))", None),
                 ("2d", "X([[1, 2]], [[0, 2], [0, 1, 2]])", None)],
    "iter_bins": [("1d", "list(X([3, 4]))", None), ("2d", "list(X([[1, 2], [3, 4]]))", None)],
    "iter_bins_with_edges": [("1d", "list(X([0, 1, 2], [0, 1, 2, 3]))", None),
                             ("2d", "list(X([[1, 2]], [[0, 2], [0, 1, 2]]))", None)],
    "iter_cells": [
        ("all", "list(X(P.histogram([0, 1, 2], [3, 4])))", None),
        ("ranges", "list(X(P.histogram([0, 1, 2, 3], [3, 4, 5]), ranges=[(1, 3)]))", None),
        ("coord-ranges", "list(X(P.histogram([0, 1, 2, 3], [3, 4, 5]), coord_ranges=[(0, 2)]))",
         None),
        ("both", "list(X(P.histogram([0, 1, 2], [3, 4]), ranges=[(0, 1)], coord_ranges=[(0, 1)]))",
         "LenaTypeError"),
        ("bad-range", "list(X(P.histogram([0, 1, 2], [3, 4]), ranges=[(0, 5)]))", "LenaValueError"),
        ("negative-range", "list(X(P.histogram([0, 1, 2], [3, 4]), ranges=[(-1, 1)]))",
         "LenaValueError"),
    ],
    "make_hist_context": [("call", "X(P.histogram([0, 1, 2], [3, 4]), {'a': 1})", None)],
    "unify_1_md": [("1d", "X([3, 4], [0, 1, 2])", None),
                   ("2d", "X([[1, 2]], [[0, 2], [0, 1, 2]])", None)],
    "SplitIntoBins": [
        ("fc", "[(v[0].bins, v[1]) for v in L.fc(X(L.imp('lena.math').Sum(), "
               "L.imp('lena.variables').Variable('x', lambda d: d), [0, 1, 2]), [0.5, 1.5, 1.7, 9])]",
         None),
        ("not-fc", "X(L.inc, L.imp('lena.variables').Variable('x', L.ident), [0, 1])",
         "LenaTypeError"),
        ("not-variable", "X(L.FC(), L.ident, [0, 1])", "LenaTypeError"),
        ("bad-edges", "X(L.FC(), L.imp('lena.variables').Variable('x', L.ident), [1, 0])",
         "LenaValueError"),
    ],
    "IterateBins": [
        ("run", "[(v[0].bins, v[1]) for v in X().run(iter([(P.histogram([0, 1, 2], "
                "[P.histogram([0, 1], [5]), P.histogram([0, 1], [6])]), {'variable': "
                "{'name': 'x'}})]))]", None),
        ("not-selected", "list(X().run(iter([5, (P.histogram([0, 1], [1]), {})])))[0]", None),
        ("select", "[v[0] for v in X(select_bins=int).run(iter([(P.histogram([0, 1, 2], [7, 8]), "
                   "{'variable': {'name': 'x'}})]))]", None),
        ("bad-create", "X(create_edges_str=5)", "LenaTypeError"),
    ],
    "MapBins": [
        ("run", "[L.view(v) for v in X(L.incd).run(iter([P.histogram([0, 1, 2], [3, 4]), 7]))]",
         None),
        ("select", "[L.view(v) for v in X(L.incd, select_bins=str).run(iter("
                   "[(P.histogram([0, 1, 2], [3, 4]), {})]))]", None),
        ("keep-context", "[v[0].bins for v in X(lambda v: (v, {'k': 1}), drop_bins_context=False)"
                         ".run(iter([P.histogram([0, 1], [3])]))]", None),
        ("bad-seq", "X(5)", "LenaTypeError"),
        ("bad-select", "X(L.incd, select_bins=5)", "LenaTypeError"),
    ],
}

# ------------------------------------------------------------------ lena.output
_HS = "L.imp('lena.structures')"
SCEN["output"] = {
    "MakeFilename": [
        ("filename", "X('{{a}}_x')((1, {'a': 'A'}))", None),
        ("no-context", "X('name')(5)", None),
        ("fields", "X(dirname='d/{{a}}', fileext='pdf')((1, {'a': 'A'}))", None),
        ("prefix-suffix", "X(prefix='p_', suffix='_s')((1, {'output': {'prefix': 'q_'}}))", None),
        ("filename-uses-prefix", "X('n')((1, {'output': {'prefix': 'p_', 'suffix': '_s'}}))", None),
        ("existing", "X('new')((1, {'output': {'filename': 'old'}}))", None),
        ("overwrite", "X('new', overwrite=True)((1, {'output': {'filename': 'old'}}))", None),
        ("missing-key", "X('{{zz}}')((1, {}))", None),
        ("many-distinct", "L.many(lambda i: X('{{a}}_%d' % i, dirname='d%d/{{a}}' % i)"
                          "((1, {'a': 'A'})))", None),
        ("static", "(lambda m: (m._set_context({'a': 'S'}), m((1, {})))[1])(X('{{a}}'))", None),
        ("not-str", "X(5)", "LenaTypeError"),
        ("no-args", "X()", "LenaTypeError"),
        ("filename-and-prefix", "X('a', prefix='b')", "LenaTypeError"),
    ],
    "Write": [
        ("write", "L.with_tmp(lambda d: [L.strip_dir(v, d) for v in list(X(d, verbose=False).run("
                  "iter([('text', {'output': {'filename': 'f'}}), 5, ('text', {'output': "
                  "{'filename': 'f'}})])))])", None),
        ("default-name", "L.with_tmp(lambda d: L.strip_dir(list(X(d, verbose=False).run("
                         "iter(['abc']))), d))", None),
        ("existing-unchanged", "L.with_tmp(lambda d: L.strip_dir([list(X(d, verbose=False).run("
                               "iter(['abc']))), list(X(d, verbose=False, "
                               "existing_unchanged=True).run(iter(['xyz'])))], d))", None),
        ("overwrite", "L.with_tmp(lambda d: L.strip_dir([list(X(d, verbose=False).run("
                      "iter(['abc']))), list(X(d, verbose=False, overwrite=True).run("
                      "iter(['abc'])))], d))", None),
        ("no-write", "L.with_tmp(lambda d: list(X(d).run(iter([('t', {'output': "
                     "{'write': False}})]))))", None),
        ("verbose-unchanged", "L.with_tmp(lambda d: L.strip_dir([list(X(d).run(iter(['abc']))), "
                              "list(X(d).run(iter(['abc'])))], d))", None),
        ("dirname-ext", "L.with_tmp(lambda d: L.strip_dir(list(X(d, verbose=False).run(iter("
                        "[('t', {'output': {'filename': 'f', 'dirname': 'sub', 'filetype': "
                        "'csv'}})]))), d))", None),
        ("static", "(lambda w: (w._set_context({'a': 'S'}), w.output_directory)[1])(X('o/{{a}}'))",
         None),
        # a static context that resolves only some (or none) of the template's keys
        ("static-key-missing", "(lambda w: (w._set_context({'b': 'S'}), w.output_directory)[1])"
                               "(X('o/{{a}}'))", None),
        ("static-one-of-two", "(lambda w: (w._set_context({'a': 'S'}), w.output_directory, "
                              "w._set_context({'a': 'S', 'b': 'T'}), w.output_directory)[1::2])"
                              "(X('o_{{a}}/{{b}}'))", None),
        ("empty-filename", "L.with_tmp(lambda d: list(X(d).run(iter([('t', {'output': "
                           "{'filename': ''}})]))))", "LenaRuntimeError"),
        ("both-options", "X('d', existing_unchanged=True, overwrite=True)", "LenaValueError"),
        ("not-str", "X(5)", None),
    ],
    "Writer": [("deprecated", "type(X('out')).__name__", None)],
    "ToCSV": [
        ("hist1d", "list(X().run(iter([" + _HS + ".histogram([0, 1, 2], [3, 4]), 7, 'str'])))",
         None),
        ("hist2d", "list(X(separator=';', header='h').run(iter([(" + _HS +
                   ".histogram([[0, 1], [0, 1, 2]], [[1, 2]]), {'a': 1})])))", None),
        ("graph", "list(X(row_end=';', last_row_end='.').run(iter([" + _HS +
                  ".graph([[0, 1], [2, 3]])])))", None),
        ("Graph", "list(X().run(iter([" + _HS + ".Graph([(0, 1), (1, 2)])])))", None),
        ("no-csv", "list(X().run(iter([(" + _HS + ".histogram([0, 1], [1]), {'output': "
                   "{'to_csv': False}})])))[0][1]", None),
        ("no-duplicate", "list(X(duplicate_last_bin=False).run(iter([" + _HS +
                         ".histogram([0, 1, 2], [3, 4])])))", None),
        ("hist3d", "len(list(X().run(iter([" + _HS + ".histogram([[0, 1], [0, 1], [0, 1]])]))))",
         None),
    ],
    "hist1d_to_csv": [
        ("lines", "list(X(" + _HS + ".histogram([0, 1, 2], [3, 4]), header='x,y'))", None),
        ("no-duplicate", "list(X(" + _HS + ".histogram([0, 1, 2], [3, 4]), "
                         "duplicate_last_bin=False, separator=' '))", None),
        ("bad-content", "list(X(" + _HS + ".histogram([0, 1], [[1]])))", "LenaTypeError"),
    ],
    "hist2d_to_csv": [
        ("lines", "list(X(" + _HS + ".histogram([[0, 1], [0, 1, 2]], [[1, 2]]), header='x,y,z'))",
         None),
        ("no-duplicate", "list(X(" + _HS + ".histogram([[0, 1], [0, 1, 2]], [[1, 2]]), "
                         "duplicate_last_bin=False))", None),
    ],
    "iterable_to_table": [
        ("csv", "list(X([(1, 2), (3, 4)], format_=('{:.2f}', '{:.0f}'), header_fields=('a', 'b'), "
                "header='{},{}', row_end=';'))", None),
        ("plain", "list(X([(1, 2)]))", None),
        # formats that are given but empty (falsy, not None)
        ("empty-tuple-format", "list(X([(1, 2), (3, 4)], format_=(), row_start='<', "
                               "row_end='>'))", None),
        ("empty-list-format", "list(X([(1,)], format_=[]))", None),
        ("empty-string-format", "list(X([(1, 2)], format_=''))", None),
        ("no-rows", "list(X([], format_=(), header='h', footer='f'))", None),
        ("html", "list(X([(1, 2)], header='<table>', row_start='<tr><td>', "
                 "row_separator='</td><td>', row_end='</td></tr>', footer='</table>'))", None),
    ],
    "RenderLaTeX": [
        ("render", "L.with_tmp(lambda d: (open(d + '/t.tex', 'w').write('Hello \\\\VAR{ name }!'), "
                   "list(X('t.tex', template_dir=d).run(iter([('data', {'output': {'filetype': "
                   "'csv'}, 'name': 'N'}), 5]))))[1])", None),
        ("from-data", "L.with_tmp(lambda d: (open(d + '/t.tex', 'w').write('\\\\VAR{ name }'), "
                      "list(X('t.tex', template_dir=d, from_data=True, select_data=lambda v: "
                      "True, verbose=2).run(iter([({'name': 'D'}, {})]))))[1])", None),
        ("context-template", "L.with_tmp(lambda d: (open(d + '/u.tex', 'w').write('U'), "
                             "list(X(template_dir=d).run(iter([('data', {'output': {'filetype': "
                             "'csv', 'template': 'u.tex'}})]))))[1])", None),
        ("no-template", "list(X().run(iter([('data', {'output': {'filetype': 'csv'}})])))",
         "LenaRuntimeError"),
        ("bad-select-template", "X(5)", "LenaTypeError"),
        ("bad-select-data", "X('t', select_data=5)", "LenaTypeError"),
        ("env-and-dir", "X('t', template_dir='x', environment=object())", "LenaValueError"),
    ],
    "jinja_syntax_latex": [("keys", "sorted(X)", None)],
    "LaTeXToPDF": [
        ("pass", "list(X(verbose=0).run(iter([5, ('a.txt', {'output': {'filetype': 'txt'}})])))",
         None),
        ("bad-command", "X(create_command=5)", "LenaTypeError"),
    ],
    "PDFToPNG": [
        ("pass", "list(X(verbose=False).run(iter([5, ('a.txt', {'output': {'filetype': 'txt'}})])))",
         None),
    ],
    "WriteROOTTree": [("construct", "X('tree', 'f.root')", None)],
    "raise_on_usage": [("stub", "X('A', 'b')()", None)],
}

# ------------------------------------------------------------------ lena.input
SCEN["input"] = {
    "ReadROOTFile": [("construct", "X()", None)],
    "ReadROOTTree": [("construct", "X(leaves=['x'])", None)],
}

# ------------------------------------------------------------------ running
_ADDR = re.compile(r" at 0x[0-9a-fA-F]+")
_TMP = re.compile(r"(?:/[\w.\-]+)*/rv_c20_\w+")


def norm(s):
    return _TMP.sub("<tmp>", _ADDR.sub("", s))[:1500]


def lena_site(tb):
    """(relfile, qualname, line) of the innermost lena frame of traceback *tb*."""
    import os
    repo = os.path.realpath(os.environ.get("LENA_REPO", "/repo"))
    lena_dir = os.path.join(repo, "lena") + os.sep
    found = None
    while tb is not None:
        co = tb.tb_frame.f_code
        if co.co_filename.startswith(lena_dir):
            found = [co.co_filename[len(repo) + 1:], co.co_qualname, tb.tb_lineno]
        tb = tb.tb_next
    return found


def names_of(pkg, mod):
    """Public names of a subpackage: __all__ plus what the package binds publicly."""
    import types
    names = list(getattr(mod, "__all__", []) or [])
    for n, v in vars(mod).items():
        if n.startswith("_") or isinstance(v, types.ModuleType) or n in names:
            continue
        if getattr(v, "__module__", "").startswith("lena." + pkg):
            names.append(n)
    return sorted(set(names))


def run(pkg, name, P):
    """Outcome records of the scenario of lena.<pkg>.<name>:
    [label, 'ok', repr] or [label, 'exc', type, [mro names], message, lena site]."""
    entries = SCEN.get(pkg, {}).get(name)
    recs = []
    if (pkg, name) in SKIPPED:
        recs.append(["#skipped", "ok", SKIPPED[(pkg, name)]])
        entries = entries or []
    elif entries is None:
        return [["#no-scenario", "ok", ""]]
    me = sys.modules[__name__]
    if not hasattr(P, name):
        return [["#missing", "exc", "AttributeError", ["AttributeError"],
                 "lena.%s has no attribute %s" % (pkg, name), None]]
    X = getattr(P, name)
    recs.append(["#type", "ok", type(X).__name__])
    for label, expr, _ in entries:
        env = {"P": P, "X": X, "L": me}
        try:
            val = eval(expr, env)   # pylint: disable=eval-used
            recs.append([label, "ok", norm(repr(val))])
        except BaseException as e:  # pylint: disable=broad-except
            recs.append([label, "exc", type(e).__name__,
                         [c.__name__ for c in type(e).__mro__], norm(str(e)),
                         lena_site(e.__traceback__)])
    return recs


def expected_of(pkg, name):
    return dict((label, exp) for label, _, exp in SCEN.get(pkg, {}).get(name, []))
