"""Executable model of the schedule documented in Split.run.__doc__.

Only the *scheduling* is modelled.  The model never looks inside a branch: it
drives fresh twin copies of the branch objects through their own public methods
(Source.__call__, fill/compute, fill/request, Sequence.run) at the points the
documentation names, and concatenates what they yield.

  blocks of *bufsize* values (None: the whole flow is one block); inside a block
  the branches in list order:
    source        complete output the first time it is reached, then dropped
    fill_compute  filled with the block; on LenaStopFill: compute() now, dropped
    fill_request  filled with the block, then request(); dropped after a stop
    sequence      run(block)
  after the last block: compute() of the surviving fill_compute branches in
  order; if the flow was empty every branch is invoked exactly once instead.
  copy_buf: every branch sees its own deep copy of the block (the real code
  spares the copy for the last branch, which nobody can observe); without
  copy_buf all branches share the block's value objects.
"""
import copy
import itertools


def _fill(branch, block, stop_exc):
    """Fill until the block ends (False) or the branch signals a stop (True)."""
    for val in block:
        try:
            branch.fill(val)
        except stop_exc:
            return True
    return False


def schedule(twins, kinds, flow, bufsize, copy_buf, stop_exc, stopped_log=None):
    """List of everything Split(twins, bufsize, copy_buf).run(flow) must yield."""
    out = []
    active = list(zip(range(len(twins)), twins, kinds))
    flow = iter(flow)
    flow_was_empty = True
    while True:
        block = list(itertools.islice(flow, bufsize))
        if not block:
            break
        flow_was_empty = False
        survivors = []
        for ind, br, kind in active:
            buf = copy.deepcopy(block) if copy_buf else block
            if kind == "source":
                out.extend(br())
                continue
            if kind == "sequence":
                out.extend(br.run(buf))
            elif kind == "fill_compute":
                if _fill(br, buf, stop_exc):
                    out.extend(br.compute())
                    if stopped_log is not None:
                        stopped_log.append(ind)
                    continue
            elif kind == "fill_request":
                stopped = _fill(br, buf, stop_exc)
                out.extend(br.request())
                if stopped:
                    if stopped_log is not None:
                        stopped_log.append(ind)
                    continue
            else:
                raise ValueError(kind)
            survivors.append((ind, br, kind))
        active = survivors
    for ind, br, kind in active:
        if kind == "fill_compute":
            out.extend(br.compute())
        elif flow_was_empty:
            if kind == "source":
                out.extend(br())
            elif kind == "fill_request":
                out.extend(br.request())
            elif kind == "sequence":
                out.extend(br.run([]))
    return out
