"""The repository's own test-suite as a second workload under the monitors of one property
(rv/pytest_plugin.py).  One case = one pytest session in a scratch copy of tests/ with a
fixed hypothesis seed.  Contracts report, they do not raise: the tests themselves run as
without the plugin, and their pass/fail outcome is only counted (it is the baseline's job)."""
import json
import os
import shutil
import subprocess
import sys
import tempfile

from rv.harness import HERE, REPO


def case(which, hseed):
    return {"k": "repo-tests", "contracts": which, "hseed": int(hseed)}


def run(r, obs):
    which = r["contracts"]
    scratch = tempfile.mkdtemp(prefix="rv_rt_")
    try:
        shutil.copytree(os.path.join(REPO, "tests"), os.path.join(scratch, "tests"))
        for f in ("conftest.py", "pytest.ini"):
            if os.path.exists(os.path.join(REPO, f)):
                shutil.copy(os.path.join(REPO, f), scratch)
        out = os.path.join(scratch, "plugin_out.json")
        env = dict(os.environ, RV_PLUGIN_CONTRACTS=which, RV_PLUGIN_OUT=out,
                   HYPOTHESIS_STORAGE_DIRECTORY=os.path.join(scratch, ".hyp"),
                   PYTHONPATH=REPO + os.pathsep + HERE, PYTHONHASHSEED="0")
        cmd = [sys.executable, "-B", "-m", "pytest", "-q", "-p", "no:cacheprovider",
               "-p", "rv.pytest_plugin", "--hypothesis-seed=%d" % r["hseed"], "--timeout=900",
               "-W", "ignore"]
        p = subprocess.run(cmd, cwd=scratch, env=env, capture_output=True, text=True,
                           timeout=1200)
        if not os.path.exists(out):
            raise RuntimeError("pytest under rv.pytest_plugin wrote no result (exit %s): %s"
                               % (p.returncode, (p.stdout + p.stderr)[-1500:]))
        with open(out) as f:
            res = json.load(f)
    finally:
        shutil.rmtree(scratch, ignore_errors=True)
    obs.count("repo_test_sessions")
    for k, v in res["outcomes"].items():
        obs.count("repo_tests_" + k, v)
    obs.count("repo_tests_that_reached_a_contract", res["tests_with_evaluations"])
    nev = 0
    for k, v in res["evaluations"].items():
        obs.count("repo_tests_contract_evaluations:" + k, v)
        nev += v
    nraise = sum(res["raises"].values())
    obs.count("repo_tests_raise_events_in_lena", nraise)
    if nev or (which == "C20" and nraise):
        obs.nontrivial = True
    seen = set()
    for v in res["violations"] + res["flagged_raises"]:
        key = (v["mech"], v.get("test"))
        if key in seen:
            continue
        seen.add(key)
        obs.fail(v["mech"], "[while the repository's test %s ran under the monitors, hypothesis "
                            "seed %d] %s" % (v.get("test"), r["hseed"], v["msg"]))
    obs.count("oracle_evaluations", nev + (nraise if which == "C20" else 0))
