"""Child interpreter of the C20 check.

    python -B -W ignore -m rv.props._c20_child '<json args>'

args: {"mode": "star" | "scenario" | "audit", "pkg": "flow", "name": "Count",
       "pre": ["math"], "all": false, "out": "/path/result.json"}

The child installs its monitors (sys.monitoring RAISE and LINE events
restricted to files under $LENA_REPO/lena) BEFORE the first lena import, then
imports exactly what the arguments say:

    pre packages (in order), then lena.<pkg>;  "all": every subpackage first.

Nothing in this file or in rv/, rv/props/__init__ imports lena.
"""
import builtins
import dis
import importlib
import io
import json
import os
import pkgutil
import re
import sys
import traceback
import types

REPO = os.path.realpath(os.environ.get("LENA_REPO", "/repo"))
LENA_DIR = os.path.join(REPO, "lena") + os.sep
SUBPACKAGES = ["context", "core", "flow", "input", "math", "meta", "output", "structures",
               "variables"]
PY2_NAMES = {"basestring", "unicode", "cPickle", "izip_longest", "izip", "imap", "reduce",
             "xrange", "long", "raw_input", "unichr", "StringIO", "cmp"}
TOOL = 4

raised = []        # flagged raises: [type, relfile, qualname, message]
raise_counts = {}  # "Type@relfile:qualname" -> n
lines = {}         # relfile -> set(lines)
funcs = set()


def rel(fn):
    return fn[len(REPO) + 1:]


def flagged(exc):
    """Is *exc* a reference to an undefined name / a lena module attribute?"""
    if isinstance(exc, (NameError, UnboundLocalError)):
        return True
    if isinstance(exc, AttributeError) and not isinstance(exc, _lena_exceptions()):
        if re.match(r"(partially initialized )?module 'lena[.\w]*' has no attribute",
                    str(exc)):
            return True
    return False


def _lena_exceptions():
    m = sys.modules.get("lena.core.exceptions")
    return (m.LenaException,) if m is not None and hasattr(m, "LenaException") else ()


def missing_name(exc):
    m = re.search(r"name '(\w+)' is not defined", str(exc))
    if m:
        return m.group(1)
    m = re.search(r"local variable '(\w+)'", str(exc))
    if m:
        return m.group(1)
    m = re.match(r"(?:partially initialized )?module '(lena[.\w]*)' has no attribute '(\w+)'",
                 str(exc))
    if m:
        return m.group(1) + "." + m.group(2)
    return "?"


def install_monitors():
    mon = sys.monitoring
    mon.use_tool_id(TOOL, "rv_c20")
    E = mon.events

    def on_line(code, line):
        fn = code.co_filename
        if fn.startswith(LENA_DIR):
            r = rel(fn)
            lines.setdefault(r, set()).add(line)
            funcs.add(r + ":" + code.co_qualname)
        return mon.DISABLE

    def on_raise(code, offset, exc):
        fn = code.co_filename
        if fn.startswith(LENA_DIR):
            key = "%s@%s:%s" % (type(exc).__name__, rel(fn), code.co_qualname)
            raise_counts[key] = raise_counts.get(key, 0) + 1
            if flagged(exc):
                raised.append([type(exc).__name__, rel(fn), code.co_qualname,
                               missing_name(exc), str(exc)[:200]])

    mon.register_callback(TOOL, E.LINE, on_line)
    mon.register_callback(TOOL, E.RAISE, on_raise)
    mon.set_events(TOOL, E.LINE | E.RAISE)


# ------------------------------------------------------------------ star import
def do_star(pkg):
    res = {"pkg": pkg}
    ns = {}
    try:
        exec("from lena.%s import *" % pkg, ns)
        res["star"] = ["ok", len([k for k in ns if not k.startswith("__")])]
    except BaseException as e:  # pylint: disable=broad-except
        res["star"] = ["exc", type(e).__name__, str(e)[:300]]
    try:
        mod = importlib.import_module("lena." + pkg)
    except BaseException as e:  # pylint: disable=broad-except
        res["import"] = ["exc", type(e).__name__, str(e)[:300]]
        return res
    res["import"] = ["ok"]
    names = getattr(mod, "__all__", None)
    res["has_all"] = names is not None
    if names is None:
        names = [n for n in vars(mod) if not n.startswith("_")]
    res["names"] = sorted(set(names))
    res["modules"] = sorted(n for n in set(names)
                            if isinstance(getattr(mod, n, None), types.ModuleType))
    # an advertised name that is bound to the package's own SUBMODULE of the same name although
    # that submodule defines an object of that name: the import of the object was lost and
    # the import system's implicit binding of the submodule shows through
    res["shadowed_by_submodule"] = sorted(
        n for n in res["modules"]
        if getattr(getattr(mod, n), "__name__", "") == "lena.%s.%s" % (pkg, n)
        and hasattr(getattr(mod, n), n))
    res["duplicates"] = sorted(set(n for n in names if list(names).count(n) > 1))
    res["missing"] = sorted(set(n for n in names if not hasattr(mod, n)))
    res["not_in_star_namespace"] = sorted(
        set(n for n in names if hasattr(mod, n) and n not in ns)) \
        if res["star"][0] == "ok" else []
    # public names bound by the package that __all__ does not advertise (information)
    res["unadvertised"] = sorted(
        n for n, v in vars(mod).items()
        if not n.startswith("_") and n not in names and not isinstance(v, types.ModuleType))
    return res


# ------------------------------------------------------------------ live-namespace audit
def functions_of(mod):
    """Every function / method object defined in *mod* (live objects)."""
    seen, out = set(), []

    def add(f):
        if isinstance(f, (staticmethod, classmethod)):
            f = f.__func__
        if isinstance(f, property):
            for g in (f.fget, f.fset, f.fdel):
                if g is not None:
                    add(g)
            return
        f = getattr(f, "__wrapped__", f) if not isinstance(f, types.FunctionType) else f
        if isinstance(f, types.FunctionType) and f.__module__ == mod.__name__ \
                and id(f) not in seen:
            seen.add(id(f))
            out.append(f)

    def add_class(c, depth=0):
        for v in list(vars(c).values()):
            add(v)
            if isinstance(v, type) and v.__module__ == mod.__name__ and depth < 3:
                add_class(v, depth + 1)

    for v in list(vars(mod).values()):
        add(v)
        if isinstance(v, type) and v.__module__ == mod.__name__:
            add_class(v)
    return out


def code_tree(co, chain=()):
    yield co, chain
    for c in co.co_consts:
        if isinstance(c, types.CodeType):
            for x in code_tree(c, chain + (co,)):
                yield x


def audit_function(f, findings, stats):
    g = f.__globals__
    for co, chain in code_tree(f.__code__):
        ins = list(dis.get_instructions(co))
        version_guard = any("version_info" in c.co_names for c in (co,) + chain)
        local_imports = set()
        for c in (co,) + chain:
            for i in dis.get_instructions(c):
                if i.opname == "IMPORT_NAME":
                    local_imports.add(i.argval)
        relfile = rel(co.co_filename) if co.co_filename.startswith(LENA_DIR) \
            else co.co_filename
        for i, x in enumerate(ins):
            if x.opname not in ("LOAD_GLOBAL", "LOAD_NAME"):
                continue
            n = x.argval
            stats["names_resolved"] += 1
            if n not in g and not hasattr(builtins, n):
                if x.opname == "LOAD_NAME":
                    stores = set(j.argval for j in ins if j.opname == "STORE_NAME")
                    if n in stores:
                        continue        # class-body local
                findings.append({"kind": "undefined-name", "file": relfile,
                                 "qualname": co.co_qualname, "name": n,
                                 "line": x.positions.lineno if x.positions else None,
                                 "exempt": bool(n in PY2_NAMES and version_guard)})
                continue
            obj = g.get(n)
            if not isinstance(obj, types.ModuleType) or \
                    not obj.__name__.split(".")[0] == "lena":
                continue
            # attribute chain on a lena module: lena.flow.get_data_context
            chain_names = [obj.__name__]
            j = i + 1
            while j < len(ins) and ins[j].opname in ("LOAD_ATTR", "LOAD_METHOD"):
                a = ins[j].argval
                stats["module_attributes_resolved"] += 1
                if not hasattr(obj, a):
                    dotted = chain_names[-1] + "." + a
                    if not any(li == dotted or li.startswith(dotted + ".")
                               for li in local_imports):
                        findings.append({"kind": "unresolved-attribute", "file": relfile,
                                         "qualname": co.co_qualname, "name": dotted,
                                         "line": ins[j].positions.lineno
                                         if ins[j].positions else None,
                                         "exempt": False})
                    break
                obj = getattr(obj, a)
                if not isinstance(obj, types.ModuleType):
                    break
                chain_names.append(obj.__name__)
                j += 1


def do_audit(pkg, everything):
    """Resolve every global name (and every attribute chain on a lena module) of
    every live function of the loaded lena modules.  pkg given: only modules of
    lena.<pkg> are reported (the interpreter imported only lena.<pkg>)."""
    if everything:
        import lena
        failed = []
        for mi in pkgutil.walk_packages(lena.__path__, "lena."):
            try:
                importlib.import_module(mi.name)
            except BaseException as e:  # pylint: disable=broad-except
                failed.append([mi.name, type(e).__name__, str(e)[:200]])
    else:
        failed = []
    findings = []
    stats = {"modules": 0, "functions": 0, "names_resolved": 0,
             "module_attributes_resolved": 0}
    for name, mod in sorted(sys.modules.items()):
        if mod is None or not name.startswith("lena."):
            continue
        if not everything and not (name == "lena." + pkg or
                                   name.startswith("lena." + pkg + ".")):
            continue
        stats["modules"] += 1
        for f in functions_of(mod):
            stats["functions"] += 1
            audit_function(f, findings, stats)
    return {"findings": findings, "stats": stats, "import_failures": failed,
            "loaded": sorted(m for m in sys.modules if m.startswith("lena."))}


# ------------------------------------------------------------------ main
def main(argv):
    args = json.loads(argv[0])
    for m in args.get("hide", []):
        # an optional third-party dependency that is not installed: import raises ImportError
        sys.modules[m] = None
    install_monitors()
    out = {"args": args}
    stdout = sys.stdout
    sys.stdout = io.StringIO()
    try:
        pkg = args["pkg"]
        mode = args["mode"]
        if mode == "star":
            out["star"] = do_star(pkg)
        else:
            if args.get("all"):
                for p in SUBPACKAGES:
                    importlib.import_module("lena." + p)
            for p in args.get("pre", []):
                importlib.import_module("lena." + p)
            if pkg != "*":
                mod = importlib.import_module("lena." + pkg)
            out["loaded_subpackages"] = sorted(
                set(m.split(".")[1] for m in sys.modules
                    if m.startswith("lena.") and sys.modules[m] is not None))
            if mode == "audit":
                out["audit"] = do_audit(pkg, pkg == "*")
            elif mode == "scenario":
                from rv.props import _c20_scenarios as S
                out["records"] = S.run(pkg, args["name"], mod)
            else:
                raise ValueError(mode)
    except BaseException as e:  # pylint: disable=broad-except
        out["child_error"] = "".join(traceback.format_exception(type(e), e, e.__traceback__))
    finally:
        sys.stdout = stdout
    out["raised"] = raised
    out["raise_counts"] = raise_counts
    out["lines"] = {f: sorted(ls) for f, ls in lines.items()}
    out["funcs"] = sorted(funcs)
    with open(args["out"], "w") as f:
        json.dump(out, f, default=repr)
    return 0


if __name__ == "__main__":
    sys.exit(main(sys.argv[1:]))
