"""C02 - evaluation is lazy: demand-driven consumption and bounded buffering.

Trace checker over one logical clock: ``pull(i)`` events of an instrumented
input iterator interleaved with ``got(j)`` events of a recording consumer.
Reference = the same per-value functions driven by Python builtins (map, filter,
islice) plus generators that embody exactly the documented look-aheads (Count: 1
value; negative stop: |stop| values; Split: one block).  Oracle: at every k the
real pipeline has pulled no more than the reference.  Liveness census (weak
references to unique tokens) for negative-index Slice.
"""
import collections
import collections.abc
import contextlib
import io
import itertools

from rv import gen
from rv.monitors.probe import Probe, Trace, Token, PullBudgetExceeded, census_now

ID = "C02"
LEVEL = "exploration"
RULE = ("seeded random pipelines of 1..5 streaming elements (callable, Variable, Filter, Slice "
        "non-negative and negative, Count, RunIf, Print, Context, UpdateContext, MakeFilename, "
        "nested Sequence, Split of per-value branches with bufsize 1..4) over finite flows of "
        "0..12 (int, context) pairs and over infinite flows with a pull budget; every consumer "
        "stop point k is read off the pull/got trace, a subset is re-executed with an explicit "
        "stop + close(); enumerated table of negative Slices under a liveness census. "
        "Non-trivial: >=2 elements and at least one result produced")
ASSUMPTIONS = ["per-value callables are total and pure",
               "'shortest prefix' is measured against a reference built from Python builtins "
               "and the documented look-aheads; the real pipeline may pull fewer values, never more",
               "infinite flows are sampled by itertools.count-like probes; termination is decided "
               "by a pull budget equal to the reference's pull count, never by wall clock"]
ANCHORS = [("lena/core/sequence.py", 57, 77), ("lena/core/adapters.py", 690, 715),
           ("lena/core/split.py", 307, 391), ("lena/flow/iterators.py", 168, 301),
           ("lena/flow/elements.py", 74, 106), ("lena/flow/elements.py", 201, 220),
           ("lena/flow/filter.py", 43, 56)]
MUST_REACH = ["lena/core/sequence.py:Sequence.run", "lena/core/adapters.py:Run._call_run",
              "lena/core/split.py:Split.run", "lena/flow/iterators.py:Slice._run_negative_islice",
              "lena/flow/elements.py:Count.run", "lena/flow/elements.py:RunIf.run",
              "lena/flow/filter.py:Filter.run", "lena/core/adapters.py:FillRequest._run_run"]
MUST_COUNT = ["pull_events", "got_events", "stop_points_checked", "census_events"]
MIN_NONTRIVIAL = {"quick": 3000, "thorough": 150000}
NPROG = {"quick": 12000, "thorough": 600000}
NBIG = {"quick": 600, "thorough": 20000}

LEVEL_TEXT = ("Seeded random exploration of streaming pipelines; each execution of the real code is "
              "watched through a pull/got event trace and compared, at every consumer stop point, "
              "with the pull count of an ideally lazy reference; infinite inputs are bounded by a "
              "pull budget; negative Slices stream thousands of tokens under a weak-reference "
              "census. Held on the K pipelines x stop points reported, nothing beyond.")
LEVEL_NOTE = ("The reference pipeline reuses the real per-value callables (Variable.__call__, "
              "Selector, UpdateContext...) but its own iteration machinery (map/filter/islice and "
              "small generators); CPython reference counting is assumed for the census.")
TECHNIQUE = "pull/got event-trace checker against an ideally lazy reference + pull budget + liveness census"

CALLS = ["inc", "dbl", "neg", "sq", "add10", "half", "ctx:a"]
PREDN = ["even", "odd", "pos", "lt5", "mod3", "true", "false"]


_BIG = [False]     # generation of the programs beyond the small sizes (see cases)


def _bigint(rng, lo=5):
    return rng.choice([7, 15, 16, 17, 31, 32, 33, 63, 64, 65, 100, 127, 128, 129,
                       rng.randint(lo, 140)])


def rand_el(rng, depth=0, allow_split=True):
    kinds = ["call", "call", "var", "filter", "filter", "slice", "slice", "negslice", "count",
             "runif", "print", "context", "updctx", "mkfn"]
    if not allow_split and depth >= 2:
        # inside a Split branch / RunIf: a Count would turn the branch into a
        # fill/compute branch (it has fill and compute), which is not a streaming branch
        kinds = [x for x in kinds if x != "count"]
    if depth < 2:
        # (a Cache only where it is run once per flow: per block or per value it would, as
        # documented, replay what it stored on its first run)
        kinds += ["seq", "frun", "cache"]
        if allow_split:
            kinds += ["split", "split"]
    k = rng.choice(kinds)
    if k == "call":
        return ["call", rng.choice(CALLS)]
    if k == "var":
        return ["var", rng.choice("xyz"), rng.choice(["inc", "dbl", "neg", "half"])]
    if k == "filter":
        return ["filter", rng.choice(PREDN)]
    if k == "slice":
        a = rng.choice([None, 0, 1, 2, 3])
        b = rng.choice([None, 1, 2, 3, 5, 8])
        c = rng.choice([None, 1, 2, 3])
        if _BIG[0] and rng.random() < 0.8:
            a = rng.choice([None, 0, 1, _bigint(rng) // 2])
            b = rng.choice([None, _bigint(rng), _bigint(rng) * 2])
            c = rng.choice([None, 1, 2, 7, 16, 17])
        return ["slice", [a, b, c]]
    if k == "negslice":
        form = rng.choice(["stop", "startstop", "start", "startposstop"])
        if _BIG[0] and rng.random() < 0.8:
            m = _bigint(rng)
            if form == "stop":
                return ["slice", [None, -m]]
            if form == "startstop":
                return ["slice", [rng.randint(0, 20), -m, rng.choice([None, 1, 2, 5])]]
            if form == "start":
                return ["slice", [-m, None]]
            return ["slice", [-m, rng.randint(0, 150)]]
        if form == "stop":
            return ["slice", [None, -rng.randint(1, 3)]]
        if form == "startstop":
            return ["slice", [rng.randint(0, 2), -rng.randint(1, 3), rng.choice([None, 1, 2])]]
        if form == "start":
            return ["slice", [-rng.randint(1, 3), None]]
        return ["slice", [-rng.randint(1, 4), rng.randint(0, 6)]]
    if k == "count":
        return ["count", rng.choice(["cnt", "n2"])]
    if k == "runif":
        return ["runif", rng.choice(PREDN),
                [rand_el(rng, 2, False) for _ in range(rng.randint(0, 2))]]
    if k == "print":
        return ["print"]
    if k == "cache":
        # a Cache whose file does not exist: a streaming element (values are dumped and passed on)
        return ["cache"]
    if k == "context":
        return ["context"]
    if k == "updctx":
        return ["updctx", rng.choice(["u.v", "w"]), rng.choice([1, "s", {"k": 2}])]
    if k == "mkfn":
        return ["mkfn", rng.choice(["out", "f_{{i}}"])]
    if k == "seq":
        return ["seq", [rand_el(rng, depth + 1, allow_split) for _ in range(rng.randint(0, 3))]]
    if k == "frun":
        # FillRequest around a run element with yield_on_remainder: documented to use no
        # internal buffer during run (results are yielded one by one, block after block)
        return ["frun", [rand_el(rng, 2, False) for _ in range(rng.randint(0, 2))],
                _bigint(rng, 6) if _BIG[0] and rng.random() < 0.7 else rng.randint(1, 5),
                rng.choice([None, None, "buffer_input", "buffer_output"])]
    if k == "split":
        nb = rng.randint(1, 3)
        bs = rng.randint(1, 4)
        if _BIG[0] and rng.random() < 0.7:
            nb = rng.choice([nb, rng.randint(5, 12)])
            bs = rng.choice([bs, _bigint(rng)])
        return ["split", [[rand_el(rng, 2, False) for _ in range(rng.randint(1, 2))]
                          for _ in range(nb)], bs, rng.choice([True, False])]
    raise AssertionError(k)


def cases(tier, seed):
    for i in range(NPROG[tier]):
        rng = gen.rng_for(seed, "C02", i)
        els = [rand_el(rng) for _ in range(rng.randint(1, 5))]
        n = rng.randint(0, 12)
        rec = {"k": "trace", "els": els, "n": n, "inf": rng.random() < 0.35,
               "stops": sorted(set(rng.randint(0, 8) for _ in range(2)))}
        x = rng.random()
        if x < 0.15:
            rec["form"] = "seq-copy"
        elif x < 0.3:
            rec["form"] = "source-reiterable"
        elif x < 0.4:
            rec["form"] = "split-source"
        elif x < 0.5:
            rec["form"] = "source-abc-sequence"
        yield rec
    # beyond the small sizes: 1..14 elements, flows of 17..300 values, block sizes, slice
    # indices and branch counts in the tens
    for i in range(NBIG[tier]):
        rng = gen.rng_for(seed, "C02big", i)
        _BIG[0] = True
        try:
            els = [rand_el(rng) for _ in range(rng.choice([1, 2, 3, 4, 6, 9, 14]))]
        finally:
            _BIG[0] = False
        n = rng.choice([17, 33, 64, 65, 100, 129, 257, 300, rng.randint(17, 300)])
        rec = {"k": "trace", "els": els, "n": n, "inf": rng.random() < 0.35,
               "stops": sorted(set([rng.randint(0, 8), rng.randint(9, 140)])), "big": 1}
        x = rng.random()
        if x < 0.15:
            rec["form"] = "seq-copy"
        elif x < 0.3:
            rec["form"] = "source-reiterable"
        elif x < 0.4:
            rec["form"] = "split-source"
        elif x < 0.5:
            rec["form"] = "source-abc-sequence"
        yield rec
    # a Split with the default block size (1000) in flows longer than that and in endless ones
    for j in range(24 if tier == "quick" else 200):
        rng = gen.rng_for(seed, "C02default", j)
        nb = rng.randint(1, 3)
        sp = ["split", [[rand_el(rng, 2, False) for _ in range(rng.randint(1, 2))]
                        for _ in range(nb)], "default", rng.choice([True, False])]
        els = [rand_el(rng, 2, False) for _ in range(rng.randint(0, 1))] + [sp] + \
              [rng.choice([["slice", [None, 5, None]], ["slice", [2, 1003, 500]], ["call", "inc"]])]
        yield {"k": "trace", "els": els, "n": rng.choice([1001, 1500, 2300]),
               "inf": j % 2 == 0, "stops": [3], "big": 1, "budget": 2600, "cap": 30}
    big = 400 if tier == "quick" else 3000
    for s in range(1, 6):
        for form in ["stop", "start_stop", "neg_start", "neg_start_pos_stop", "neg_neg", "step"]:
            yield {"k": "census", "s": s, "form": form, "N": big}
    for b in range(1, 5):
        for nb in range(1, 4):
            for cb in [True, False]:
                yield {"k": "splitblocks", "bufsize": b, "branches": nb, "copy_buf": cb, "n": 11}
    yield {"k": "builtins"}
    # further lazy elements: nothing is pulled when the pipeline is built or run() / the Source
    # is called (their pull pattern afterwards is not part of the property)
    for which in ("chunk2", "chunk3list", "reverse", "end", "sum", "negslice", "count",
                  "frun-yor", "frun-in", "frun-out", "fr-fc", "zip", "groupby", "storefilled",
                  "chain-seq", "runif", "hist"):
        for via in ("sequence", "source", "nested"):
            yield {"k": "nowork", "which": which, "via": via}
    # a fill/compute branch that stops reading (Slice in front of the accumulator) hands its
    # result on when it stops: a consumer that wants only that result pulls no further block
    for b in (1, 2, 3, 5):
        for n in (0, 1, 2, 4):
            for others in (0, 1):
                yield {"k": "splitstop", "bufsize": b, "n": n, "others": others}
    # a Split of Sources used as a source: a later Source is called (its file opened, its
    # generator function started) only when the consumer needs a value from it
    for kinds in (["call", "call"], ["call", "iter", "call"], ["iter", "call"],
                  ["call", "call", "call"]):
        for lens in ([2, 2, 2], [0, 3, 1], [3, 0, 2], [1, 1, 1]):
            for via in ("split", "source", "source-slice"):
                yield {"k": "splitcall", "kinds": kinds, "lens": lens[:len(kinds)], "via": via}
    yield {"k": "splitcall", "kinds": ["inf", "call"], "lens": [None, 2], "via": "source-slice"}
    # elements that write files: nothing on disk and nothing pulled when run() is called
    for which in ("cache", "cache-in-source", "write", "tocsv-write"):
        for n in (0, 3):
            yield {"k": "fswork", "which": which, "n": n}


# ------------------------------------------------------------------ builders
def build(r):
    import lena.context
    import lena.core
    import lena.flow
    import lena.output
    k = r[0]
    if k == "context":
        return lena.context.Context()
    if k == "cache":
        import os
        import uuid
        return lena.flow.Cache(os.path.join(_case_dir(), uuid.uuid4().hex + ".pkl"))
    if k == "mkfn":
        return lena.output.MakeFilename(r[1])
    if k == "seq":
        return lena.core.Sequence(*[build(e) for e in r[1]])
    if k == "split":
        if r[2] == "default":
            return lena.core.Split([tuple(build(e) for e in br) for br in r[1]], copy_buf=r[3])
        return lena.core.Split([tuple(build(e) for e in br) for br in r[1]],
                               bufsize=r[2], copy_buf=r[3])
    if k == "runif":
        return lena.flow.RunIf(gen.pred(r[1]), *[build(e) for e in r[2]])
    if k == "frun":
        kw = {r[3]: True} if len(r) > 3 and r[3] else {}
        return lena.core.FillRequest(lena.core.Sequence(*[build(e) for e in r[1]]),
                                     bufsize=r[2], yield_on_remainder=True, **kw)
    return gen.build(r)


_CASE_DIR = [None]


def _case_dir():
    import tempfile
    if _CASE_DIR[0] is None:
        _CASE_DIR[0] = tempfile.mkdtemp(prefix="rv_c02_cache_")
    return _CASE_DIR[0]


def _drop_case_dir():
    import shutil
    if _CASE_DIR[0] is not None:
        shutil.rmtree(_CASE_DIR[0], ignore_errors=True)
        _CASE_DIR[0] = None


def ref_stream(r, el, flow):
    """Ideally lazy reference for element recipe *r* (real element *el* supplies the
    per-value behaviour), with exactly the documented look-aheads."""
    import copy
    k = r[0]
    if k in ("call", "var", "print", "context", "updctx", "mkfn"):
        return map(el, flow)
    if k == "cache":
        return map(lambda v: v, flow)
    if k == "filter":
        return filter(el._selector, flow)
    if k == "slice":
        args = r[1]
        if all(a is None or a >= 0 for a in args):
            return itertools.islice(flow, *args)
        return _ref_neg_slice(flow, *(list(args) + [None] * (3 - len(args))))
    if k == "count":
        return _ref_count(el, flow)
    if k == "runif":
        def gen_runif():
            inner_r = r[2]
            for v in flow:
                if el._select(v):
                    f = iter([v])
                    for er, e in zip(inner_r, el._seq._data_seq_orig):
                        f = ref_stream(er, e, f)
                    for x in f:
                        yield x
                else:
                    yield v
        return gen_runif()
    if k == "seq":
        f = flow
        for er, e in zip(r[1], el._data_seq_orig):
            f = ref_stream(er, e, f)
        return f
    if k == "frun":
        def gen_frun():
            flow_it = iter(flow)
            while True:
                try:
                    first = next(flow_it)
                except StopIteration:
                    return
                block = itertools.chain([first], itertools.islice(flow_it, r[2] - 1))
                f = block
                for er, e in zip(r[1], el._inner_orig):
                    f = ref_stream(er, e, f)
                for x in f:
                    yield x
                # what the element left of its block is passed over before the next block
                for _ in block:
                    pass
        return gen_frun()
    if k == "split":
        def gen_split():
            bufsize, copy_buf = r[2], r[3]
            if bufsize == "default":
                bufsize = 1000          # the documented default
            flow_it = iter(flow)
            empty = True
            while True:
                block = list(itertools.islice(flow_it, bufsize))
                if not block:
                    break
                empty = False
                nb = len(r[1])
                for bi, (br_r, br) in enumerate(zip(r[1], el._ref_branches)):
                    buf = copy.deepcopy(block) if (copy_buf and bi < nb - 1) else block
                    f = iter(buf)
                    for er, e in zip(br_r, br):
                        f = ref_stream(er, e, f)
                    for x in f:
                        yield x
            if empty:
                for br_r, br in zip(r[1], el._ref_branches):
                    f = iter([])
                    for er, e in zip(br_r, br):
                        f = ref_stream(er, e, f)
                    for x in f:
                        yield x
        return gen_split()
    raise ValueError(r)


def _ref_count(el, flow):
    """Count.run: one value of look-ahead (needed to mark the last value)."""
    import lena.flow
    flow = iter(flow)
    try:
        prev = next(flow)
    except StopIteration:
        return
    n = 1
    for v in flow:
        yield prev
        n += 1
        prev = v
    el.count += n
    data, ctx = lena.flow.get_data_context(prev)
    ctx.update({el.name: el.count})
    yield (data, ctx)


def _ref_neg_slice(flow, start, stop, step):
    """Negative indices: a negative stop lags by |stop| values (deque of that size);
    a negative start has to see the end of the flow (it keeps |start| values)."""
    step = 1 if step is None else step
    flow = iter(flow)

    def core():
        if start is None or start >= 0:
            for _ in zip(range(start or 0), flow):
                pass
            d = collections.deque()
            lag = -stop
            for v in flow:
                d.append(v)
                if len(d) > lag:
                    yield d.popleft()
        else:
            # a negative start has to see the end of the flow - unless the stop is
            # non-negative and stop - start values have passed: xs[start:stop] is then empty
            items = []
            for v in flow:
                items.append(v)
                if stop is not None and stop >= 0 and len(items) >= stop - start:
                    return
            for v in items[slice(start, stop)]:
                yield v
    return itertools.islice(core(), None, None, step)


class ReIterable(object):
    """A lazy collection: not an iterator, every iter() of it reads the underlying probe."""

    def __init__(self, probe):
        self._probe = probe

    def __iter__(self):
        return iter(self._probe)


class LazySequence(collections.abc.Sequence):
    """A collections.abc.Sequence that reads its items on demand (records of a file, rows of a
    table): every item access is a pull of the underlying probe."""

    def __init__(self, probe):
        self._probe = probe

    def __len__(self):
        return self._probe.n if self._probe.n is not None else 10 ** 12

    def __getitem__(self, i):
        if isinstance(i, slice):
            raise TypeError("items are read one by one")
        if i < 0:
            i += len(self)
        p = self._probe
        if i == p.i:
            try:
                return next(p)
            except StopIteration:
                raise IndexError(i)
        if p.n is not None and i >= p.n:
            raise IndexError(i)
        # an item read again (or out of order): also a read
        p.trace.log(p.name, (i, None))
        return p.make(i)


def build_pair(recipes):
    """Build the real pipeline and a twin set of elements for the reference."""
    import lena.core

    def twin(r):
        el = build(r)
        if r[0] == "seq":
            el._data_seq_orig = [twin(e) for e in r[1]]
        elif r[0] == "runif":
            seq = el._seq
            seq._data_seq_orig = [twin(e) for e in r[2]]
        elif r[0] == "split":
            el._ref_branches = [[twin(e) for e in br] for br in r[1]]
        elif r[0] == "frun":
            el._inner_orig = [twin(e) for e in r[1]]
        return el
    real = lena.core.Sequence(*[build(r) for r in recipes])
    ref_els = [twin(r) for r in recipes]
    return real, ref_els


def make_value(i):
    return (i, {"i": i})


def trace_run(start, probe_kw, take=None, close=True):
    """Run a pipeline, log pull/got events. Returns (trace, results, outcome)."""
    tr = Trace()
    probe = Probe(tr, make=make_value, **probe_kw)
    tr.log("build")
    results = []
    outcome = "exhausted"
    with contextlib.redirect_stdout(io.StringIO()):
        try:
            it = start(probe)
        except PullBudgetExceeded:
            # the whole (unbounded) input was read while the pipeline was being built
            tr.log("run-called")
            tr.log("closed")
            return tr, [], "budget"
        tr.log("run-called")
        try:
            k = 0
            while take is None or k < take:
                try:
                    v = next(it)
                except StopIteration:
                    tr.log("end")
                    break
                tr.log("got", k)
                results.append(gen.freeze(v))
                k += 1
            else:
                outcome = "stopped"
        except PullBudgetExceeded:
            outcome = "budget"
        finally:
            if close and hasattr(it, "close"):
                it.close()
            tr.log("closed")
    return tr, results, outcome


def pulls_before_each_got(tr):
    """List p[k] = number of pulls before the k-th got event; plus pulls before 'end'."""
    pulls = 0
    out = []
    end = None
    before_first_next = None
    for _, kind, payload in tr.events:
        if kind == "pull":
            pulls += 1
        elif kind == "run-called":
            before_first_next = pulls
        elif kind == "got":
            out.append(pulls)
        elif kind == "end":
            end = pulls
    return out, end, before_first_next, pulls


def run_case(r, obs):
    import lena.core
    import lena.flow
    k = r["k"]
    if k == "trace":
        try:
            _trace_case(r, obs)
        finally:
            _drop_case_dir()
        return
    _other_case(r, obs)


def _trace_case(r, obs):
    import lena.core
    import lena.flow
    if True:
        els_r, n = r["els"], r["n"]

        form = r.get("form", "seq")

        def real_start(probe, _els=els_r):
            if form == "source-reiterable":
                # the flow given to a Source as a lazy re-iterable object (not an iterator):
                # building the Source and calling it reads nothing
                return lena.core.Source(ReIterable(probe), *[build(e) for e in _els])()
            if form == "source-abc-sequence":
                # the flow given to a Source as a lazy collections.abc.Sequence
                return lena.core.Source(LazySequence(probe), *[build(e) for e in _els])()
            if form == "split-source":
                # the same Source as a branch of a Split (in a Sequence, run on an empty flow):
                # building them reads nothing, the Source's results are handed on one by one
                src = lena.core.Source(ReIterable(probe), *[build(e) for e in _els])
                if len(_els) % 2:
                    return lena.core.Sequence(lena.core.Split([src])).run(iter([]))
                return lena.core.Source(lena.core.Split([src]))()
            real, _ = build_pair(_els)
            if form == "seq-copy":
                # a deep copy of the pipeline (what SplitIntoBins / MapBins / Vectorize run):
                # same elements, same options, same laziness
                import copy
                real = copy.deepcopy(real)
            return real.run(probe)

        def ref_start(probe, _els=els_r):
            _, ref_els = build_pair(_els)
            f = iter(probe)
            for er, e in zip(_els, ref_els):
                f = ref_stream(er, e, f)
            return iter(f)
        kw = {"n": n}
        if r["inf"]:
            # reference on an unbounded flow with a generous budget; if even the ideal
            # pipeline does not finish, the case is about the prefix only
            kw = {"n": None, "budget": r.get("budget") or (700 if r.get("big") else 60)}
        cap = r.get("cap") or (350 if r.get("big") else 40)
        tr_ref, res_ref, out_ref = trace_run(ref_start, kw, take=cap)
        pr, end_r, _, total_ref = pulls_before_each_got(tr_ref)
        kw_real = dict(kw)
        if r["inf"]:
            kw_real["budget"] = kw["budget"]
        tr, res, out = trace_run(real_start, kw_real, take=cap)
        p, end, before, total = pulls_before_each_got(tr)
        obs.count("pull_events", total)
        obs.count("got_events", len(res))
        if len(els_r) >= 2 and res:
            obs.nontrivial = True
        sig = "els=%r n=%r inf=%s%s" % (els_r, n, r["inf"],
                                        "" if form == "seq" else " form=" + form)
        obs.check(before == 0, "work-before-demand",
                  "%d values pulled when run() was called, before the first next() (%s)"
                  % (before or 0, sig))
        # same values (sanity of the reference; value differences are C01's business but a
        # differing reference would make the pull comparison meaningless)
        m = min(len(res), len(res_ref))
        if res[:m] != res_ref[:m] or (out == out_ref == "exhausted" and len(res) != len(res_ref)):
            obs.fail("values-differ-from-lazy-reference",
                     "real %r vs reference %r (%s)" % (res[:8], res_ref[:8], sig))
            return
        for kk in range(m):
            obs.count("stop_points_checked")
            if p[kk] > pr[kk]:
                obs.fail("pulls-more-than-needed:" + _culprit(els_r),
                         "to deliver result %d the pipeline pulled %d input values, the lazy "
                         "reference %d (%s)" % (kk, p[kk], pr[kk], sig))
                break
        if out_ref == "exhausted" and out == "exhausted" and end is not None and end_r is not None:
            obs.count("stop_points_checked")
            obs.check(end <= end_r, "pulls-more-than-needed-at-end:" + _culprit(els_r),
                      "to finish the pipeline pulled %d values, the lazy reference %d (%s)"
                      % (end, end_r, sig))
        if r["inf"] and out_ref == "exhausted":
            # the ideal pipeline terminates on the infinite flow: so must the real one,
            # within the same number of pulls
            obs.count("infinite_flow_terminations")
            tr2, res2, out2 = trace_run(real_start, {"n": None, "budget": total_ref}, take=None)
            obs.check(out2 == "exhausted", "infinite-flow-not-terminated:" + _culprit(els_r),
                      "on an infinite flow the reference finishes after %d pulls, the pipeline "
                      "exceeded that budget (%s)" % (total_ref, sig))
        # two runs of the SAME pipeline object alive at once (stateless elements only): each
        # pulls from its own input what the reference needs for its own results
        if form == "seq" and not r["inf"] and _stateless(els_r) and res_ref:
            real2, _ = build_pair(els_r)
            trs = [Trace(), Trace()]
            probes = [Probe(trs[0], make=make_value, n=n), Probe(trs[1], make=make_value, n=n)]
            with contextlib.redirect_stdout(io.StringIO()):
                gens = [real2.run(probes[0]), real2.run(probes[1])]
                outs = [[], []]
                live = [True, True]
                turn = 0
                bad_pull = None
                try:
                    while any(live):
                        i = turn % 2
                        turn += 1
                        if live[i] and len(outs[i]) >= len(res_ref) and out_ref != "exhausted":
                            # the reference was read up to a cap: stop this run there too
                            getattr(gens[i], "close", lambda: None)()   # (a bare Probe has none)
                            live[i] = False
                        if not live[i]:
                            continue
                        try:
                            v = next(gens[i])
                        except StopIteration:
                            live[i] = False
                            continue
                        outs[i].append(gen.freeze(v))
                        kk = len(outs[i]) - 1
                        if kk < len(pr) and trs[i].count("pull") > pr[kk] and bad_pull is None:
                            bad_pull = (i, kk, trs[i].count("pull"), pr[kk])
                except Exception as e:  # pylint: disable=broad-except
                    outs = ["raised %r" % (e,), None]
            obs.count("stop_points_checked")
            first = [(j, a, b, c) for j, (a, b, c) in enumerate(zip(outs[0] or [], outs[1] or [],
                                                                    res_ref))
                     if not a == b == c][:1]
            obs.check(outs[0] == res_ref and outs[1] == res_ref,
                      "values-differ-from-lazy-reference:two-live-runs-of-one-pipeline",
                      "two runs of one pipeline object consumed alternately give %d and %d "
                      "results, the reference %d; first difference (index, run 1, run 2, "
                      "reference): %r (%s)"
                      % (len(outs[0] or []), len(outs[1] or []), len(res_ref), first, sig))
            obs.check(bad_pull is None, "pulls-more-than-needed:two-live-runs-of-one-pipeline",
                      "two runs of one pipeline object consumed alternately: run %r had pulled %r "
                      "values when it delivered its result %r, the reference needs %r (%s)"
                      % ((bad_pull or (0, 0, 0, 0))[0], (bad_pull or (0, 0, 0, 0))[2],
                         (bad_pull or (0, 0, 0, 0))[1], (bad_pull or (0, 0, 0, 0))[3], sig))
        # explicit consumer stops: take k, close; nothing is pulled afterwards
        for stop in r["stops"]:
            if stop > len(res):
                continue
            tr3, res3, out3 = trace_run(real_start, kw_real, take=stop)
            p3, _, _, total3 = pulls_before_each_got(tr3)
            obs.count("stop_points_checked")
            limit = pr[stop - 1] if stop and stop - 1 < len(pr) else 0
            obs.check(total3 <= (limit if stop else 0) or stop > len(pr),
                      "pulls-after-consumer-stopped:" + _culprit(els_r),
                      "consumer took %d results and stopped; pipeline pulled %d values in total, "
                      "the reference needs %d for those results (%s)" % (stop, total3, limit, sig))


def _other_case(r, obs):
    import lena.core
    import lena.flow
    k = r["k"]
    if k == "census":
        s, form, N = r["s"], r["form"], r["N"]
        obs.nontrivial = True
        args = {"stop": (None, -s), "start_stop": (2, -s), "neg_start": (-s, None),
                "neg_start_pos_stop": (-s, N + 5), "neg_neg": (-s - 2, -2),
                "step": (1, -s, 2)}[form]
        keep = max(abs(a) for a in args if a is not None and a < 0)
        tr = Trace()
        probe = Probe(tr, n=N, census=True)      # Tokens
        seq = lena.core.Sequence(lena.flow.Slice(*args))
        it = seq.run(probe)
        got = 0
        max_alive = 0
        first = None
        for v in it:
            if first is None:
                first = v.n
            got += 1
            del v
            a = tr.alive()
            max_alive = max(max_alive, a)
        for _, kind, payload in tr.events:
            if kind == "pull":
                obs.count("census_events")
                max_alive = max(max_alive, payload[1])
        ref = list(range(N))[slice(*args)]
        obs.check(got == len(ref) and (not ref or first == ref[0]), "negative-slice-wrong-values",
                  "Slice%r over %d tokens yielded %d values starting at %r, expected %d from %r"
                  % (args, N, got, first, len(ref), ref[:1]))
        bound = keep + 2
        obs.check(max_alive <= bound, "negative-slice-keeps-too-many-values-alive",
                  "Slice%r over %d tokens kept up to %d input values alive (documented: %d)"
                  % (args, N, max_alive, keep))
        if form in ("stop", "start_stop"):
            # exact lag: value j is delivered exactly when value j+|stop| (+start) was pulled
            tr2 = Trace()
            probe2 = Probe(tr2, n=60)
            it2 = lena.core.Sequence(lena.flow.Slice(*args)).run(probe2)
            pulls = 0
            j = 0
            start = args[0] or 0
            for v in it2:
                pulls = tr2.count("pull")
                obs.count("stop_points_checked")
                if pulls != start + j + s + 1:
                    obs.fail("negative-stop-lag-not-exact",
                             "Slice%r delivered its result %d after %d pulls, documented lag "
                             "requires exactly %d" % (args, j, pulls, start + j + s + 1))
                    break
                j += 1
    elif k == "splitblocks":
        b, nb, cb, n = r["bufsize"], r["branches"], r["copy_buf"], r["n"]
        obs.nontrivial = True
        tr = Trace()
        probe = Probe(tr, n=n, make=lambda i: i)
        branches = [(gen.Tag("b%d" % j),) for j in range(nb)]
        sp = lena.core.Split(branches, bufsize=b, copy_buf=cb)
        it = lena.core.Sequence(sp).run(probe)
        tr.log("run-called")
        pulled = 0
        delivered = collections.Counter()   # input value -> number of results delivered
        ok = True
        for v in it:
            # events since last got: pulls
            pulled = tr.count("pull")
            tag, x = v
            delivered[x] += 1
            obs.count("got_events")
            # all values of earlier blocks must be fully delivered before a later block is pulled
            block_of_x = x // b
            newest_block = (pulled - 1) // b
            if newest_block > block_of_x:
                obs.fail("split-pulls-next-block-before-delivering-previous",
                         "Split(bufsize=%d, %d branches): result for input %d (block %d) was "
                         "delivered after input %d of block %d had been pulled"
                         % (b, nb, x, block_of_x, pulled - 1, newest_block))
                ok = False
                break
            unprocessed = pulled - sum(1 for y in range(pulled) if delivered[y] == nb)
            obs.check(unprocessed <= b, "split-holds-more-than-bufsize-unprocessed",
                      "Split(bufsize=%d): %d pulled values not yet fully processed" % (b, unprocessed))
        obs.count("pull_events", tr.count("pull"))
        if ok:
            obs.check(all(delivered[y] == nb for y in range(n)), "split-loses-results",
                      "Split delivered %r" % (dict(delivered),))
    elif k == "fswork":
        import os
        import shutil
        import tempfile
        import lena.output
        import lena.structures
        from rv.monitors import audit
        obs.nontrivial = True
        d = tempfile.mkdtemp(prefix="rv_c02_fs_")
        try:
            which, n = r["which"], r["n"]
            vals = [("text %d" % i, {"output": {"filename": "f%d" % i}}) for i in range(n)]
            tr = Trace()
            probe = Probe(tr, n=n, make=lambda i: vals[i])
            if which.startswith("cache"):
                els = [lena.flow.Cache(os.path.join(d, "c.pkl"))]
            elif which == "write":
                els = [lena.output.Write(os.path.join(d, "out"), verbose=False)]
            else:
                hs = [(lena.structures.histogram([0, 1, 2], [i, i + 1]),
                       {"output": {"filename": "h%d" % i}}) for i in range(n)]
                probe = Probe(tr, n=n, make=lambda i: hs[i])
                els = [lena.output.ToCSV(), lena.output.Write(os.path.join(d, "out"),
                                                              verbose=False)]
            audit.start(prefix=d)
            try:
                if which == "cache-in-source":
                    src = lena.core.Source(ReIterable(probe), *els)
                    it = src()
                else:
                    it = lena.core.Sequence(*els).run(probe)
                log_at_run = audit.snapshot()
                listing_at_run = sorted(os.listdir(d))
                pulls_at_run = probe.i
                # the result is dropped without ever being iterated
                if hasattr(it, "close"):
                    it.close()
                del it
                listing_dropped = sorted(os.listdir(d))
                # a second run, consumed to the end
                tr2 = Trace()
                probe2 = Probe(tr2, n=n, make=probe.make)
                out = list(lena.core.Sequence(*els).run(probe2))
            finally:
                audit.stop()
            obs.count("fs_lazy_checks")
            events = [e for e in log_at_run if e[0] in ("open", "mkdir", "remove", "rename")
                      and (e[0] != "open" or audit.is_write_mode(e[2]))]
            obs.check(not events and not listing_at_run and pulls_at_run == 0,
                      "work-before-demand:file-system:" + which,
                      "%s: when run() / the Source was called (no value requested yet) %d values "
                      "had been pulled, file-system events %r, directory listing %r"
                      % (which, pulls_at_run, events, listing_at_run))
            obs.check(not listing_dropped, "work-before-demand:files-left-by-a-run-never-iterated:"
                      + which, "%s: a flow that was composed but never iterated left %r"
                      % (which, listing_dropped))
            obs.check(len(out) == n, "values-differ-from-lazy-reference",
                      "%s yielded %d values for %d" % (which, len(out), n))
        finally:
            shutil.rmtree(d, ignore_errors=True)
    elif k == "nowork":
        import lena.math
        import lena.structures
        obs.nontrivial = True
        which, via = r["which"], r["via"]
        mk = {
            "chunk2": lambda: lena.flow.RunningChunkBy(2),
            "chunk3list": lambda: lena.flow.RunningChunkBy(3, list, from_iterable=True),
            "reverse": lena.flow.Reverse, "end": lena.flow.End, "sum": lena.math.Sum,
            "negslice": lambda: lena.flow.Slice(-2, None), "count": lena.flow.Count,
            "frun-yor": lambda: lena.core.FillRequest(lena.core.Sequence(gen.func("id")),
                                                      bufsize=3, yield_on_remainder=True),
            "frun-in": lambda: lena.core.FillRequest(lena.core.Sequence(gen.func("id")),
                                                     bufsize=3, buffer_input=True),
            "frun-out": lambda: lena.core.FillRequest(lena.core.Sequence(gen.func("id")),
                                                      bufsize=3, buffer_output=True),
            "fr-fc": lambda: lena.core.FillRequest(lena.math.Sum(), bufsize=2, reset=True,
                                                   buffer_input=True),
            "zip": lambda: lena.flow.Zip([lena.flow.StoreFilled(), lena.flow.Count()]),
            "groupby": lena.flow.GroupBy, "storefilled": lena.flow.StoreFilled,
            "chain-seq": lambda: lena.core.Sequence(gen.func("inc"), lena.flow.RunningChunkBy(2)),
            "runif": lambda: lena.flow.RunIf(gen.pred("true"), lena.flow.RunningChunkBy(1)),
            "hist": lambda: lena.structures.Histogram([0, 5, 10]),
        }[which]
        tr = Trace()
        probe = Probe(tr, n=7, make=lambda i: i)
        if via == "sequence":
            it = lena.core.Sequence(mk()).run(probe)
        elif via == "nested":
            it = lena.core.Sequence(gen.func("id"), lena.core.Sequence(mk()),
                                    gen.func("id")).run(probe)
        else:
            it = lena.core.Source(ReIterable(probe), mk())()
        pulled = tr.count("pull")
        obs.count("stop_points_checked")
        obs.check(pulled == 0, "work-before-demand:" + which,
                  "%s in a %s: %d values had been pulled when run() / the Source was called, "
                  "before the first next()" % (which, via, pulled))
        got = list(it)
        obs.count("got_events", len(got))
        obs.count("pull_events", tr.count("pull"))
        obs.check(tr.count("pull") == 7, "values-differ-from-lazy-reference",
                  "%s: the flow of 7 values was pulled %d times" % (which, tr.count("pull")))
    elif k == "splitstop":
        import lena.math
        obs.nontrivial = True
        b, n = r["bufsize"], r["n"]
        tr = Trace()
        probe = Probe(tr, n=None, make=lambda i: i, budget=200)
        branches = [(lena.flow.Slice(n), lena.math.Sum(), gen.Tag("S"))]
        if r["others"]:
            branches.append((gen.Tag("P"),))
        it = lena.core.Sequence(lena.core.Split(branches, bufsize=b)).run(probe)
        want = None
        try:
            for v in it:
                if isinstance(v, tuple) and v and v[0] == "S":
                    want = v
                    break
        except PullBudgetExceeded:
            pass
        pulled = tr.count("pull")
        need = ((n + 1 + b - 1) // b) * b      # the block that holds value number n
        obs.count("stop_points_checked")
        obs.count("pull_events", pulled)
        obs.check(want == ("S", sum(range(n))), "values-differ-from-lazy-reference",
                  "Split([(Slice(%d), Sum())...], bufsize=%d) over 0, 1, 2, ...: the result of "
                  "the stopped branch is %r, expected %r" % (n, b, want, ("S", sum(range(n)))))
        obs.check(pulled <= need, "pulls-more-than-needed:split-stopped-fill-branch",
                  "Split([(Slice(%d), Sum())%s], bufsize=%d) over an infinite flow: the result of "
                  "the branch that stopped reading was delivered after %d pulls; the block in "
                  "which it stops ends at %d" % (n, ", per-value branch" if r["others"] else "",
                                                 b, pulled, need))
    elif k == "splitcall":
        obs.nontrivial = True
        kinds, lens, via = r["kinds"], r["lens"], r["via"]
        total = sum(x for x in lens if x is not None)

        def values_of(j, n):
            if n is None:
                return itertools.count(1000 * j)
            return iter([1000 * j + i for i in range(n)])

        class Opener(object):
            """First element of a Source: an ordinary callable returning an iterator (like
            functools.partial(open, name)).  Being called is logged."""

            def __init__(self, tr, j, n):
                self.tr, self.j, self.n = tr, j, n

            def __call__(self):
                self.tr.log("opened", self.j)
                return values_of(self.j, self.n)

        class IterOpener(object):
            """First element of a Source: an iterable whose __iter__ is not a generator
            function.  Being iterated is logged."""

            def __init__(self, tr, j, n):
                self.tr, self.j, self.n = tr, j, n

            def __iter__(self):
                self.tr.log("opened", self.j)
                return values_of(self.j, self.n)
        limit = total if None not in lens else 5
        for take in range(0, limit + 1):
            tr = Trace()
            srcs = [lena.core.Source((IterOpener if kd == "iter" else Opener)(tr, j, n),
                                     gen.func("id"))
                    for j, (kd, n) in enumerate(zip(kinds, lens))]
            sp = lena.core.Split(srcs)
            if via == "split":
                stream = sp()
            elif via == "source":
                stream = lena.core.Source(sp, gen.func("id"))()
            else:
                stream = lena.core.Source(sp, lena.flow.Slice(limit))()
            opened_early = tr.count("opened")
            got = list(itertools.islice(stream, take))
            opened = [e[2] for e in tr.events if e[1] == "opened"]
            # source j is needed for the results taken iff results before it are fewer than taken
            needed, off = [], 0
            for j, n in enumerate(lens):
                if off < take:
                    needed.append(j)
                if n is None:
                    break
                off += n
            obs.count("stop_points_checked")
            obs.count("got_events", len(got))
            obs.check(opened_early == 0, "work-before-demand:split-of-sources",
                      "Split of Sources %r (%s): %d of them were called when the flow was "
                      "created, before the first next()" % (kinds, via, opened_early))
            obs.check(sorted(opened) == needed,
                      "source-called-before-needed:split-of-sources",
                      "Split of Sources (kinds %r, lengths %r) used through %s: after the consumer "
                      "took %d result(s) the Sources %r had been called / iterated, needed were %r"
                      % (kinds, lens, via, take, opened, needed))
            if hasattr(stream, "close"):
                stream.close()
    elif k == "builtins":
        # the trace checker itself: an eager reference must be caught by the same oracle
        obs.nontrivial = True
        tr, res, out = trace_run(lambda probe: iter(list(probe)), {"n": 5}, take=2)
        p, end, before, total = pulls_before_each_got(tr)
        obs.check(before == 5 and total == 5, "self-test-probe-broken",
                  "eager list() over the probe: before=%r total=%r" % (before, total))
        tr, res, out = trace_run(lambda probe: map(lambda v: v, probe), {"n": 5}, take=2)
        p, end, before, total = pulls_before_each_got(tr)
        obs.check(before == 0 and total == 2, "self-test-probe-broken",
                  "lazy map over the probe: before=%r total=%r" % (before, total))


def _stateless(els_r):
    """No element of the pipeline keeps state between runs (Count counts on, a Cache stores)."""
    bad = ("count", "cache")
    # (a Split without copy_buf shares the value objects among its branches: what a result
    # shows then depends on when it is looked at, in every kind of run)
    return not any(k in repr(els_r) for k in ("'count'", "'cache'", ", False]"))


def _culprit(els_r):
    """Coarse, stable description of the element kinds involved (for the mech key)."""
    kinds = set()

    def walk(es):
        for e in es:
            kinds.add(e[0] if e[0] != "slice" else
                      ("negslice" if any(a is not None and a < 0 for a in e[1]) else "slice"))
            if e[0] == "seq":
                walk(e[1])
            elif e[0] == "runif":
                walk(e[2])
            elif e[0] == "split":
                for br in e[1]:
                    walk(br)
    walk(els_r)
    order = ["split", "negslice", "count", "runif", "slice", "filter", "cache"]
    for o in order:
        if o in kinds:
            return o
    return "per-value"


RULE += (' Pipelines also contain FillRequest(Sequence(...), bufsize, yield_on_remainder=True) as a streaming element (no buffer during run: results one by one, block after block).')
RULE += (' Pipelines also contain a Cache with no file yet (a pass-through that dumps), and are also '
         'run as the tail of a Source over a lazy re-iterable that is the only branch of a Split.')
RULE += (' Added: a Source over a lazy collections.abc.Sequence (every item access is a pull; nothing '
         'is read when the Source is built); a Split of Sources used as a source, whose Sources have '
         'ordinary callables / non-generator __iter__ as first elements: a later Source is called '
         'only when a value from it is needed.')
RULE += (' Added: FillRequest(run element, yield_on_remainder=True) also with buffer_input / '
         'buffer_output; a table of further lazy elements (RunningChunkBy, Reverse, accumulators '
         'through the Run adapter, FillRequest, Zip ...) for which nothing may be pulled before the '
         'first next(); a Split fill/compute branch that stops reading in front of an infinite flow.')
RULE += (' Added: two runs of one pipeline object (stateless elements, no Split sharing its '
         'buffer) alive at the same time over two probes and consumed alternately: each yields '
         'what the lazy reference yields and has pulled no more than it.')

RULE += (' Round 10: pipelines of up to 14 elements over flows of 17..300 values with block sizes, slice indices and branch counts in the tens; Splits with the default block size in flows of 1001..2300 values and endless ones.')
