"""C01 - Sequence and Source compute the left-to-right composition.

Oracle: the manual fold flow -> T(e1) -> ... -> T(en) where T applies the
element's own public method directly (run / map over __call__ / fill*;compute),
never going through Sequence, Source or Run.  Every arrangement of the same
element recipe (flat Sequence, every grouping into nested Sequences, Source with
the elements as tail, explicit Run adapters, flatten()) must reproduce it.
"""
import copy
import itertools

from rv import gen

ID = "C01"
LEVEL = "exploration"
RULE = ("seeded random element lists (0..6 elements over callables, Variable, Filter, "
        "Slice incl. negative, Count, RunIf, Reverse, End, Sum/Mean/StoreFilled/"
        "FillCompute(Count), nested Sequence, Split of per-value branches) x random flow "
        "(0..8 bare ints or (int, context) pairs); per program: all one-level groupings for "
        "n<=5, random deep nestings, Source/Run/flatten arrangements; plus an enumerated "
        "table of ill-typed arguments at every position. Non-trivial: >=2 elements of >=2 "
        "kinds and a non-empty flow (or a rejection case)")
ASSUMPTIONS = ["generated callables are total and pure",
               "each arrangement gets fresh element instances and a deep copy of the flow"]
ANCHORS = [("lena/core/sequence.py", 21, 77), ("lena/core/source.py", 15, 77),
           ("lena/core/adapters.py", 634, 720), ("lena/core/meta.py", 6, 49),
           ("lena/core/lena_sequence.py", 15, 48)]
MUST_REACH = ["lena/core/sequence.py:Sequence.run", "lena/core/source.py:Source.__call__",
              "lena/core/adapters.py:Run._call_run", "lena/core/adapters.py:Run._fc_run",
              "lena/core/meta.py:flatten"]
MIN_NONTRIVIAL = {"quick": 500, "thorough": 20000}
NPROG = {"quick": 2500, "thorough": 120000}
# programs beyond the small sizes: 7..24 elements, flows of 17..400 values, nesting up to 7
NBIG = {"quick": 120, "thorough": 6000}

LEVEL_TEXT = ("Seeded random exploration of element programs and flows; every arrangement of "
              "each program is executed on the real Sequence/Source/Run code and compared "
              "with a manual fold of the elements' own methods. Held on the K programs "
              "reported in the evidence; says nothing about user elements outside the "
              "vocabulary.")
LEVEL_NOTE = ("Trusts the elements' own run/fill/compute/__call__ methods (they are the "
              "reference); only the composition machinery (Sequence, Source, Run adapter, "
              "flatten) is under test.")
TECHNIQUE = "reference-model monitor (manual fold) over randomly generated programs x arrangements"

CALLS = ["inc", "dbl", "neg", "sq", "mod3", "add10", "half", "ctx:a", "ctx:b"]
PREDN = ["even", "odd", "pos", "lt5", "mod3"]


def rand_el(rng, depth=0, big=False):
    k = rng.choice(["call", "call", "var", "filter", "slice", "count", "runif", "reverse",
                    "acc", "acc", "seq", "split", "end", "seqsub"] if depth < 2 else
                   ["call", "var", "filter", "slice", "count"])
    if k == "call":
        return ["call", rng.choice(CALLS)]
    if k == "var":
        v = ["var", rng.choice("xyz"), rng.choice(["inc", "dbl", "neg", "half"])]
        if rng.random() < 0.2:
            # a variable's keyword attributes are data, whatever they are called
            v.append(rng.choice([{"run": "2019B"}, {"fill": 7}, {"compute": "c"},
                                 {"request": 0}, {"run": 0, "unit": "cm"}]))
        return v
    if k == "filter":
        return ["filter", rng.choice(PREDN)]
    if k == "slice":
        def idx():
            if big and rng.random() < 0.7:
                return rng.choice([7, 15, 16, 17, 31, 32, 33, 63, 64, 65, 100, 127, 128, 129,
                                   255, 256, 257, -7, -16, -17, -32, -33, -64, -65, -100,
                                   -128, -129, rng.randint(-300, 300)])
            return rng.choice([None, 0, 1, 2, 3, 5, -1, -2, -3])
        form = rng.randint(1, 3)
        if form == 1:
            return ["slice", [idx()]]
        if form == 2:
            return ["slice", [idx(), idx()]]
        return ["slice", [idx(), idx(), rng.choice([None, 1, 2, 3])]]
    if k == "count":
        return ["count", rng.choice(["cnt", "n2"])]
    if k == "runif":
        return ["runif", rng.choice(PREDN),
                [rand_el(rng, 2) for _ in range(rng.randint(0, 2))]]
    if k == "reverse":
        return ["reverse"]
    if k == "end":
        return ["end"] if rng.random() < 0.3 else ["call", "inc"]
    if k == "acc":
        return rng.choice([["sum"], ["mean"], ["store", 1], ["store", 0], ["fccount", "fc"],
                           ["dsum"]])
    if k == "seq":
        return ["seq", [rand_el(rng, depth + 1) for _ in range(rng.randint(0, 3))]]
    if k == "seqsub":
        if rng.random() < 0.6:
            return ["call", "dbl"]
        # a subclass of Sequence that overrides run (reverses / terminates its output)
        return ["seqsub", rng.choice(["rev", "term"]),
                [rand_el(rng, 2) for _ in range(rng.randint(0, 2))]]
    if k == "split":
        nb = rng.randint(0, 3)
        return ["split", [[rand_el(rng, 2) for _ in range(rng.randint(1, 2))]
                          for _ in range(nb)], rng.choice([1, 2, 3, 1000])]
    raise AssertionError(k)


def rand_el_kind(rng, kind, big=False):
    """A random element of the given kind (rejection sampling over rand_el)."""
    while True:
        e = rand_el(rng, 1, big=big)
        if e[0] == kind:
            return e


def cases(tier, seed):
    n = NPROG[tier]
    for i in range(n):
        rng = gen.rng_for(seed, "C01", i)
        ne = rng.choice([0, 1, 2, 2, 3, 3, 4, 4, 5, 6])
        els = [rand_el(rng) for _ in range(ne)]
        yield {"k": "prog", "els": els, "flow": gen.rand_flow(rng, 8),
               "nest_seed": rng.randint(0, 10 ** 9)}
    for i in range(NBIG[tier]):
        rng = gen.rng_for(seed, "C01big", i)
        shape = i % 3
        # shape 0: many elements; 1: a long flow; 2: both, moderately
        ne = (rng.randint(9, 24), rng.randint(1, 5), rng.randint(7, 12))[shape]
        nflow = (rng.randint(5, 20), rng.choice([17, 33, 64, 65, 100, 129, 257, 400,
                                                  rng.randint(17, 400)]),
                 rng.randint(17, 80))[shape]
        pool = ["call", "call", "call", "var", "filter", "slice", "count", "runif", "seq",
                "split", "acc"]
        els = []
        for _ in range(ne):
            kind = rng.choice(pool)
            if kind == "filter":
                # keep most of a long flow alive through many elements
                els.append(["filter", rng.choice(["pos", "lt5"])] if rng.random() < 0.3
                           else ["call", rng.choice(["inc", "add10", "ctx:a"])])
            elif kind == "acc":
                els.append(rng.choice([["sum"], ["store", 1], ["fccount", "fc"]])
                           if rng.random() < 0.3 else ["call", "inc"])
            elif kind == "call":
                els.append(["call", rng.choice(["inc", "add10", "neg", "ctx:a", "ctx:b", "mod3"])])
            elif kind == "slice":
                els.append(rand_el_kind(rng, "slice", big=True))
            elif kind == "seq":
                # a chain of nested sequences 4..7 deep around a few elements
                inner = [rand_el(rng, 2) for _ in range(rng.randint(1, 3))]
                for _d in range(rng.randint(4, 7)):
                    inner = [["seq", inner]] + ([["call", "inc"]] if rng.random() < 0.3 else [])
                els.extend(inner)
            elif kind == "split":
                nb = rng.randint(5, 12)
                els.append(["split", [[rand_el(rng, 2) for _ in range(rng.randint(1, 2))]
                                      for _ in range(nb)],
                            rng.choice([1, 3, 16, 17, 64, 1000])])
            else:
                els.append(rand_el(rng, 1, big=True))
        fl = []
        withctx = rng.random() < 0.4
        for j in range(nflow):
            x = rng.randint(-3, 9)
            fl.append([x, {"i": j}] if withctx else x)
        yield {"k": "prog", "els": els, "flow": fl, "nest_seed": rng.randint(0, 10 ** 9),
               "big": 1}
    # chains of hundreds of elements (well below what the interpreter's recursion limit allows
    # for a chain of generators: about 990 on the unchanged tree)
    for n in (150, 300, 460, 700, 900):
        for what in ("call", "mixed"):
            yield {"k": "longchain", "n": n, "what": what}
    # ill-typed arguments at every position (finite table, enumerated)
    bads = ["int", "str", "none", "onlyfill", "run_noncallable", "onlycompute", "dict",
            "fillrequest_only", "str_percent", "str_format", "list_percent", "dict_percent",
            "str_braces", "bytes", "float_nan", "fill_and_request", "compute_and_request",
            "fill_noncallable_compute", "noncallable_fill_compute",
            "fill_request_noncallable_run", "pages_iterable"]
    for bad in bads:
        for n_before in range(0, 3):
            for n_after in range(0, 3):
                for where in ["seq", "nested", "source_tail", "split_branch", "run_adapter",
                              "fcseq_after"]:
                    yield {"k": "bad", "bad": bad, "before": n_before, "after": n_after,
                           "where": where}
    for k in ["source_noargs", "source_first_int", "source_first_none", "seq_empty",
              "source_first_getitem_only", "source_first_noncallable_attrs"]:
        yield {"k": k}
    # arguments that are all elements without data (SetContext, StoreContext): a Sequence / Split
    # branch of them is the identity, the containers that need a data element reject them
    for form in ["Sequence", "nested", "split_tuple", "split_bare", "RunIf", "Source", "FillSeq",
                 "FillComputeSeq", "FillRequestSeq", "Source_then_flow"]:
        for nels in (1, 2):
            yield {"k": "only_nodata", "form": form, "n": nels}
    # user code that raises StopIteration for one value (next() on an exhausted iterator of
    # constants), and an accumulator that replaces its own fill method while being filled
    for what in ["callable_stopiteration", "fill_stopiteration", "fill_rebinds_itself"]:
        for arrangement in ["flat", "nested", "source_tail", "run_adapter", "after_callable"]:
            for at in (0, 1, 3):
                yield {"k": "user_code", "what": what, "arr": arrangement, "at": at}
    # a run-only element before a fill element cannot be converted (only callables can be
    # filled through): every container form must reject the arguments with LenaTypeError
    for fill_el in ["frseq", "fcseq", "fradapter", "sum", "nested_split_fc"]:
        for form in ["split_tuple", "fcseq_explicit", "frseq_explicit", "split_tuple_after_call"]:
            yield {"k": "bad_fill_branch", "el": fill_el, "form": form}


# ------------------------------------------------------------------ oracle
def T(el, flow):
    """Stream transformation of one element, by its own public method."""
    run = getattr(el, "run", None)
    if callable(run):
        return run(flow)
    if callable(el):
        return map(el, flow)
    return _fill_then_compute(el, flow)


def _fill_then_compute(el, flow):
    # a generator, like every other stream transformation: nothing is filled
    # before the first result is demanded
    for v in flow:
        el.fill(v)
    for x in el.compute():
        yield x


def outcome(thunk):
    try:
        return ["ok", gen.freeze(list(thunk()))]
    except Exception as e:  # pylint: disable=broad-except
        return ["exc", type(e).__name__]


def kinds(els):
    ks = set()
    for e in els:
        ks.add(e[0] if e[0] != "call" else "call")
    return ks


def groupings(n):
    """All compositions of range(n) into consecutive groups."""
    for mask in range(1 << max(0, n - 1)):
        groups, cur = [], [0]
        for i in range(1, n):
            if mask >> (i - 1) & 1:
                groups.append(cur)
                cur = [i]
            else:
                cur.append(i)
        if n:
            groups.append(cur)
        yield groups


def random_nest(rng, items, depth=0):
    """items: list of built elements -> list of args with random nested Sequences."""
    import lena.core
    if len(items) <= 1 and rng.random() < 0.6:
        out = list(items)
    else:
        out = []
        i = 0
        while i < len(items):
            j = rng.randint(i + 1, len(items))
            chunk = items[i:j]
            if depth < (7 if len(items) > 6 else 3) and rng.random() < 0.6:
                out.append(lena.core.Sequence(*random_nest(rng, chunk, depth + 1)))
            else:
                out.extend(chunk)
            i = j
    if rng.random() < 0.25:
        out.insert(rng.randint(0, len(out)), lena.core.Sequence())
    return out


class Pages(object):
    """A non-iterator iterable that happens to have attributes called like parts of other
    protocols (a linked page of results: ``next`` is the following page)."""

    def __init__(self, vals):
        self.vals = vals
        self.next = None
        self.send = None
        self.run = None
        self.fill = None

    def __iter__(self):
        return iter(self.vals)

    def __len__(self):
        return len(self.vals)


class _ListSource(object):
    """A picklable, deep-copyable callable that generates the flow anew on every call."""

    def __init__(self, vals):
        self.vals = vals

    def __call__(self):
        import copy
        return iter(copy.deepcopy(self.vals))


class Indexed(object):
    """Iterable by the sequence protocol only (no __iter__)."""

    def __init__(self, vals):
        self.vals = vals

    def __getitem__(self, i):
        return self.vals[i]

    def __len__(self):
        return len(self.vals)


class GenIterable(object):
    """Iterable whose __iter__ is a generator function."""

    def __init__(self, vals):
        self.vals = vals

    def __iter__(self):
        for v in self.vals:
            yield v


FLOW_KINDS = {"tuple": tuple, "pages": Pages, "indexed": Indexed, "geniterable": GenIterable,
              "deque": lambda vals: __import__("collections").deque(vals),
              "map": lambda vals: map(lambda v: v, vals),
              "dictvalues": lambda vals: dict(enumerate(vals)).values()}


class OnlyFill(object):
    def fill(self, v):
        pass


class FillAndRequest(object):
    """Callable fill and request, nothing else: an element for FillRequestSeq, not for a
    Sequence (which has no way to run it)."""

    def fill(self, v):
        pass

    def request(self):
        yield 1


class ComputeAndRequest(object):
    def compute(self):
        yield 1

    def request(self):
        yield 1


class FillNonCallableCompute(object):
    compute = 5

    def fill(self, v):
        pass


class NonCallableFillCompute(object):
    fill = 5

    def compute(self):
        yield 1


class FillRequestNonCallableRun(FillAndRequest):
    run = None


class RunNonCallable(object):
    run = 5


class OnlyCompute(object):
    def compute(self):
        yield 1


class RequestOnly(object):
    def request(self):
        yield 1


def make_bad(name):
    return {"int": 5, "str": "s", "none": None, "onlyfill": OnlyFill(),
            "run_noncallable": RunNonCallable(), "onlycompute": OnlyCompute(),
            "dict": {"a": 1}, "fillrequest_only": RequestOnly(),
            # arguments whose text contains formatting characters (they end up in the message)
            "str_percent": "50%", "str_format": "%s and %d", "list_percent": ["%"],
            "dict_percent": {"rate %": 0.5}, "str_braces": "{} {0} {name}",
            "bytes": b"%x", "float_nan": float("nan"),
            "fill_and_request": FillAndRequest(), "compute_and_request": ComputeAndRequest(),
            "fill_noncallable_compute": FillNonCallableCompute(),
            "noncallable_fill_compute": NonCallableFillCompute(),
            "fill_request_noncallable_run": FillRequestNonCallableRun(),
            "pages_iterable": Pages([1, 2]), "type_object_with_run": RunNonCallable}[name]


class _StarCall(object):
    def __init__(self, f):
        self._f = f

    def __call__(self, *values, **options):
        return self._f(*values)


class _Holder(object):
    def __init__(self, f):
        self._f = f

    def method(self, value, scale=1):
        return self._f(value)

    @staticmethod
    def _noop():
        return None


def _plain_callable(e):
    import types
    return (isinstance(e, (types.FunctionType, types.LambdaType)) or type(e) is gen.Fn) and \
        not any(hasattr(e, a) for a in ("run", "fill", "compute", "request", "fill_into"))


def _undecorated_wrapper(f):
    def wrapper(*args, **kwargs):
        return f(*args, **kwargs)
    return wrapper


CALLABLE_WRAPS = {
    "star-args-lambda": lambda f: (lambda *a: f(*a)),
    "star-args-object": _StarCall,
    "undecorated-wrapper": _undecorated_wrapper,
    "partial": lambda f: __import__("functools").partial(f),
    "bound-method-with-option": lambda f: _Holder(f).method,
    "keyword-default": lambda f: (lambda value, _f=f, _extra=None: _f(value)),
}


def run_case(r, obs):
    import lena.core
    import lena.flow
    import random
    k = r["k"]
    if k == "longchain":
        n = r["n"]
        obs.nontrivial = True

        def els():
            out = []
            for i in range(n):
                if r["what"] == "call" or i % 3:
                    out.append(gen.func("inc"))
                elif i % 2:
                    out.append(lena.flow.Filter(gen.pred("true")))
                else:
                    out.append(lena.core.Sequence(gen.func("inc")))
            return out
        xs = [1, 5, (2, {"a": 1})]

        def ref():
            f = iter(list(xs))
            for el in els():
                f = T(el, f)
            return f
        expected = outcome(ref)
        for name, thunk in (
                ("flat", lambda: lena.core.Sequence(*els()).run(iter(list(xs)))),
                ("halves", lambda: (lambda e: lena.core.Sequence(
                    lena.core.Sequence(*e[:n // 2]), lena.core.Sequence(*e[n // 2:])
                ).run(iter(list(xs))))(els())),
                ("blocks-of-7", lambda: (lambda e: lena.core.Sequence(
                    *[lena.core.Sequence(*e[i:i + 7]) for i in range(0, n, 7)]
                ).run(iter(list(xs))))(els())),
                ("source-tail", lambda: lena.core.Source(list(xs), *els())())):
            got = outcome(thunk)
            obs.count("arrangements")
            obs.check(got == expected, "arrangement-differs:long-chain:" + name,
                      "a chain of %d elements (%s) as %s gives %r, the manual fold %r"
                      % (n, r["what"], name, got, expected))
        return
    if k == "prog":
        els_r, flow_r = r["els"], r["flow"]

        def fresh():
            return [gen.build(e) for e in els_r]

        def flow():
            return gen.build_flow(flow_r)

        def ref():
            f = iter(flow())
            for el in fresh():
                f = T(el, f)
            return f
        expected = outcome(ref)
        obs.count("programs")
        if len(els_r) >= 2 and len(kinds(els_r)) >= 2 and flow_r:
            obs.nontrivial = True
        if expected[0] == "exc":
            obs.count("reference_raised")

        def compare(name, thunk):
            got = outcome(thunk)
            obs.count("arrangements")
            obs.check(got == expected, "arrangement-differs:" + name.split("#")[0],
                      "%s gives %r, manual fold gives %r (els=%r flow=%r)"
                      % (name, got, expected, els_r, flow_r))

        compare("flat-sequence", lambda: lena.core.Sequence(*fresh()).run(iter(flow())))
        compare("flat-sequence-list-flow", lambda: lena.core.Sequence(*fresh()).run(flow()))
        # the flow in other containers: every iterable is a flow, whatever else it has
        for fk in sorted(FLOW_KINDS):
            mk = FLOW_KINDS[fk]
            compare("flow-kind#" + fk, lambda mk=mk: lena.core.Sequence(*fresh()).run(mk(flow())))
            compare("nested-flow-kind#" + fk, lambda mk=mk: lena.core.Sequence(
                lena.core.Sequence(), lena.core.Sequence(*fresh())).run(mk(flow())))
            if fk != "indexed":
                compare("source-flow-kind#" + fk,
                        lambda mk=mk: lena.core.Source(mk(flow()), *fresh())())
        # explicit Run adapters around non-run elements
        compare("explicit-run-adapters", lambda: lena.core.Sequence(
            *[e if hasattr(e, "run") else lena.core.Run(e) for e in fresh()]).run(iter(flow())))
        # plain callables given in other callable forms: a callable is whatever can be called
        # with one value
        for wk in sorted(CALLABLE_WRAPS):
            wrap = CALLABLE_WRAPS[wk]
            compare("callable-kind#" + wk, lambda wrap=wrap: lena.core.Sequence(
                *[wrap(e) if _plain_callable(e) else e for e in fresh()]).run(iter(flow())))
        n = len(els_r)
        if n <= 5:
            for gi, groups in enumerate(groupings(n)):
                def thunk(groups=groups):
                    els = fresh()
                    args = []
                    for g in groups:
                        if len(g) == 1 and (sum(g) + len(groups)) % 2:
                            args.append(els[g[0]])
                        else:
                            args.append(lena.core.Sequence(*[els[i] for i in g]))
                    return lena.core.Sequence(*args).run(iter(flow()))
                compare("grouping#%d" % gi, thunk)
        rng = random.Random(r["nest_seed"])
        for ni in range(4):
            s = rng.randint(0, 10 ** 9)

            def thunk(s=s):
                args = random_nest(random.Random(s), fresh())
                return lena.core.Sequence(*args).run(iter(flow()))
            compare("random-nesting#%d" % ni, thunk)

            def thunk_src(s=s):
                args = random_nest(random.Random(s), fresh())
                return lena.core.Source(flow(), *args)()
            compare("source-random-nesting#%d" % ni, thunk_src)
        # Source arrangements
        compare("source-iterable", lambda: lena.core.Source(flow(), *fresh())())
        compare("source-callable", lambda: lena.core.Source(lambda: iter(flow()), *fresh())())
        compare("source-genfunc",
                lambda: lena.core.Source(lambda: (x for x in flow()), *fresh())())
        compare("source-sequence-tail",
                lambda: lena.core.Source(flow(), lena.core.Sequence(*fresh()))())
        compare("source-chain",
                lambda: lena.core.Source(lena.flow.Chain(flow()), *fresh())())
        if n >= 1:
            compare("source-split-tail", lambda: (lambda e: lena.core.Source(
                flow(), e[0], lena.core.Sequence(*e[1:]))())(fresh()))
        # the same Source object generates the flow again on every call
        def ref_twice():
            vals, els = flow(), fresh()
            res = []
            for _ in range(2):
                f = iter(vals)
                for el in els:
                    f = T(el, f)
                res.append(gen.freeze(list(f)))
            return res

        def src_twice(first_kind):
            vals, els = flow(), fresh()
            first = vals if first_kind == "list" else (lambda: iter(vals))
            src = lena.core.Source(first, *els)
            return [gen.freeze(list(src())), gen.freeze(list(src()))]
        exp2 = outcome(ref_twice)
        for fk in ("list", "callable"):
            got2 = outcome(lambda: src_twice(fk))
            obs.count("arrangements")
            obs.check(got2 == exp2, "source-called-twice-differs:" + fk,
                      "Source(%s, e1..en) called twice gives %r, manual fold applied twice to the "
                      "same elements gives %r (els=%r flow=%r)" % (fk, got2, exp2, els_r, flow_r))
        if not any(e[0] in ("sum", "dsum", "mean", "store", "fccount") for e in els_r) \
                and "'sum'" not in repr(els_r) and "'store'" not in repr(els_r) \
                and "'mean'" not in repr(els_r) and "'dsum'" not in repr(els_r) \
                and "'fccount'" not in repr(els_r):
            # two live flows of one Source consumed interleaved (lazy elements only)
            def interleave(make_two):
                g1, g2 = make_two()
                out = [[], []]
                live = [g1, g2]
                turn = 0
                while any(g is not None for g in live):
                    i = turn % 2
                    turn += 1
                    if live[i] is None:
                        continue
                    try:
                        out[i].append(gen.freeze(next(live[i])))
                    except StopIteration:
                        live[i] = None
                return out

            def ref_two():
                vals, els = flow(), fresh()
                gs = []
                for _ in range(2):
                    f = iter(vals)
                    for el in els:
                        f = T(el, f)
                    gs.append(iter(f))
                return gs

            def src_two():
                vals, els = flow(), fresh()
                src = lena.core.Source(vals, *els)
                return [src(), src()]
            exp3 = outcome(lambda: interleave(ref_two))
            got3 = outcome(lambda: interleave(src_two))
            obs.count("arrangements")
            obs.check(got3 == exp3, "source-interleaved-flows-differ",
                      "two live flows of one Source(list, e1..en) give %r, manual folds give %r "
                      "(els=%r flow=%r)" % (got3, exp3, els_r, flow_r))
        # a history with copies: run, copy the container, run the copy, run the original again,
        # run the copy again - the copy is a sequence of copies of the elements (what
        # SplitIntoBins / MapBins / Vectorize do with the sequences they are given)
        import copy as _copy
        import pickle as _pickle
        if not r.get("big") or len(flow_r) <= 40:
            def ref_hist(cp):
                vals, els = flow(), fresh()

                def fold(es):
                    f = iter(_copy.deepcopy(vals))
                    for el in es:
                        f = T(el, f)
                    return gen.freeze(list(f))
                res = [fold(els)]
                els2 = cp(els)
                res.append(fold(els2))
                res.append(fold(els))
                res.append(fold(els2))
                return res

            def real_hist(cp, mk):
                vals = flow()
                s1 = mk(fresh())
                runit = (lambda s: gen.freeze(list(s.run(iter(_copy.deepcopy(vals)))))) \
                    if mk is not _mk_source else \
                    (lambda s: gen.freeze(list(s())))
                res = [runit(s1)]
                s2 = cp(s1)
                res.append(runit(s2))
                res.append(runit(s1))
                res.append(runit(s2))
                return res

            def _mk_seq(es):
                return lena.core.Sequence(*es)

            def _mk_nested(es):
                return lena.core.Sequence(*random_nest(random.Random(r["nest_seed"]), es))

            def _mk_source(es):
                return lena.core.Source(_ListSource(flow()), *es)
            for cpname, cp in (("deepcopy", _copy.deepcopy),
                               ("pickle", lambda o: _pickle.loads(_pickle.dumps(o)))):
                exp_h = outcome(lambda: ref_hist(cp))
                if exp_h[0] == "exc":
                    continue        # the elements themselves cannot be copied this way
                for mkname, mk in (("sequence", _mk_seq), ("nested", _mk_nested),
                                   ("source", _mk_source)):
                    got_h = outcome(lambda: real_hist(cp, mk))
                    obs.count("arrangements")
                    obs.count("copy_histories")
                    obs.check(got_h == exp_h, "copy-history-differs:%s:%s" % (cpname, mkname),
                              "run, %s, run the copy, run the original, run the copy of a %s gives "
                              "%r; the same history on the elements and their copies gives %r "
                              "(els=%r flow=%r)" % (cpname, mkname, got_h, exp_h, els_r, flow_r))
        if "'seqsub'" in repr(els_r):
            # flatten() documents that it dissolves every LenaSequence; a subclass with its own
            # run is not something the flattened arrangement can preserve
            return
        # flatten keeps element identity and order
        els = fresh()
        nested = lena.core.Sequence(*random_nest(random.Random(r["nest_seed"]), els))
        flat = lena.core.flatten(nested)
        flat_l = list(flat)

        def leaves(seq):
            for el in seq:
                if isinstance(el, lena.core.LenaSequence):
                    for x in leaves(el):
                        yield x
                else:
                    yield el
        exp_l = list(leaves(nested))
        obs.check(len(flat_l) == len(exp_l) and all(a is b for a, b in zip(flat_l, exp_l)),
                  "flatten-order", "flatten(%r) = %r, expected leaves in order %r"
                  % (nested, flat_l, exp_l))
        obs.check(lena.core.alter_sequence(nested) is nested or
                  lena.core.alter_sequence(nested) == nested, "alter-sequence-changed",
                  "alter_sequence changed a sequence without alterable elements")
        compare("flattened", lambda: lena.core.Sequence(*lena.core.flatten(
            lena.core.Sequence(*random_nest(random.Random(r["nest_seed"]), fresh())))
        ).run(iter(flow())))
    elif k == "bad":
        obs.nontrivial = True
        bad = make_bad(r["bad"])
        if r["where"] == "split_branch" and \
                r["bad"] in ("fill_and_request", "fill_request_noncallable_run"):
            # a branch with one fill/request element among callables is a FillRequestSeq: well typed
            obs.count("bad_cases_skipped_as_well_typed")
            return
        before = [gen.func("inc") for _ in range(r["before"])]
        after = [gen.func("dbl") for _ in range(r["after"])]
        args = before + [bad] + after
        where = r["where"]
        try:
            if where == "seq":
                made = lena.core.Sequence(*args)
            elif where == "nested":
                made = lena.core.Sequence(gen.func("inc"), lena.core.Sequence(*args))
            elif where == "source_tail":
                made = lena.core.Source([1, 2, 3], *args)
            elif where == "split_branch":
                made = lena.core.Split([(gen.func("inc"),), tuple(args)])
            elif where == "run_adapter":
                made = lena.core.Run(bad)
            elif where == "fcseq_after":
                import lena.math
                made = lena.core.FillComputeSeq(lena.math.Sum(), *args)
            else:
                raise AssertionError(where)
        except lena.core.LenaTypeError:
            obs.count("rejected_at_construction")
        except Exception as e:  # pylint: disable=broad-except
            obs.fail("bad-argument-wrong-exception:" + where,
                     "ill-typed argument %r at %s raised %r instead of LenaTypeError"
                     % (r["bad"], where, e))
        else:
            # accepted at construction: then it must also *work* (never fail later)
            obs.count("accepted_at_construction")
            obs.fail("bad-argument-accepted:" + where,
                     "ill-typed argument %r at %s accepted at construction: %r"
                     % (r["bad"], where, type(made).__name__))
    elif k == "only_nodata":
        import lena.meta
        obs.nontrivial = True
        els = [lena.meta.SetContext("a", 1), lena.meta.StoreContext()][:r["n"]]
        form = r["form"]
        xs = [1, (2, {"c": 3})]
        identity = {"Sequence": lambda: lena.core.Sequence(*els).run(iter(xs)),
                    "nested": lambda: lena.core.Sequence(
                        lena.core.Sequence(*els), lena.core.Sequence()).run(iter(xs)),
                    "split_tuple": lambda: lena.core.Split([tuple(els)]).run(iter(xs)),
                    "split_bare": lambda: lena.core.Split([els[0]]).run(iter(xs)),
                    "RunIf": lambda: lena.flow.RunIf(lambda v: True, *els).run(iter(xs)),
                    "Source_then_flow": lambda: lena.core.Source(*(els + [xs]))()}
        rejecting = {"Source": lambda: lena.core.Source(*els),
                     "FillSeq": lambda: lena.core.FillSeq(*els),
                     "FillComputeSeq": lambda: lena.core.FillComputeSeq(*els),
                     "FillRequestSeq": lambda: lena.core.FillRequestSeq(
                         *els, bufsize=1, reset=False, buffer_input=True)}
        if form in identity:
            try:
                got = list(identity[form]())
            except Exception as e:  # pylint: disable=broad-except
                obs.fail("elements-without-data-not-identity:" + form,
                         "%s of only SetContext/StoreContext elements raised %r" % (form, e))
            else:
                obs.check(len(got) == len(xs) and all(a is b for a, b in zip(got, xs)),
                          "elements-without-data-not-identity:" + form,
                          "%s of only SetContext/StoreContext elements on %r gives %r"
                          % (form, xs, got))
        else:
            try:
                made = rejecting[form]()
            except lena.core.LenaTypeError:
                obs.count("rejected_at_construction")
            except Exception as e:  # pylint: disable=broad-except
                obs.fail("bad-argument-wrong-exception:only-elements-without-data:" + form,
                         "%s(%s) raised %r instead of LenaTypeError"
                         % (form, ", ".join(type(e_).__name__ for e_ in els), e))
            else:
                obs.fail("bad-argument-accepted:only-elements-without-data:" + form,
                         "%s of only elements without data accepted: %s"
                         % (form, type(made).__name__))
    elif k == "user_code":
        obs.nontrivial = True
        what, arr, at = r["what"], r["arr"], r["at"]
        xs = [5, 3, 8, 1, 9]

        class Consts(object):
            """Callable that takes the next constant from an iterator for every value."""

            def __init__(self, n):
                self.it = iter(range(n))

            def __call__(self, v):
                return v + 100 * next(self.it)

        class FillStops(object):
            def __init__(self, n):
                self.it = iter(range(n))
                self.got = []

            def fill(self, v):
                next(self.it)
                self.got.append(v)

            def compute(self):
                yield list(self.got)

        class RunningMax(object):
            """Lazy initialisation: the first fill installs the real fill method."""

            def __init__(self):
                self.max = None

            def fill(self, v):
                self.max = v
                self.fill = self._fill_later

            def _fill_later(self, v):
                if v > self.max:
                    self.max = v

            def compute(self):
                yield self.max
        mk = {"callable_stopiteration": lambda: Consts(at),
              "fill_stopiteration": lambda: FillStops(at),
              "fill_rebinds_itself": RunningMax}[what]
        el = mk()
        if arr == "flat":
            thunk = lambda: lena.core.Sequence(el).run(iter(xs))
        elif arr == "nested":
            thunk = lambda: lena.core.Sequence(lena.core.Sequence(), lena.core.Sequence(el)).run(xs)
        elif arr == "source_tail":
            thunk = lambda: lena.core.Source(list(xs), el)()
        elif arr == "run_adapter":
            thunk = lambda: lena.core.Run(el).run(iter(xs))
        else:
            thunk = lambda: lena.core.Sequence(gen.func("id"), el, gen.func("id")).run(iter(xs))
        try:
            got = ["ok", list(thunk())]
        except Exception as e:  # pylint: disable=broad-except
            got = ["exc", type(e).__name__]
        obs.count("arrangements")
        if what == "fill_rebinds_itself":
            obs.check(got == ["ok", [max(xs)]], "arrangement-differs:accumulator-that-rebinds-fill",
                      "%s with an accumulator whose first fill() installs another fill method "
                      "gives %r on %r, filling it value by value gives %r"
                      % (arr, got, xs, [max(xs)]))
        else:
            # the user's code fails for value number *at*: that is an error of the run, the
            # results for the values before it must not be presented as the complete result
            obs.check(got[0] == "exc", "user-exception-ends-the-flow-silently:" + what,
                      "%s: the user's %s raises StopIteration for value no. %d of %r; the run "
                      "returned %r as if the flow had ended there"
                      % (arr, "callable" if what.startswith("callable") else "fill method", at,
                         xs, got))
    elif k == "bad_fill_branch":
        import lena.math
        obs.nontrivial = True

        def fr():
            return lena.core.FillRequest(lena.flow.StoreFilled(), bufsize=2, reset=True,
                                         buffer_input=True)
        fill_el = {"frseq": lambda: lena.core.FillRequestSeq(fr(), bufsize=1, reset=False,
                                                             buffer_input=True),
                   "fcseq": lambda: lena.core.FillComputeSeq(lena.math.Sum()),
                   "fradapter": fr, "sum": lena.math.Sum,
                   "nested_split_fc": lambda: lena.core.Split([lena.math.Sum(),
                                                               lena.math.Sum()])}[r["el"]]()
        run_only = lena.flow.Reverse()
        form = r["form"]
        try:
            if form == "split_tuple":
                made = lena.core.Split([(run_only, fill_el)])
            elif form == "split_tuple_after_call":
                made = lena.core.Split([(gen.func("inc"),), (gen.func("inc"), run_only, fill_el)])
            elif form == "fcseq_explicit":
                made = lena.core.FillComputeSeq(run_only, fill_el)
            else:
                made = lena.core.FillRequestSeq(run_only, fill_el, bufsize=1, reset=False,
                                                buffer_input=True)
        except lena.core.LenaTypeError:
            obs.count("rejected_at_construction")
        except Exception as e:  # pylint: disable=broad-except
            obs.fail("bad-argument-wrong-exception:run-only-element-before-" + r["el"],
                     "a run-only element before a %s (%s) raised %r instead of LenaTypeError"
                     % (r["el"], form, e))
        else:
            obs.fail("bad-argument-accepted:run-only-element-before-" + r["el"],
                     "a run-only element before a %s (%s) was accepted: %s"
                     % (r["el"], form, type(made).__name__))
    elif k == "source_noargs":
        obs.nontrivial = True
        try:
            lena.core.Source()
        except lena.core.LenaTypeError:
            obs.count("rejected_at_construction")
        except Exception as e:  # pylint: disable=broad-except
            obs.fail("source-noargs", "Source() raised %r" % (e,))
        else:
            obs.fail("source-noargs", "Source() accepted")
    elif k in ("source_first_int", "source_first_none"):
        obs.nontrivial = True
        first = 5 if k == "source_first_int" else None
        try:
            lena.core.Source(first, gen.func("inc"))
        except lena.core.LenaTypeError:
            obs.count("rejected_at_construction")
        except Exception as e:  # pylint: disable=broad-except
            obs.fail("source-first-wrong-exception", "Source(%r, f) raised %r" % (first, e))
        else:
            obs.fail("source-first-accepted", "Source(%r, f) accepted" % (first,))
    elif k in ("source_first_getitem_only", "source_first_noncallable_attrs"):
        # a first element of a Source is either rejected when the Source is built, or the Source
        # built from it works: never accepted and failing when called
        obs.nontrivial = True
        if k == "source_first_getitem_only":
            first, items = Indexed([4, 5, 6]), [4, 5, 6]
        else:
            first, items = Pages([4, 5]), [4, 5]
        for tail in ([], [gen.func("id")]):
            try:
                import warnings
                with warnings.catch_warnings():
                    warnings.simplefilter("ignore")
                    src = lena.core.Source(first, *tail)
            except lena.core.LenaTypeError:
                obs.count("rejected_at_construction")
                continue
            except Exception as e:  # pylint: disable=broad-except
                obs.fail("source-first-wrong-exception", "Source(%s) raised %r"
                         % (type(first).__name__, e))
                continue
            try:
                got = list(src())
            except Exception as e:  # pylint: disable=broad-except
                obs.fail("bad-argument-accepted:source-first-fails-when-called",
                         "Source(<%s object>%s) was accepted when built and raised %r when called"
                         % (type(first).__name__, ", f" if tail else "", e))
                continue
            obs.check(got == items, "arrangement-differs:source-first-element",
                      "Source(<%s of %r>)() = %r" % (type(first).__name__, items, got))
    elif k == "seq_empty":
        obs.nontrivial = True
        for n in range(0, 6):
            xs = [(i, {"i": i}) if i % 2 else i for i in range(n)]
            got = list(lena.core.Sequence().run(iter(xs)))
            obs.check(len(got) == len(xs) and all(a is b for a, b in zip(got, xs)),
                      "empty-sequence-not-identity", "Sequence().run(%r) = %r" % (xs, got))
            got = list(lena.core.Sequence().run(xs))
            obs.check(len(got) == len(xs) and all(a is b for a, b in zip(got, xs)),
                      "empty-sequence-not-identity", "Sequence().run(list %r) = %r" % (xs, got))
            got = list(lena.core.Sequence(lena.core.Sequence(), lena.core.Sequence(
                lena.core.Sequence())).run(xs))
            obs.check(got == xs, "empty-sequence-not-identity", "nested empty sequences")
            # the result is a stream whatever the container of the flow was: taken with next()
            for fk in sorted(FLOW_KINDS):
                for seq in (lena.core.Sequence(), lena.core.Sequence(lena.core.Sequence())):
                    res = seq.run(FLOW_KINDS[fk](list(xs)))
                    got = []
                    try:
                        while True:
                            try:
                                got.append(next(res))
                            except StopIteration:
                                break
                    except Exception as e:  # pylint: disable=broad-except
                        obs.fail("empty-sequence-not-identity:" + fk,
                                 "next() on %r.run(%s of %r) raised %r" % (seq, fk, xs, e))
                        continue
                    obs.check(len(got) == len(xs) and all(a is b for a, b in zip(got, xs)),
                              "empty-sequence-not-identity:" + fk,
                              "%r.run(%s of %r) taken with next() gives %r" % (seq, fk, xs, got))


RULE += (' Elements also include user subclasses of Sequence that override run (reversing / terminating their output).')
RULE += (' Flows are also given as tuples, deques, map objects, dict views and user iterables '
         '(one with attributes named next/send/run/fill, one with __getitem__ only, one whose '
         '__iter__ is a generator function); ill-typed arguments include every partial mix of '
         'fill/compute/request/run attributes that is not an element.')
RULE += (' Added: user callables / fill methods that raise StopIteration for one value (the run '
         'must fail, not end silently) and an accumulator that rebinds its own fill method.')
RULE += (' Added: every plain callable of a chain also given as a *args lambda, an object whose '
         '__call__ takes *values, an undecorated wrapper, a functools.partial, a bound method with '
         'an optional argument, a lambda with keyword defaults.')

RULE += (' Round 10: programs of 7..24 elements / flows of 17..400 values / nesting to depth 7 / Splits of 5..12 branches; chains of 150..900 elements; run-copy-run histories (deepcopy, pickle) of Sequence / nested / Source; variables with attributes named run / fill / compute / request.')
