"""C18 - Cache replays exactly the stored flow and never serves a truncated one.

Fault enumeration: the first run is interrupted at every point (consumer stops
after k values; the upstream iterator raises at pull k; a downstream element
raises at value k), then later runs are executed on instrumented pipelines.
Monitors: Probe iterator (pull counts), call counters in upstream / middle /
downstream elements, audit-hook log of the cache files opened, snapshots of
every value at the moment the consumer receives it.
"""
import copy
import os
import shutil
import tempfile

from rv import gen
from rv.monitors import audit
from rv.monitors.probe import Probe, Trace, InjectedFault, InjectedInterrupt

ID = "C18"
LEVEL = "fault_enumeration"
RULE = ("enumerated: pipeline shape (Sequence, Source, two Caches, accumulator upstream, "
        "single-block Split, shared-mutable upstream) x flow length 0..N (N=4 quick, 7 thorough) "
        "x values with/without context x first-run crash point (none; consumer stops after "
        "k=0..n; upstream raises at pull k; downstream raises at value k) x later-run history "
        "(run, recompute, drop, hoist by Cache.alter_sequence / core.alter_sequence, drop second "
        "cache). Every later run uses a flow offset by 1000*j so replay and recomputation are "
        "distinguishable. Non-trivial: flow non-empty")
ASSUMPTIONS = ["values are picklable ints / (int, context) pairs / lists",
               "a Cache inside a Split Sequence-branch is only driven with a single block "
               "(Split.run documents that a Sequence branch sees each block as a whole flow)",
               "after a consumer took all n values without exhausting the generator, serving "
               "those n values later is accepted (they are the complete flow)"]
ANCHORS = [("lena/flow/cache.py", 107, 225), ("lena/core/meta.py", 6, 28)]
MUST_REACH = ["lena/flow/cache.py:Cache._dump_flow_and_yield", "lena/flow/cache.py:Cache._load_flow",
              "lena/flow/cache.py:Cache.alter_sequence", "lena/flow/cache.py:Cache.drop_cache",
              "lena/core/meta.py:alter_sequence"]
MUST_COUNT = ["replay_runs_checked", "interrupted_first_runs", "pulls_observed"]
MIN_NONTRIVIAL = {"quick": 500, "thorough": 3000}
EXHAUSTIVE = {"quick": True, "thorough": True}
NMAX = {"quick": 4, "thorough": 10}

LEVEL_TEXT = ("Every crash point of the first run (consumer stop, upstream fault, downstream fault "
              "at each k) for every flow length up to the bound, pipeline shape and later-run "
              "history is executed on the real Cache with instrumented upstream; oracles: replay "
              "= stored flow with zero pulls / zero upstream calls / no write-open, recompute and "
              "drop restore first-run behaviour, no truncated prefix is ever replayed.")
LEVEL_NOTE = ("Crash = Python-level interruption (generator abandoned/closed, exception); a "
              "process kill in the middle of a pickle write is not simulated. Trusts pickle and "
              "the audit hook.")
TECHNIQUE = "fault enumeration at every crash point + pull/call counters + audit log of file opens"

SHAPES = ["seq", "source", "two", "acc", "split", "split2", "grow", "first", "last", "adjacent",
          "bare", "splitbare", "tmpl", "filt"]
LATERS = [["run", "run"], ["run", "recompute", "run"], ["drop", "run"], ["hoist", "run"],
          ["recompute", "hoist_recompute", "run"], ["drop2", "run"]]


TWO_ORDERS = ("close1-mid2", "finish2-close1", "finish2-drop1", "finish2-finish1",
              "finish1-finish2")


def cases(tier, seed):
    nmax = NMAX[tier]
    # two first runs through one Cache element alive at the same time
    for n in range(1, min(nmax, 4) + 1):
        for ctx in (False, True):
            for k in range(0, n):
                for order in TWO_ORDERS:
                    for where in ("seq", "bare"):
                        yield {"k": "tworuns", "n": n, "ctx": ctx, "take": k, "order": order,
                               "where": where}
    # flows whose pickled form takes tens to hundreds of kilobytes (thousands of values)
    for shape in ("seq", "source", "last", "two", "tmpl"):
        for n, ctx in ((1500, True), (4000, True), (20000, False), (70000, False)):
            if tier == "quick" and n in (4000, 70000) and shape not in ("seq", "last"):
                continue
            for crash in (None, ["consumer", n // 2], ["upstream", n - 3]):
                for later in (LATERS[0], LATERS[1], LATERS[3]):
                    if crash is not None and later is not LATERS[0]:
                        continue
                    yield {"shape": shape, "n": n, "ctx": ctx, "crash": crash, "later": later,
                           "big": 1}
    for shape in SHAPES:
        for n in range(0, nmax + 1):
            for ctx in [False, True] + (["special"] if shape not in ("acc", "grow") and n >= 2
                                        else []):
                crashes = [None]
                n_out = 2 if shape == "acc" else n
                for k in range(0, n_out + 1):
                    crashes.append(["consumer", k])
                for k in range(0, n):
                    crashes.append(["upstream", k])
                for k in range(0, n_out):
                    if shape not in ("last", "bare", "splitbare"):
                        crashes.append(["downstream", k])
                # the same faults raised as a KeyboardInterrupt (not an Exception subclass)
                for k in range(0, n):
                    crashes.append(["upstream-interrupt", k])
                for k in range(0, n_out):
                    if shape not in ("last", "bare", "splitbare"):
                        crashes.append(["downstream-interrupt", k])
                if shape == "filt":
                    for k in range(0, n):
                        crashes.append(["selector-stopiteration", k])
                for crash in crashes:
                    for li, later in enumerate(LATERS):
                        if "drop2" in later and shape not in ("two", "adjacent"):
                            continue
                        yield {"shape": shape, "n": n, "ctx": ctx, "crash": crash,
                               "later": later}
                        if n in (2, 3) and ctx is not True and (crash is None or crash[1] == 1):
                            # the same with every pipeline deep-copied / pickled before it runs
                            for dup in ("deepcopy", "pickle"):
                                yield {"shape": shape, "n": n, "ctx": ctx, "crash": crash,
                                       "later": later, "dup": dup}


# ------------------------------------------------------------------ elements
class Counters(object):
    def __init__(self):
        self.up = 0
        self.mid = 0
        self.down = 0
        self.fills = 0
        self.computes = 0

    def __deepcopy__(self, memo):
        return self         # instrumentation is shared by a pipeline and its copies

    def __reduce__(self):
        # ... also by a pickle round trip made inside this process
        _COUNTERS[id(self)] = self
        return (_counters_by_id, (id(self),))


_COUNTERS = {}


def _counters_by_id(i):
    return _COUNTERS[i]


COPY_MODE = {"mode": None}


def _D(obj):
    """The pipeline object as it is, or (recipe flag "dup") a deep copy / a pickle round trip
    of it made just before the run: a copied Cache is a Cache with the same settings."""
    m = COPY_MODE["mode"]
    if m == "deepcopy":
        return copy.deepcopy(obj)
    if m == "pickle":
        import pickle
        try:
            return pickle.loads(pickle.dumps(obj))
        except Exception:  # pylint: disable=broad-except
            # instrumented elements / closures that cannot be pickled: deep copy instead
            return copy.deepcopy(obj)
    return obj


def _add(v, d):
    def plus(x):
        if isinstance(x, (int, float)) and not isinstance(x, bool):
            return x + d
        return x            # None, "", (), False pass as they are
    if gen.has_ctx(v):
        return (plus(v[0]), v[1])
    return plus(v)


class Up(object):
    def __init__(self, c):
        self.c = c

    def __call__(self, v):
        self.c.up += 1
        return _add(v, 100)


class Mid(object):
    def __init__(self, c):
        self.c = c

    def __call__(self, v):
        self.c.mid += 1
        return _add(v, 10000)


class Down(object):
    def __init__(self, c, raise_at=None, exc=InjectedFault):
        self.c = c
        self.raise_at = raise_at
        self.exc = exc

    def __call__(self, v):
        if self.raise_at is not None and self.c.down == self.raise_at:
            self.c.down += 1
            raise self.exc("downstream fault at value %d" % self.raise_at)
        self.c.down += 1
        if gen.has_ctx(v):
            return (("down", v[0]), v[1])
        return ("down", v)


class Acc(object):
    """fill/compute accumulator with instrumented fill/compute."""

    def __init__(self, c):
        self.c = c
        self.vals = []

    def fill(self, v):
        self.c.fills += 1
        self.vals.append(gen.data_of(v))

    def compute(self):
        self.c.computes += 1
        yield sum(self.vals)
        yield list(self.vals)


class Grow(object):
    """Run element yielding the SAME mutable object several times, changed in place."""

    def __init__(self, c):
        self.c = c

    def run(self, flow):
        acc = []
        shared_ctx = {"seen": 0}
        for v in flow:
            self.c.up += 1
            acc.append(gen.data_of(v))
            shared_ctx["seen"] += 1
            yield (acc, shared_ctx)


def make_flow(n, ctx, j):
    base = [1 + i + 1000 * j for i in range(n)]
    if ctx == "special":
        # bare values that are None or false between the numbers (picklable like any other)
        specials = [None, 0, False, "", (), 0.0]
        return [v if i % 2 == 0 else specials[(i // 2 + j) % len(specials)]
                for i, v in enumerate(base)]
    if ctx:
        return [(v, {"i": v, "nest": {"k": [v]}}) for v in base]
    return base


def ref_output(shape, flow):
    """What a complete, cache-less run yields (pure reference)."""
    vals = copy.deepcopy(flow)
    c = Counters()
    if shape in ("seq", "source", "split", "hoistseq", "tmpl", "filt"):
        out = [Down(c)(Up(c)(v)) for v in vals]
    elif shape == "split2":
        # only the branch holding the Cache; the other branch's outputs (current flow)
        # are stripped from what the consumer received before comparing
        out = [Down(c)(Up(c)(v)) for v in vals]
    elif shape == "two":
        out = [Down(c)(Mid(c)(Up(c)(v))) for v in vals]
    elif shape in ("bare", "splitbare"):
        out = list(vals)
    elif shape == "first":
        out = [Down(c)(v) for v in vals]
    elif shape == "last":
        out = [Up(c)(v) for v in vals]
    elif shape == "adjacent":
        out = [Down(c)(Up(c)(v)) for v in vals]
    elif shape == "acc":
        a = Acc(c)
        for v in vals:
            a.fill(v)
        out = [Down(c)(x) for x in a.compute()]
    elif shape == "grow":
        out = []
        acc = []
        for i, v in enumerate(vals):
            acc.append(gen.data_of(v))
            out.append(Down(c)((list(acc), {"seen": i + 1})))
    else:
        raise ValueError(shape)
    return [gen.freeze(x) for x in out]


def _poison(v):
    """In-place changes a hostile consumer makes to a value it has received."""
    if isinstance(v, tuple) and len(v) == 2 and isinstance(v[1], dict):
        ctx = v[1]
        ctx["poisoned-by-consumer"] = True
        for x in ctx.values():
            if isinstance(x, dict):
                x["poisoned-by-consumer"] = True
                for y in x.values():
                    if isinstance(y, list):
                        y.append("poison")
        v = v[0]
    if isinstance(v, list):
        v.append("poison")


class Pipeline(object):
    """One instrumented run of the shape. Fresh lena objects each time."""

    def __init__(self, shape, d, flow, recompute=False, fault_at=None, down_raise_at=None,
                 hoist=None, fault_exc=InjectedFault, sel_stop_at=None):
        import lena.core
        import lena.flow
        self.c = Counters()
        self.trace = Trace()
        self.shape = shape
        self.flow = copy.deepcopy(flow)
        self.b0_bad = None
        if shape in ("split", "split2", "splitbare"):
            hoist = None     # hoisting is Split's own business (it calls alter_sequence)
        vals = copy.deepcopy(flow)
        self.probe = Probe(self.trace, n=len(vals), make=lambda i: vals[i], fault_at=fault_at,
                           fault_exc=fault_exc)
        f1 = os.path.join(d, "c1.pkl")
        f2 = os.path.join(d, "c2.pkl")
        self.files = [f1, f2]
        c, probe = self.c, self.probe

        def C(filename, recompute=False):
            # the documented signature is Cache(filename, recompute=False, ...): the flag is
            # given by keyword in some shapes and as the second positional argument in others
            if shape in ("first", "last", "two", "bare", "source"):
                return lena.flow.Cache(filename, recompute)
            return lena.flow.Cache(filename, recompute=recompute)
        C.alter_sequence = lena.flow.Cache.alter_sequence
        down = Down(c, down_raise_at, fault_exc)
        self.hoisted_type = None
        if shape == "seq":
            seq = lena.core.Sequence(Up(c), C(f1, recompute=recompute), down)
            self.start = lambda: _D(seq).run(probe)
            self._seq = seq
        elif shape == "filt":
            # a Filter upstream of the Cache; its selector (user code) may fail with
            # StopIteration for one value: next() on an exhausted iterator of flags
            calls = [0]

            def selector(v):
                calls[0] += 1
                if sel_stop_at is not None and calls[0] == sel_stop_at + 1:
                    raise StopIteration("no flag for value no. %d" % sel_stop_at)
                return True
            seq = lena.core.Sequence(lena.flow.Filter(selector), Up(c),
                                     C(f1, recompute=recompute), down)
            self.start = lambda: _D(seq).run(probe)
            self._seq = seq
        elif shape == "tmpl":
            # the file name is a template formatted from the static context
            import lena.meta
            self.files = [os.path.join(d, "c_far_1.pkl"), f2]
            seq = lena.core.Sequence(lena.meta.SetContext("detector", {"name": "far", "id": 1}),
                                     Up(c), C(os.path.join(d, "c_{{detector.name}}_{{detector.id}}"
                                                              ".pkl"), recompute=recompute), down)
            self.start = lambda: _D(seq).run(probe)
            self._seq = seq
        elif shape == "source":
            src = lena.core.Source(lambda: probe, Up(c), C(f1, recompute=recompute), down)
            self.start = lambda: _D(src)()
            self._seq = lena.core.Sequence(Up(c), C(f1, recompute=recompute), down)
        elif shape == "two":
            seq = lena.core.Sequence(Up(c), C(f1, recompute=recompute), Mid(c),
                                     C(f2, recompute=recompute), down)
            self.start = lambda: _D(seq).run(probe)
            self._seq = seq
        elif shape == "first":
            seq = lena.core.Sequence(C(f1, recompute=recompute), down)
            self.start = lambda: _D(seq).run(probe)
            self._seq = seq
        elif shape == "last":
            seq = lena.core.Sequence(Up(c), C(f1, recompute=recompute))
            self.start = lambda: _D(seq).run(probe)
            self._seq = seq
        elif shape == "adjacent":
            seq = lena.core.Sequence(Up(c), C(f1, recompute=recompute),
                                     C(f2, recompute=recompute), down)
            self.start = lambda: _D(seq).run(probe)
            self._seq = seq
        elif shape == "acc":
            seq = lena.core.Sequence(Acc(c), C(f1, recompute=recompute), down)
            self.start = lambda: _D(seq).run(probe)
            self._seq = seq
        elif shape == "split":
            sp = lena.core.Split([(Up(c), C(f1, recompute=recompute), down)], bufsize=None)
            self.start = lambda: _D(sp).run(probe)
            self._seq = lena.core.Sequence(Up(c), C(f1, recompute=recompute), down)
        elif shape == "split2":
            sp = lena.core.Split([(gen.Tag("b0"),),
                                  (Up(c), C(f1, recompute=recompute), down)], bufsize=1000)
            self.start = lambda: _D(sp).run(probe)
            self._seq = lena.core.Sequence(Up(c), C(f1, recompute=recompute), down)
        elif shape == "bare":
            # the Cache alone (hoisting a single element: alter_sequence(cache))
            cache = C(f1, recompute=recompute)
            seq = lena.core.Sequence(cache)
            self.start = lambda: _D(seq).run(probe)
            self._seq = cache
        elif shape == "splitbare":
            # the Cache given bare as a branch of a Split
            sp = lena.core.Split([C(f1, recompute=recompute)], bufsize=None)
            self.start = lambda: _D(sp).run(probe)
            self._seq = C(f1, recompute=recompute)
        elif shape == "grow":
            seq = lena.core.Sequence(Grow(c), C(f1, recompute=recompute), down)
            self.start = lambda: _D(seq).run(probe)
            self._seq = seq
        else:
            raise ValueError(shape)
        if hoist is not None:
            seq = self._seq
            if hoist == "static":
                new = C.alter_sequence(seq)
            else:
                new = lena.core.alter_sequence(seq)
            self.hoisted_type = type(new).__name__
            if isinstance(new, lena.core.Source):
                self.start = lambda: _D(new)()
            else:
                self.start = lambda: _D(new).run(probe)

    def run(self, take=None):
        """Consume (at most *take*) values; returns (snapshots, exception or None).
        The consumer changes every received value in place before it asks for the next one
        (what is stored and replayed is the flow that passed, not what became of it later)."""
        got = []
        exc = None
        it = None
        poison = _poison if self.shape not in ("grow", "acc") else (lambda v: None)
        try:
            it = self.start()
            if take is None:
                for v in it:
                    got.append(gen.freeze(v))
                    poison(v)
            else:
                for _ in range(take):
                    v = next(it)
                    got.append(gen.freeze(v))
                    poison(v)
        except (InjectedFault, InjectedInterrupt) as e:
            exc = e
        except (RuntimeError, StopIteration) as e:
            if "StopIteration" not in repr(e) and "no flag for value" not in repr(e):
                raise
            exc = e         # the selector's StopIteration (as Python re-raises it in a generator)
        finally:
            # the consumer stops: drop / close the generator chain
            if it is not None and hasattr(it, "close"):
                try:
                    it.close()
                except Exception:  # pylint: disable=broad-except
                    pass
        if self.shape == "split2":
            b0 = [gen.freeze(("b0", v)) for v in self.flow]
            k = 0
            while k < len(got) and k < len(b0) and got[k] == b0[k]:
                k += 1
            self.b0_seen = k
            if k < len(b0) and k < len(got):
                self.b0_bad = (got, b0)
            got = got[k:]
        return got, exc

    def pulls(self):
        return self.trace.count("pull")


def _run_tworuns(r, obs, d):
    """One Cache element, no cache file yet: a first run is suspended after *take* values, a
    second run through the same element starts and the two are finished / closed / dropped in
    the given order. Every run that is consumed to its end yields its own flow unaltered and
    does not fail; afterwards a further run replays one of the completely consumed flows
    without pulling - or, if none was completed, behaves as a first run."""
    import gc
    import lena.core
    import lena.flow
    n, ctx, take, order, where = r["n"], r["ctx"], r["take"], r["order"], r["where"]
    obs.nontrivial = True
    fname = os.path.join(d, "c1.pkl")
    c = Counters()
    cache = lena.flow.Cache(fname)
    pipe = lena.core.Sequence(Up(c), cache, Down(c)) if where == "seq" else cache
    shape = "seq" if where == "seq" else "bare"
    pulled = [0, 0, 0]

    def src(j):
        for v in copy.deepcopy(make_flow(n, ctx, j)):
            pulled[j] += 1
            yield v
    full = [ref_output(shape, make_flow(n, ctx, j)) for j in (0, 1, 2)]
    tag = "%s order=%s take=%d n=%d" % (where, order, take, n)

    def finish(it, j, got):
        try:
            for v in it:
                got.append(gen.freeze(v))
        except Exception as e:  # pylint: disable=broad-except
            obs.fail("run-raises-beside-another-live-run:%s" % where,
                     "%s: run %d (consumed to its end while another run of the same Cache "
                     "element was alive) raised %r" % (tag, j + 1, e))
            return False
        obs.check(got == full[j], "first-run-alters-flow:two-live-runs:%s" % where,
                  "%s: run %d yielded %r, its flow gives %r" % (tag, j + 1, got, full[j]))
        return True
    it1 = pipe.run(src(0))
    got1 = [gen.freeze(next(it1)) for _ in range(take)]
    it2 = pipe.run(src(1))
    got2 = []
    completed = []
    ok = True
    if order == "close1-mid2":
        got2.append(gen.freeze(next(it2)))
        it1.close()
        ok = finish(it2, 1, got2)
        completed = [1]
    elif order in ("finish2-close1", "finish2-drop1"):
        ok = finish(it2, 1, got2)
        if order.endswith("close1"):
            it1.close()
        else:
            del it1
            gc.collect()
        completed = [1]
    elif order == "finish2-finish1":
        ok = finish(it2, 1, got2) and finish(it1, 0, got1)
        completed = [0, 1]
    else:
        ok = finish(it1, 0, got1) and finish(it2, 1, got2)
        completed = [0, 1]
    obs.count("two_live_run_histories")
    if not ok:
        return
    leftovers = sorted(f for f in os.listdir(d) if f != "c1.pkl")
    obs.check(not leftovers, "temporary-files-left:two-live-runs",
              "%s: files %r left beside the cache" % (tag, leftovers))
    # a further run: replay of a completely consumed flow, nothing pulled
    try:
        got3 = [gen.freeze(v) for v in pipe.run(src(2))]
    except Exception as e:  # pylint: disable=broad-except
        obs.fail("later-run-raises:two-live-runs:%s" % where, "%s: the run after both raised %r"
                 % (tag, e))
        return
    obs.count("later_runs")
    obs.check(any(got3 == full[j] for j in completed) and pulled[2] == 0,
              "replay-differs:two-live-runs:%s" % where,
              "%s: the run after both yielded %r and pulled %d values; the completely "
              "consumed flows were %r" % (tag, got3, pulled[2], [full[j] for j in completed]))


def run_case(r, obs):
    d = tempfile.mkdtemp(prefix="rv_c18_")
    COPY_MODE["mode"] = r.get("dup")
    try:
        if r.get("k") == "tworuns":
            _run_tworuns(r, obs, d)
        else:
            _run_case(r, obs, d)
    finally:
        COPY_MODE["mode"] = None
        audit.stop()
        shutil.rmtree(d, ignore_errors=True)


def _opens(log, files):
    w = [e for e in log if e[0] == "open" and e[1] in files and audit.is_write_mode(e[2])]
    rd = [e for e in log if e[0] == "open" and e[1] in files and not audit.is_write_mode(e[2])]
    return w, rd


def _run_case(r, obs, d):
    import lena.core
    import lena.flow
    shape, n, ctx, crash, later = r["shape"], r["n"], r["ctx"], r["crash"], r["later"]
    if n:
        obs.nontrivial = True
    flow0 = make_flow(n, ctx, 0)
    full0 = ref_output(shape, flow0)
    sig = "%s%s" % (shape, ":special-values" if ctx == "special" else ":ctx" if ctx else "")

    # ---------------------------------------------------------------- first run
    audit.start(prefix=d)
    if crash is None:
        p = Pipeline(shape, d, flow0)
        got, exc = p.run()
        obs.count("complete_first_runs")
        obs.count("pulls_observed", p.pulls())
        obs.check(got == full0 and exc is None, "first-run-alters-flow:" + shape,
                  "first run through Cache (%s) gave %r (exc %r), expected %r"
                  % (sig, got, exc, full0))
        obs.check(p.pulls() == n, "first-run-wrong-pull-count:" + shape,
                  "first run pulled %d of %d values" % (p.pulls(), n))
        stored = full0          # what a later replay must yield
        complete = True
    else:
        kind, k = crash
        obs.count("interrupted_first_runs")
        if kind == "consumer":
            p = Pipeline(shape, d, flow0)
            want = min(k, len(full0))
            if shape == "split2":
                want += n       # the other branch's n outputs come first
            got, exc = p.run(take=want)
        elif kind.startswith("selector"):
            p = Pipeline(shape, d, flow0, sel_stop_at=k)
            got, exc = p.run()
            obs.check(exc is not None, "user-exception-ends-the-flow-silently:filter-selector",
                      "the selector of a Filter upstream of the Cache raised StopIteration for "
                      "value no. %d of %d; the run ended normally with %r" % (k, n, got))
        elif kind.startswith("upstream"):
            p = Pipeline(shape, d, flow0, fault_at=k,
                         fault_exc=InjectedInterrupt if kind.endswith("interrupt")
                         else InjectedFault)
            got, exc = p.run()
        else:
            p = Pipeline(shape, d, flow0, down_raise_at=k,
                         fault_exc=InjectedInterrupt if kind.endswith("interrupt")
                         else InjectedFault)
            got, exc = p.run()
        obs.count("pulls_observed", p.pulls())
        obs.check(got == full0[:len(got)], "interrupted-first-run-wrong-prefix:" + shape,
                  "interrupted first run (%r) yielded %r, not a prefix of %r" % (crash, got, full0))
        if kind != "consumer" and not kind.startswith("selector"):
            obs.check(isinstance(exc, (InjectedFault, InjectedInterrupt)),
                      "injected-fault-swallowed:" + shape,
                      "the injected %s fault did not propagate (got %r, exc %r)" % (kind, got, exc))
        stored = None
        complete = False
        del p
    first_log = audit.stop()

    # ---------------------------------------------------------------- later runs
    for j, op in enumerate(later, start=1):
        flow_j = make_flow(n, ctx, j)
        full_j = ref_output(shape, flow_j)
        audit.start(prefix=d)
        recompute = op in ("recompute", "hoist_recompute")
        hoist = None
        if op == "drop":
            for fname in ("c1.pkl", "c2.pkl", "c_far_1.pkl"):
                cobj = lena.flow.Cache(os.path.join(d, fname))
                if os.path.exists(os.path.join(d, fname)):
                    cobj.drop_cache()
                    obs.check(not cobj.cache_exists(), "drop-cache-leaves-cache:" + shape,
                              "cache_exists() after drop_cache()")
        elif op == "drop2":
            cobj = lena.flow.Cache(os.path.join(d, "c2.pkl"))
            if os.path.exists(os.path.join(d, "c2.pkl")):
                cobj.drop_cache()
        elif op == "hoist":
            hoist = "static" if (n + j) % 2 else "core"
        elif op == "hoist_recompute":
            hoist = "static"
        p = Pipeline(shape, d, flow_j, recompute=recompute, hoist=hoist)
        got, exc = p.run()
        log = audit.stop()
        w, rd = _opens(log, p.files)
        pulls = p.pulls()
        obs.count("pulls_observed", pulls)
        obs.count("later_runs")
        ctxs = "%s op=%s after %s (history %r, n=%d)" % (
            sig, op, "complete run" if complete else "interrupted run %r" % (crash,), later, n)
        if exc is not None:
            obs.fail("later-run-raises:%s:%s" % (shape, op), "%s raised %r" % (ctxs, exc))
            return
        must_recompute = recompute or op == "drop"
        if must_recompute:
            # first-run behaviour restored: the current flow, unaltered, and stored
            obs.count("recompute_runs_checked")
            if got != full_j:
                if got == stored and stored != full_j:
                    obs.fail("recompute-ignored:%s:%s" % (shape, op if not hoist else "hoisted"),
                             "%s replayed the old cache %r instead of recomputing %r"
                             % (ctxs, got, full_j))
                else:
                    obs.fail("recompute-wrong-output:%s:%s" % (shape, op),
                             "%s gave %r, expected %r" % (ctxs, got, full_j))
            obs.check(pulls == n, "recompute-wrong-pull-count:%s:%s" % (shape, op),
                      "%s pulled %d of %d" % (ctxs, pulls, n))
            stored, complete = full_j, True
            continue
        if complete and op == "drop2":
            # second cache dropped: the first one replays, Mid runs, Up does not
            obs.count("replay_runs_checked")
            obs.check(got == stored, "replay-differs:two:first-cache-after-drop2",
                      "%s gave %r, stored %r" % (ctxs, got, stored))
            obs.check(pulls == 0 and p.c.up == 0,
                      "replay-runs-upstream:two:first-cache-after-drop2",
                      "%s: pulls=%d up calls=%d" % (ctxs, pulls, p.c.up))
            obs.check(p.c.mid == (n if shape == "two" else 0), "replay-skips-elements-after-cache:two",
                      "%s: mid calls=%d, expected %d" % (ctxs, p.c.mid, n))
            continue
        if complete:
            obs.count("replay_runs_checked")
            how = "hoisted-" + hoist if hoist else "in-sequence"
            if got != stored:
                if stored[:len(got)] == got and len(got) < len(stored):
                    shape_d = "values-missing"
                elif len(got) == len(stored):
                    shape_d = "values-changed"
                else:
                    shape_d = "other"
                obs.fail("replay-differs:%s:%s:%s" % (shape, how, shape_d),
                         "%s gave %r, stored flow is %r" % (ctxs, got, stored))
            # (a Split reads its input block before it runs any branch: its own pulls
            # are not the Cache's upstream)
            obs.check(pulls == 0 or shape in ("split", "split2", "splitbare"),
                      "replay-pulls-upstream:%s:%s" % (shape, how),
                      "%s pulled %d values from the upstream" % (ctxs, pulls))
            obs.check(p.c.up == 0 and p.c.fills == 0 and p.c.computes == 0 and
                      (shape != "two" or p.c.mid == 0),
                      "replay-runs-upstream-element:%s:%s" % (shape, how),
                      "%s ran upstream elements: up=%d mid=%d fills=%d computes=%d"
                      % (ctxs, p.c.up, p.c.mid, p.c.fills, p.c.computes))
            obs.check(not w, "replay-rewrites-cache:%s:%s" % (shape, how),
                      "%s opened %r for writing" % (ctxs, w))
            obs.check(bool(rd),
                      "replay-without-reading-cache:%s:%s" % (shape, how),
                      "%s did not open the cache file for reading (log %r)" % (ctxs, log))
            if hoist == "static" and p.hoisted_type is not None:
                obs.check(p.hoisted_type == "Source", "alter-sequence-does-not-hoist:static",
                          "Cache.alter_sequence returned a %s for a filled cache"
                          % p.hoisted_type)
            continue
        # ------- after an interrupted first run: never the truncated prefix
        obs.count("post_crash_runs_checked")
        kind, k = crash
        if got == full_j:
            obs.check(pulls == n, "post-crash-recompute-wrong-pulls:" + shape,
                      "%s recomputed with %d pulls of %d" % (ctxs, pulls, n))
            stored, complete = full_j, True
        elif got == full0 and (kind == "consumer" and k >= len(full0)):
            # all values had been taken: the complete flow was stored
            stored, complete = full0, True
        elif got == full0[:len(got)] and len(got) < len(full0):
            obs.fail("truncated-cache-served:%s:%s-stop" % (shape, kind),
                     "%s served the stored prefix %r (%d of %d values) as if complete"
                     % (ctxs, got, len(got), len(full0)))
            return
        elif got == full0:
            # the crash happened after every value had been written (downstream fault on the
            # last value / upstream fault after the last pull cannot happen: k < n)
            obs.fail("unexhausted-cache-served:%s:%s-stop" % (shape, kind),
                     "%s served %r stored by a run that never saw the end of its flow"
                     % (ctxs, got))
            return
        else:
            obs.fail("post-crash-wrong-output:%s:%s-stop" % (shape, kind),
                     "%s gave %r; expected recomputation %r" % (ctxs, got, full_j))
            return


RULE += (' Faults are raised both as Exception and as KeyboardInterrupt; flows with None / false bare values.')
RULE += (' Shapes also include the Cache alone (alter_sequence of a single element) and the Cache '
         'given bare as a branch of a Split.')
RULE += (' A further shape names the cache file by a template formatted from the static context.')
RULE += (' A further shape has a Filter upstream of the Cache whose selector raises StopIteration for '
         'one value (a crash point like the others); recompute is also passed positionally.')
RULE += (' Added: two first runs through one Cache element alive at the same time (the first '
         'suspended after k values; then closed / dropped / finished before, during or after '
         'the second): no run that is consumed to its end fails or is altered, nothing is left '
         'beside the cache file, and the next run replays a completely consumed flow.')
RULE += (' Added: the consumer of every run changes each received value in place (context keys, '
         'nested lists) before it asks for the next one.')

RULE += (' Round 10: first runs of 1500 / 4000 values with context and 20000 / 70000 bare values (pickled flow of tens to hundreds of kilobytes), complete and interrupted, then replay / recompute / hoist.')
