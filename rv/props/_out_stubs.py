"""Stub converters for the output-pipeline checks (C19, C10).

``LaTeXToPDF`` is given a *create_command* that launches ``<bindir>/fakelatex``
and ``PDFToPNG`` finds ``<bindir>/pdftoppm`` first on PATH.  Both are tiny
``/bin/sh`` scripts (about 2-5 ms per launch) written into the per-case scratch
directory.  Each appends one line with its arguments to a log file and writes an
artefact whose CONTENT is a digest (here: an injective concatenation) of
everything it read:

    pdf = "PDF-OF\\n" + <tex bytes> + for every csv named in the tex
                                       "\\n--CSV <path>\\n" + <csv bytes or MISSING>
    png = "PNG-OF\\n" + <pdf bytes>

so that a stale artefact is a content mismatch.  The Python functions
``pdf_digest`` / ``png_digest`` compute the same digests for the oracle.
A tex file names a csv by a line containing ``table {<path>}``.
"""
import os
import re
import stat

_LATEX = r"""#!/bin/sh
# fakelatex TEX OUT  (stub for pdflatex)
tex="$1"; out="$2"
printf 'latex\t%s\t%s\n' "$tex" "$out" >> '@LOG@'
if [ ! -f "$tex" ]; then exit 3; fi
# a converter that is still working when the flow ends: while the file LOG.hold exists it waits
# for LOG.go (written by the harness when the source of the flow is exhausted); bounded, so
# that nothing can hang - the bound only ends the wait, it decides nothing
if [ -f '@LOG@.hold' ]; then
  i=0
  while [ ! -f '@LOG@.go' ] && [ $i -lt 600 ]; do sleep 0.01; i=$((i+1)); done
fi
# a tex file with an error in it: the converter fails and writes nothing
if grep -q FAILLATEX "$tex"; then echo "! LaTeX Error" >&2; exit 1; fi
# a converter terminated by a signal (memory limit, batch system): no output either
if grep -q KILLLATEX "$tex"; then kill -KILL $$; fi
if grep -q TERMLATEX "$tex"; then kill -TERM $$; fi
{
  printf 'PDF-OF\n'
  cat "$tex"
  sed -n 's/.*table {\([^}]*\)}.*/\1/p' "$tex" | while IFS= read -r f; do
    printf '\n--CSV %s\n' "$f"
    if [ -f "$f" ]; then cat "$f"; else printf 'MISSING'; fi
  done
} > "$out"
"""

_PDFLATEX = r"""#!/bin/sh
# pdflatex -halt-on-error -interaction errorstopmode -output-directory DIR TEX  (stub
# found on PATH when LaTeXToPDF builds its default command)
dir="$5"; tex="$6"
base="${tex##*/}"
exec '@LATEX@' "$tex" "$dir/${base%.tex}.pdf"
"""

_PDFTOPPM = r"""#!/bin/sh
# pdftoppm PDF PREFIX -FORMAT -singlefile  (stub)
pdf="$1"; prefix="$2"; fmt="${3#-}"
printf 'pdftoppm\t%s\t%s\t%s\t%s\n' "$1" "$2" "$3" "$4" >> '@LOG@'
if [ ! -f "$pdf" ]; then exit 3; fi
{
  printf 'PNG-OF\n'
  cat "$pdf"
} > "$prefix.$fmt"
"""

_CSV_RE = re.compile(r"table \{([^}]*)\}")


class Stubs(object):
    """Stub converter scripts living in *bindir*, logging to *logpath*."""

    def __init__(self, bindir, logpath):
        self.bindir = bindir
        self.logpath = logpath
        self._offset = 0
        self._old_path = None
        os.makedirs(bindir, exist_ok=True)
        self.latex = os.path.join(bindir, "fakelatex")
        self.pdftoppm = os.path.join(bindir, "pdftoppm")
        self.pdflatex = os.path.join(bindir, "pdflatex")
        for path, text in ((self.latex, _LATEX), (self.pdftoppm, _PDFTOPPM),
                           (self.pdflatex, _PDFLATEX)):
            with open(path, "w") as f:
                f.write(text.replace("@LOG@", logpath).replace("@LATEX@", self.latex))
            os.chmod(path, stat.S_IRWXU)
        with open(logpath, "w"):
            pass

    # ------------------------------------------------------------ PATH
    def install_path(self):
        """Put *bindir* first on PATH (for PDFToPNG's bare ``pdftoppm``)."""
        if self._old_path is None:
            self._old_path = os.environ.get("PATH", "")
            os.environ["PATH"] = self.bindir + os.pathsep + "/usr/bin" + os.pathsep + "/bin"

    def restore_path(self):
        if self._old_path is not None:
            os.environ["PATH"] = self._old_path
            self._old_path = None

    # --------------------------------------------------------- command
    def create_command(self, texfile_name, outfilename, output_directory, context):
        """The *create_command* argument of LaTeXToPDF."""
        return [self.latex, texfile_name, outfilename]

    # ------------------------------------------------------------- log
    def new_invocations(self):
        """Invocations logged since the previous call: list of lists
        ``[tool, arg...]`` (order = order of process start-up)."""
        with open(self.logpath) as f:
            f.seek(self._offset)
            text = f.read()
            self._offset = f.tell()
        return [line.split("\t") for line in text.split("\n") if line]


def csv_names(tex_text):
    """Paths of the csv files a tex text names (in order)."""
    out = []
    for line in tex_text.split("\n"):
        # the sed expression is greedy: the last "table {..}" of a line
        ms = _CSV_RE.findall(line)
        if ms:
            out.append(ms[-1])
    return out


def pdf_digest(tex_text, read_file):
    """What fakelatex writes for *tex_text*; *read_file(path)* returns the
    text of a csv file or None if it is missing."""
    parts = ["PDF-OF\n", tex_text]
    for name in csv_names(tex_text):
        body = read_file(name)
        parts.append("\n--CSV %s\n" % name)
        parts.append("MISSING" if body is None else body)
    return "".join(parts)


def png_digest(pdf_text):
    return "PNG-OF\n" + pdf_text


def read_text(path):
    """Text of *path* or None."""
    try:
        with open(path, newline="") as f:
            return f.read()
    except (IOError, OSError):
        return None


def is_write_event(ev):
    from rv.monitors import audit
    if ev[0] != "open":
        return False
    mode = ev[2]
    if isinstance(mode, str) and mode.startswith("flags:"):
        try:
            fl = int(mode[6:])
        except ValueError:
            return False
        return bool(fl & (os.O_WRONLY | os.O_RDWR | os.O_CREAT | os.O_TRUNC | os.O_APPEND))
    return audit.is_write_mode(mode)


def limit_repeats(obs, registry, max_per_mech=4):
    """The worker keeps only the first 200 violations of a run: one mechanism that
    fires in every case must not crowd out a different one.  Keep the first witness per
    mechanism and case, and at most *max_per_mech* per worker process (*registry* is a
    module-level dict); the rest is counted in ``violations_counted_not_listed``.
    A replay (fresh process, one case) always lists its violations."""
    kept, seen = [], set()
    for v in obs.violations:
        m = v["mech"]
        if m in seen or registry.get(m, 0) >= max_per_mech:
            obs.count("violations_counted_not_listed")
            continue
        seen.add(m)
        registry[m] = registry.get(m, 0) + 1
        kept.append(v)
    obs.violations[:] = kept
