"""C11 - SplitIntoBins runs the analysis per cell on exactly that cell's values.

Oracle: for every cell (addressed by the index product over the edges with
get_bin_on_index, never through iter_bins, which recurses into iterable cell contents)
a private fresh copy of the analysis, built again from the recipe, is filled with deep
copies of the sub-flow of values whose argument a linear scan (lo <= x < hi in every
dimension; the independent cell finder of C06) puts into that cell, in arrival order.
IterateBins / MapBins are compared with the same per-cell recomputation.
"""
import bisect
import copy
import itertools
import math
import random
from fractions import Fraction

from rv import gen
from rv.monitors import identity
from rv.props import _c06_monitor as mon

ID = "C11"
LEVEL = "exploration"
RULE = ("seeded random analyses pre* accumulator post* (pre: total callables, Variable, "
        "in-place context mutators, Count and Filter as FillInto, step Slice; accumulators: "
        "Sum, DSum, Mean, StoreFilled (group / one by one), Count, FillCompute(Count), "
        "Histogram; post: callables, Variable, Count, Split of two branches = two results per "
        "cell) given as FillComputeSeq, tuple or single element x argument variable (identity, "
        "half, neg; pairs: identity, swap, sum/difference) x 1-d (2..7 edges) and 2-d (2..4 "
        "edges per axis) int/float/non-uniform edges x flows of 0..25 values (bare or with a "
        "private context) drawn from: every edge, its float neighbours, cell midpoints, values "
        "outside, random inside. Then IterateBins on cells holding histograms and MapBins "
        "(callable, Variable, two-element Sequence, Split yielding two results) on every "
        "result. Non-trivial: at least two different cells and one value outside (or on a "
        "border) were hit and at least one histogram was yielded")
ASSUMPTIONS = ["generated callables are total and pure; flow values share no mutable state",
               "flow contexts do not contain 'variable', 'bin' or 'bins' keys",
               "MapBins is not applied to cells holding lists (md_map treats lists as nesting)"]
ANCHORS = [("lena/structures/split_into_bins.py", 16, 38),
           ("lena/structures/split_into_bins.py", 79, 131),
           ("lena/structures/split_into_bins.py", 201, 270),
           ("lena/structures/split_into_bins.py", 310, 405),
           ("lena/math/meshes.py", 78, 108)]
MUST_REACH = ["lena/structures/split_into_bins.py:SplitIntoBins.__init__",
              "lena/structures/split_into_bins.py:SplitIntoBins.fill",
              "lena/structures/split_into_bins.py:SplitIntoBins.compute",
              "lena/structures/split_into_bins.py:IterateBins.run",
              "lena/structures/split_into_bins.py:MapBins.run",
              "lena/structures/split_into_bins.py:_MdSeqMap.next",
              "lena/structures/hist_functions.py:init_bins",
              "lena/math/meshes.py:md_map"]
MUST_COUNT = ["cells_recomputed", "cells_compared", "values_outside_edges", "values_on_border",
              "histograms_yielded", "iterate_bins_cells_compared", "map_bins_cells_compared"]
MIN_NONTRIVIAL = {"quick": 3000, "thorough": 100000}
NCASES = {"quick": 10000, "thorough": 250000}
LEVEL_TEXT = ("Seeded random exploration: every SplitIntoBins / IterateBins / MapBins execution "
              "is compared cell by cell with an independent recomputation (fresh analysis per "
              "cell on the linear-scan sub-flow). Held on the K cells reported in the evidence; "
              "silent about analyses outside the vocabulary (raising or impure user elements, "
              "LenaStopFill from inside a cell) and about the non-variable part of the context.")
LEVEL_NOTE = ("Trusts the elements' own fill/compute/run (they are the reference per cell) and "
              "the linear scan; only routing, per-cell privacy, zipping into histograms, "
              "context.variable, IterateBins and MapBins are under test.")
TECHNIQUE = "reference-model monitor: per-cell twin analysis on the independently routed sub-flow"

INF = float("inf")

ARG1 = {"self": lambda d: d, "half": lambda d: d / 2.0, "neg": lambda d: -d}
ARG1_INV = {"self": lambda x: x, "half": lambda x: x * 2.0, "neg": lambda x: -x}
ARG2 = {"self": lambda d: (d[0], d[1]), "swap": lambda d: (d[1], d[0]),
        "sumdiff": lambda d: (d[0] + d[1], d[0] - d[1])}
ARG2_INV = {"self": lambda p: (p[0], p[1]), "swap": lambda p: (p[1], p[0]),
            "sumdiff": lambda p: ((p[0] + p[1]) / 2.0, (p[0] - p[1]) / 2.0)}


# ------------------------------------------------------------------ generators
def g_axis(rng, maxe):
    n = rng.randint(2, maxe)
    kind = rng.choice(["uint", "uint", "ufloat", "random", "mixed"])
    if kind == "uint":
        a, st = rng.randint(-5, 5), rng.choice([1, 1, 2, 4])
        arr = [a + i * st for i in range(n)]
    elif kind == "ufloat":
        a, h = rng.choice([0.0, -1.0, 0.5]), rng.choice([0.5, 0.25, 1.0, 0.1])
        arr = [a + i * h for i in range(n)]
    elif kind == "random":
        arr = sorted(round(rng.uniform(-8, 8), 3) for _ in range(n))
    else:
        arr = sorted(rng.choice([rng.randint(-8, 8), round(rng.uniform(-8, 8), 2)])
                     for _ in range(n))
    out = []
    for x in arr:
        if not out or x > out[-1]:
            out.append(x)
    while len(out) < 2:
        out.append(out[-1] + 1)
    return out


def g_coord(rng, arr):
    """A coordinate along one axis and its class."""
    c = rng.choice(["edge", "edge", "up", "down", "mid", "mid", "mid", "out", "rand", "rand"])
    if c == "edge":
        return rng.choice(arr), "border"
    if c == "up":
        return math.nextafter(float(rng.choice(arr)), INF), "border"
    if c == "down":
        return math.nextafter(float(rng.choice(arr)), -INF), "border"
    if c == "mid":
        i = rng.randrange(len(arr) - 1)
        return (arr[i] + arr[i + 1]) / 2.0, "in"
    if c == "out":
        return rng.choice([arr[0] - 1, arr[0] - 0.001, arr[-1] + 1, arr[-1] + 100, arr[-1]]), "out"
    return round(rng.uniform(arr[0] - 0.5, arr[-1] + 0.5), 2), "in"


PRE = [["call", "inc"], ["call", "dbl"], ["call", "neg"], ["call", "add10"], ["call", "id"],
       ["var", "v", "inc"], ["var", "w", "half"], ["call", "ctx:a"], ["call", "ctx:b"],
       ["ficount", "seen"], ["filter", "even"], ["filter", "pos"], ["filter", "lt5"],
       ["slice", [0, None, 2]], ["slice", [1, None, 1]], ["slice", [1, None, 3]]]
ACC = [["sum"], ["sum"], ["dsum"], ["mean"], ["store", 1], ["store", 1], ["store", 0],
       ["count", "n"], ["fccount", "fc"], ["hist", [-20, 0, 5, 40]], ["hist", [0, 1, 2, 3]]]
POST = [["call", "inc"], ["call", "dbl"], ["call", "tag:p"], ["var", "r", "sq"], ["call", "ctx:c"],
        ["count", "outs"], ["split", [[["call", "inc"]], [["call", "dbl"]]], 10]]
MAPSEQ = [[["call", "inc"]], [["call", "dbl"]], [["var", "m", "inc"]], [["call", "id"]],
          [["call", "inc"], ["call", "dbl"]], [["call", "ctx:z"], ["call", "neg"]],
          [["split", [[["call", "inc"]], [["call", "dbl"]]], 10]],
          [["call", "tag:q"]], [["count", "mc"]], [["count", "mc"], ["call", "inc"]],
          # a bare fill/compute element (not a run element: MapBins converts it) has state
          # (not a StoreFilled that yields a list: a list as a cell content is indistinguishable
          # from a nested array of bins)
          [["fccount", "fc"]], [["store", 0]]]


def cases(tier, seed):
    for i in range(NCASES[tier]):
        rng = gen.rng_for(seed, "C11", i)
        dim = rng.choice([1, 1, 2])
        edges = g_axis(rng, 7) if dim == 1 else [g_axis(rng, 4), g_axis(rng, 4)]
        E = [edges] if dim == 1 else edges
        arg = rng.choice(sorted(ARG1 if dim == 1 else ARG2))
        inv = (ARG1_INV if dim == 1 else ARG2_INV)[arg]
        flow = []
        for j in range(rng.choice([0, 1, 3, 6, 10, 16, 25])):
            pt = [g_coord(rng, a)[0] for a in E]
            d = inv(pt[0]) if dim == 1 else list(inv(pt))
            if rng.random() < 0.5:
                c = {"i": j}
                if rng.random() < 0.3:
                    c["n"] = {"k": rng.randint(0, 2)}
                flow.append([d, c])
            else:
                flow.append([d])
        acc = rng.choice(ACC)
        pre = [rng.choice(PRE) for _ in range(rng.choice([0, 0, 1, 1, 2, 3]))]
        numeric = any(p[0] == "var" or (p[0] == "call" and p[1] in ("inc", "dbl", "neg", "add10"))
                      for p in pre)
        if dim == 2 and acc[0] in ("hist", "sum", "dsum", "mean") and not numeric:
            # pairs cannot be summed or histogrammed in 1-d: map them to a number first
            pre.append(["call", "inc"])
        post = [rng.choice(POST) for _ in range(rng.choice([0, 0, 1, 1, 2]))]
        yield {"hist": rng.choice([None, None, None, "copy-mid", "attr-late", "pickle-mid"]),
               "dim": dim, "edges": edges, "arg": arg, "flow": flow, "pre": pre, "acc": acc,
               "post": post, "form": rng.choice(["fcseq", "auto"]),
               "vform": rng.choice(["plain", "combine"]),
               "mapseq": rng.choice(MAPSEQ), "drop": rng.random() < 0.7,
               "rs": rng.randint(0, 10 ** 9)}
    for bad in ["edges-not-increasing", "arg-not-a-variable", "no-fill-compute"]:
        yield {"bad": bad}
    # the argument variable is an ordinary Variable that is used again afterwards; values may
    # come from upstream Variable elements (their context holds a typed context.variable); a
    # user function inside the analysis may raise for one value
    # (Decimal coordinates are not generated: Decimal and float do not mix in Python
    # arithmetic, and the bin search divides by a float)
    for kind in ("bigint", "fraction"):
        yield {"exact": kind}
    for names in (["x", "y"], ["x", "y", "x"], ["y", "t"], ["x"], ["x", "x2"], ["x2", "x", "y"]):
        for ed in ("int", "mixed"):
            yield {"twovars": 1, "names": names, "edges": ed}
    for typed in (0, 1):
        for upstream in (0, 1):
            for raising in (None, "IndexError", "KeyError", "ValueError"):
                yield {"special": 1, "typed": typed, "upstream": upstream, "raising": raising}


# ------------------------------------------------------------------ builders
def build(e):
    import lena.structures
    if e[0] == "hist":
        return lena.structures.Histogram(list(e[1]))
    if e[0] == "ficount":
        # Count has fill and compute as well: "explicitly cast to FillInto" (FillComputeSeq docs)
        import lena.core
        import lena.flow
        return lena.core.FillInto(lena.flow.Count(e[1]))
    return gen.build(e)


def analysis(r):
    return [build(e) for e in r["pre"]] + [build(r["acc"])] + [build(e) for e in r["post"]]


def mkflow(r):
    out = []
    for item in r["flow"]:
        d = item[0]
        if isinstance(d, list):
            d = tuple(d)
        if len(item) == 2:
            out.append((d, copy.deepcopy(item[1])))
        else:
            out.append(d)
    return out


def index_product(edges):
    E = mon.unify_edges(edges)
    return list(itertools.product(*[range(len(a) - 1) for a in E]))


def has_list_cell(cells):
    for c in cells:
        d = c[0] if gen.has_ctx(c) else c
        if isinstance(c, list) or isinstance(d, list):
            return True
    return False


def run_case(r, obs):
    import lena.core
    import lena.structures
    import lena.variables
    if "bad" in r:
        return _bad(r, obs, lena)
    if "special" in r:
        return _special(r, obs, lena)
    if "exact" in r:
        return _exact_args(r, obs, lena)
    if "twovars" in r:
        return _two_variables(r, obs, lena)
    dim, edges = r["dim"], r["edges"]
    E = mon.unify_edges(edges)
    getter = (ARG1 if dim == 1 else ARG2)[r["arg"]]
    if dim == 2 and r.get("vform") == "combine":
        comp = {"self": (lambda d: d[0], lambda d: d[1]), "swap": (lambda d: d[1], lambda d: d[0]),
                "sumdiff": (lambda d: d[0] + d[1], lambda d: d[0] - d[1])}[r["arg"]]
        var = lena.variables.Combine(lena.variables.Variable("p", comp[0]),
                                     lena.variables.Variable("q", comp[1], unit="u"))
    else:
        var = lena.variables.Variable("arg_" + r["arg"], getter, unit="u")
    var_context = copy.deepcopy(var.var_context)
    # ---------------- the real element
    els = analysis(r)
    if r["form"] == "fcseq" or len(els) > 1:
        seq = lena.core.FillComputeSeq(*els)
    else:
        seq = els[0]            # "or will be converted to that"
    edges_given = copy.deepcopy(edges)
    sib = lena.structures.SplitIntoBins(seq, var, edges)
    flow = mkflow(r)
    if r.get("hist") == "attr-late" and not isinstance(var, lena.variables.Combine):
        # an attribute of the argument variable set after the element was built (the element
        # keeps the variable): context.variable describes the variable as it is
        var.unit = "cm"
        var.range = [0, 1]
        var_context = copy.deepcopy(var.var_context)
        obs.count("late_attribute_histories")
    if r.get("hist") in ("copy-mid", "pickle-mid") and len(flow) >= 2:
        # a copy taken after half of the values goes on alone: it holds what the original held
        # and gets the rest (the original gets other values, which must not reach the copy)
        half = len(flow) // 2
        for v in flow[:half]:
            sib.fill(v)
        orig = sib
        try:
            if r["hist"] == "copy-mid":
                sib = copy.deepcopy(orig)
            else:
                import pickle
                sib = pickle.loads(pickle.dumps(orig))
        except Exception:  # pylint: disable=broad-except
            sib = orig
            orig = None
            obs.count("analyses_not_copyable")
        for v, w in zip(flow[half:], mkflow(r)[:len(flow) - half]):
            sib.fill(v)
            if orig is not None:
                orig.fill(w)
        if orig is not None:
            obs.count("copy_histories")
    else:
        for v in flow:
            sib.fill(v)
    results = list(sib.compute())
    obs.count("histograms_yielded", len(results))
    # ---------------- the oracle: one private analysis per cell on its sub-flow
    idxs = index_product(edges)
    sub = dict((idx, []) for idx in idxs)
    n_out = n_border = 0
    for v in mkflow(r):
        d = v[0] if gen.has_ctx(v) else v
        x = getter(d)
        xs = list(x) if dim == 2 else [x]
        cell = mon.scan_cell(E, xs)
        if any(any(c == e or c == math.nextafter(float(e), INF) or
                   c == math.nextafter(float(e), -INF) for e in a) for a, c in zip(E, xs)):
            n_border += 1
        if cell is None:
            n_out += 1
        else:
            sub[cell].append(v)
    obs.count("values_outside_edges", n_out)
    obs.count("values_on_border", n_border)
    expected = {}
    for idx in idxs:
        twin = lena.core.FillComputeSeq(*analysis(r))
        for v in sub[idx]:
            twin.fill(v)
        expected[idx] = list(twin.compute())
        obs.count("cells_recomputed")
    n_exp = min(len(expected[idx]) for idx in idxs)
    what = "acc=%s pre=%r post=%r arg=%s edges=%r flow=%r" % (
        r["acc"], r["pre"], r["post"], r["arg"], edges, r["flow"])
    if len(results) != n_exp:
        obs.fail("split-into-bins-number-of-histograms",
                 "SplitIntoBins yielded %d histogram(s), the cell with fewest results has %d "
                 "(%s)" % (len(results), n_exp, what))
    hit = [idx for idx in idxs if sub[idx]]
    for k, res in enumerate(results[:n_exp]):
        ok_shape = gen.has_ctx(res) and isinstance(res[0], lena.structures.histogram)
        obs.check(ok_shape, "split-into-bins-result-shape", "compute() yielded %r" % (res,))
        if not ok_shape:
            continue
        hist, ctx = res
        obs.check(hist.edges == edges_given, "split-into-bins-edges-differ",
                  "histogram edges %r, given %r" % (hist.edges, edges_given))
        for idx in idxs:
            try:
                got = lena.structures.get_bin_on_index(list(idx), hist.bins)
            except lena.core.LenaIndexError:
                obs.fail("split-into-bins-shape-differs",
                         "no cell %r in bins %r for edges %r" % (idx, hist.bins, edges))
                break
            exp = expected[idx][k]
            obs.count("cells_compared")
            if not (got == exp):
                all_same = len(idxs) > 1 and len(hit) > 1 and all(
                    lena.structures.get_bin_on_index(list(j), hist.bins) == got for j in idxs)
                if all_same:
                    mech = "cells-share-one-analysis"
                elif _value_on_edge_of(r, E, getter, dim, idx):
                    mech = "cell-content-differs:value-on-an-edge-of-the-cell"
                elif n_out:
                    mech = "cell-content-differs:values-outside-edges-in-flow"
                else:
                    mech = "cell-content-differs"
                obs.fail(mech, "result %d, cell %r over %r holds %r; a private copy of the "
                         "analysis fed with that cell's sub-flow %r gives %r (%s)"
                         % (k, idx, [(E[d][i], E[d][i + 1]) for d, i in enumerate(idx)], got,
                            sub[idx], exp, what))
                break
        # values outside the edges are ignored - also their context: what the histogram carries
        # besides context.variable is the context of the last value that fell into a cell
        inside = [v for v in mkflow(r)
                  if mon.scan_cell(E, (list(getter(gen.data_of(v))) if dim == 2
                                       else [getter(gen.data_of(v))])) is not None]
        exp_rest = copy.deepcopy(gen.ctx_of(inside[-1])) if inside else {}
        if isinstance(ctx, dict):
            rest = dict((kk, vv) for kk, vv in ctx.items() if kk != "variable")
            obs.count("histogram_contexts_compared")
            obs.check(rest == exp_rest,
                      "histogram-context-not-from-the-last-value-inside-the-edges",
                      "the yielded histogram has context %r (besides 'variable'); the last value "
                      "that fell into a cell had context %r%s (%s)"
                      % (rest, exp_rest, "; %d value(s) outside the edges were filled"
                         % n_out if n_out else "", what))
        obs.check(isinstance(ctx, dict) and ctx.get("variable") == var_context,
                  "context-variable-does-not-describe-arg_var",
                  "context.variable = %r, the argument variable is %r"
                  % (ctx.get("variable") if isinstance(ctx, dict) else ctx, var_context))
    obs.check(edges == edges_given, "split-into-bins-modifies-given-edges",
              "%r -> %r" % (edges_given, edges))
    # a second compute() without a fill in between: the same contexts (the cells' contents are
    # what the inner analyses yield for a second compute, compared through private twins above
    # only for the first)
    results2 = list(sib.compute())
    ctx1 = [x[1] for x in results[:n_exp] if gen.has_ctx(x)]
    ctx2 = [x[1] for x in results2[:n_exp] if gen.has_ctx(x)]
    obs.count("repeated_computes_compared")
    if len(ctx1) == len(ctx2) == n_exp:
        obs.check(ctx1 == ctx2, "second-compute-differs",
                  "two compute() calls with nothing filled in between yield contexts %r and %r (%s)"
                  % (ctx1[:1], ctx2[:1], what))
    if len(hit) >= 2 and (n_out or n_border) and n_exp:
        obs.nontrivial = True
    # ---------------- IterateBins and MapBins on what was yielded
    rng = random.Random(r["rs"])
    for k, res in enumerate(results[:n_exp]):
        if not (gen.has_ctx(res) and isinstance(res[0], lena.structures.histogram)):
            continue
        cells = [lena.structures.get_bin_on_index(list(idx), res[0].bins) for idx in idxs]
        if all(isinstance(gen.data_of(c), lena.structures.histogram) for c in cells):
            _iterate_bins(obs, lena, res, idxs, cells, E,
                          dim == 2 and r.get("vform") != "combine")
        if not has_list_cell(cells):
            _map_bins(obs, lena, r, res, idxs, cells)
    # MapBins on a plain numeric histogram of the same shape
    nb = [len(a) - 1 for a in E]
    flat = [rng.randint(-3, 9) for _ in idxs]
    nested = list(flat)
    for n in reversed(nb[1:]):
        nested = [nested[i:i + n] for i in range(0, len(nested), n)]
    plain = lena.structures.histogram(copy.deepcopy(edges), bins=nested)
    _map_bins(obs, lena, r, (plain, {"p": 1}), idxs, flat)


def _value_on_edge_of(r, E, getter, dim, idx):
    """True if some value of the flow lies on an edge of cell *idx* (classifier only)."""
    for item in r["flow"]:
        d = tuple(item[0]) if isinstance(item[0], list) else item[0]
        x = getter(d)
        xs = list(x) if dim == 2 else [x]
        for a, c, i in zip(E, xs, idx):
            if c == a[i] or c == a[i + 1]:
                return True
    return False


def _edges_str(edges, var_context=None):
    return "cell"


def _iterate_bins(obs, lena, res, idxs, cells, E, plain2d):
    hist, hctx = res
    hctx_snap = copy.deepcopy(hctx)
    cell_ctx = [copy.deepcopy(gen.ctx_of(c)) for c in cells]
    numeric = lena.structures.histogram([0, 1, 2], bins=[3, 4])
    other = (numeric, {"o": 1})
    if plain2d:
        # SplitIntoBins documents a plain Variable returning a pair as THE 2-d arg_var
        try:
            list(lena.structures.IterateBins().run(iter([copy.deepcopy(res)])))
            obs.count("iterate_bins_default_edges_str_ok_2d_plain")
        except lena.core.LenaValueError as exc:
            obs.fail("iterate-bins-default-edges-str-fails:2d-plain-variable",
                     "IterateBins() on the histogram SplitIntoBins yielded for 2-d edges %r and "
                     "a plain Variable returning a pair raised %r" % (hist.edges, exc))
        # the enumeration itself, with a user-supplied edges string
        it = lena.structures.IterateBins(create_edges_str=_edges_str)
    else:
        it = lena.structures.IterateBins()
    # a streaming consumer that updates every received cell context in place (as a downstream
    # UpdateContext / MakeFilename would) before asking for the next cell: the snapshot taken
    # at the moment of the yield is what the oracles below judge
    out, at_yield, yielded_ctxs = [], [], []
    for y in it.run(iter([7, res, other, "s"])):
        out.append(y)
        at_yield.append(copy.deepcopy(y[1]) if gen.has_ctx(y) else None)
        if gen.has_ctx(y) and y is not other:
            yielded_ctxs.append(y[1])
            for sub in ("bins", "bin"):
                if isinstance(y[1].get(sub), dict):
                    y[1][sub]["touched-by-consumer"] = len(out)
                    obs.count("iterate_bins_contexts_mutated_by_consumer")
    shared = []
    for a in range(len(yielded_ctxs)):
        for b in range(a):
            shared += identity.shared(yielded_ctxs[a], yielded_ctxs[b])
    obs.check(not shared, "iterate-bins-cells-share-context-objects",
              "the contexts IterateBins yielded for different cells of one histogram share %d "
              "mutable object(s), e.g. %r" % (len(shared), shared[:1]))
    ok = len(out) == len(cells) + 3 and out[0] == 7 and out[-1] == "s" and out[-2] is other
    obs.check(ok, "iterate-bins-number-of-values",
              "IterateBins yielded %d values for %d cells + 3 unselected values"
              % (len(out), len(cells)))
    if not ok:
        return
    seen = set()
    for y, c_at_yield in zip(out[1:-2], at_yield[1:-2]):
        if not (gen.has_ctx(y)):
            obs.fail("iterate-bins-value-shape", "yielded %r" % (y,))
            return
        d, c = y[0], c_at_yield
        js = [j for j, cell in enumerate(cells) if gen.data_of(cell) is d]
        obs.count("iterate_bins_cells_compared")
        if len(js) != 1 or js[0] in seen:
            obs.fail("iterate-bins-cell-not-once", "cell data yielded %d times / repeated"
                     % (len(js),))
            return
        j = js[0]
        seen.add(j)
        edges_j = tuple((E[dd][i], E[dd][i + 1]) for dd, i in enumerate(idxs[j]))
        got_edges = c.get("bin", {}).get("edges")
        obs.check(got_edges is not None and tuple(tuple(p) for p in got_edges) == edges_j,
                  "iterate-bins-wrong-edges", "cell %r has edges %r, context.bin.edges = %r"
                  % (idxs[j], edges_j, got_edges))
        own = all(c.get(key) == val for key, val in cell_ctx[j].items())
        obs.check(own, "iterate-bins-not-own-context",
                  "cell %r had context %r, yielded context %r" % (idxs[j], cell_ctx[j], c))
        obs.check(c.get("bins") == hctx_snap, "iterate-bins-histogram-context-not-preserved",
                  "context.bins = %r, histogram context was %r" % (c.get("bins"), hctx_snap))
    obs.check(len(seen) == len(cells), "iterate-bins-cell-not-once", "cells seen %r" % (seen,))


def _map_bins(obs, lena, r, res, idxs, cells):
    hist, hctx = res
    edges_snap = copy.deepcopy(hist.edges)
    cells_snap = copy.deepcopy(cells)

    def mkseq():
        els = [gen.build(e) for e in r["mapseq"]]
        return els[0] if len(els) == 1 else lena.core.Sequence(*els)
    expected = []
    for c in cells_snap:
        seq = mkseq()
        run = seq.run if hasattr(seq, "run") else lena.core.Sequence(seq).run
        expected.append(list(run(iter([copy.deepcopy(c)]))))
    n_exp = min(len(e) for e in expected)
    mb = lena.structures.MapBins(mkseq(), drop_bins_context=r["drop"])
    bare_run_el = len(r["mapseq"]) == 1 and hasattr(mkseq(), "run") and \
        not isinstance(mkseq(), lena.core.LenaSequence)
    # the same element meets further histograms with the same edges (the second result of a
    # SplitIntoBins, the next block, the next run): every cell of every one of them is the
    # sequence applied to that cell, nothing carried over
    res2, res3 = copy.deepcopy(res), copy.deepcopy(res)
    try:
        out_all = list(mb.run(iter([res, 3, res2])))
        out_b = list(mb.run(iter([res3])))
        out = out_all[:n_exp] + out_all[n_exp:n_exp + 1]
    except TypeError as exc:
        if not (bare_run_el and "iterator" in str(exc)):
            raise
        # Sequence.run guarantees its elements an iterator ("always contains both iter and
        # next"); MapBins hands a bare Run element a list
        obs.fail("map-bins-bare-run-element-gets-list-flow",
                 "MapBins(%r) with a single Run element raised %r: the element's run() was "
                 "called with a list, not an iterator" % (r["mapseq"], exc))
        return
    ok = len(out_all) == 2 * n_exp + 1 and out[-1] == 3 and len(out_b) == n_exp
    obs.check(ok, "map-bins-number-of-histograms",
              "MapBins(%r) yielded %d and %d values for [h, 3, h] and [h], expected %d "
              "histogram(s) per h + the unselected value"
              % (r["mapseq"], len(out_all), len(out_b), n_exp))
    if not ok:
        return
    # results are independent objects: no mutable object (edges, arrays of bins, contexts) is
    # shared between two of them or with the histogram they were made from
    hists = [y for y in out_all + out_b
             if gen.has_ctx(y) and isinstance(y[0], lena.structures.histogram)]
    parts = [[y[0].edges, y[0].bins, y[1]] for y in hists]
    for a in range(len(parts)):
        for b in range(a + 1, len(parts)):
            sh = identity.shared(parts[a], parts[b])
            obs.count("map_bins_result_pairs_walked")
            if sh:
                obs.fail("map-bins-results-share-mutable-object",
                         "MapBins(%r): results %d and %d share %r (a consumer changing one "
                         "in place changes the other)" % (r["mapseq"], a, b, sh[:2]))
                return
    later = [("second histogram of the same run", out_all[n_exp + 1:]),
             ("histogram of a second run", out_b)]
    for k, y in enumerate(out[:-1]):
        if not (gen.has_ctx(y) and isinstance(y[0], lena.structures.histogram)):
            obs.fail("map-bins-value-shape", "yielded %r" % (y,))
            return
        nh = y[0]
        obs.check(nh.edges == edges_snap, "map-bins-edges-differ",
                  "edges %r, original %r" % (nh.edges, edges_snap))
        for j, idx in enumerate(idxs):
            try:
                got = lena.structures.get_bin_on_index(list(idx), nh.bins)
            except lena.core.LenaIndexError:
                obs.fail("map-bins-shape-differs", "no cell %r in %r" % (idx, nh.bins))
                return
            exp = expected[j][k]
            if r["drop"]:
                exp = gen.data_of(exp)
            obs.count("map_bins_cells_compared")
            if not (got == exp):
                obs.fail("map-bins-cell-differs" + (":context-dropped" if r["drop"] else ""),
                         "MapBins(%r, drop_bins_context=%r): result %d cell %r = %r, the "
                         "sequence applied to that cell %r gives %r"
                         % (r["mapseq"], r["drop"], k, idx, got, cells_snap[j], exp))
                return
    for what, group in later:
        for k, y in enumerate(group):
            if not (gen.has_ctx(y) and isinstance(y[0], lena.structures.histogram)):
                obs.fail("map-bins-value-shape", "yielded %r" % (y,))
                return
            for j, idx in enumerate(idxs):
                try:
                    got = lena.structures.get_bin_on_index(list(idx), y[0].bins)
                except lena.core.LenaIndexError:
                    obs.fail("map-bins-shape-differs", "no cell %r in %r" % (idx, y[0].bins))
                    return
                exp = expected[j][k]
                if r["drop"]:
                    exp = gen.data_of(exp)
                obs.count("map_bins_cells_compared")
                if not (got == exp):
                    obs.fail("map-bins-cell-differs:later-histogram-through-the-same-element",
                             "MapBins(%r, drop_bins_context=%r), %s: result %d cell %r = %r, the "
                             "sequence applied to that cell %r gives %r"
                             % (r["mapseq"], r["drop"], what, k, idx, got, cells_snap[j], exp))
                    return


class _RaiseOn(object):
    """User function inside the analysis that raises for one particular datum."""

    def __init__(self, datum, exc):
        self.datum, self.exc = datum, exc

    def __call__(self, v):
        if gen.data_of(v) == self.datum:
            raise self.exc("user function fails on %r" % (self.datum,))
        return v


def _ident(d):
    return d


def _special(r, obs, lena):
    import lena.math
    import lena.variables
    obs.nontrivial = True
    kw = {"type": "coordinate"} if r["typed"] else {}

    def mkvar():
        return lena.variables.Variable("x", _ident, unit="cm", **kw)
    var = mkvar()
    snap = copy.deepcopy(var.var_context)
    old = {"name": "old", "type": "t0", "t0": {"name": "old", "unit": "mm"}}
    data = [0.5, 1.5, 1.2, 0.1, 7.0, 1.7]
    flow = []
    for i, d in enumerate(data):
        c = {"i": i}
        if r["upstream"]:
            c["variable"] = copy.deepcopy(old)
        flow.append((d, c))
    els = [lena.math.Sum()]
    exc = {"IndexError": IndexError, "KeyError": KeyError, "ValueError": ValueError,
           None: None}[r["raising"]]
    if exc is not None:
        els = [_RaiseOn(1.2, exc), lena.math.Sum()]       # 1.2 lies inside the edges
    sib = lena.structures.SplitIntoBins(lena.core.FillComputeSeq(*els), var, [0, 1, 2])
    propagated = []
    for v in flow:
        try:
            sib.fill(copy.deepcopy(v))
        except Exception as e:  # pylint: disable=broad-except
            propagated.append((v[0], type(e).__name__))
    obs.count("special_split_into_bins_runs")
    if exc is not None:
        # what a private copy of the analysis does with that value: it raises; so must the cell
        obs.check(propagated == [(1.2, r["raising"])],
                  "exception-of-the-analysis-swallowed:" + r["raising"],
                  "the analysis raises %s for the in-range value 1.2; SplitIntoBins.fill "
                  "propagated %r" % (r["raising"], propagated))
    else:
        obs.check(not propagated, "split-into-bins-fill-raises", "%r" % (propagated,))
    res = list(sib.compute())
    exp_cells = [0.5 + 0.1, 1.5 + 1.7 + (0 if exc is not None else 1.2)]
    ok = len(res) == 1 and gen.has_ctx(res[0]) and \
        [gen.data_of(b) for b in res[0][0].bins] == exp_cells
    obs.check(ok, "cell-content-differs", "cells %r, expected %r"
              % ([gen.data_of(b) for b in res[0][0].bins] if res else res, exp_cells))
    # the argument variable is unchanged, and works as before in another element
    obs.check(var.var_context == snap, "split-into-bins-changes-its-argument-variable",
              "var_context of the argument variable was %r, is %r after fill/compute on values "
              "whose context %s" % (snap, var.var_context,
                                    "holds a typed context.variable" if r["upstream"]
                                    else "has no variable"))
    # a second compute() with nothing filled in between describes the same histogram
    if exc is None:
        res2 = list(sib.compute())
        obs.count("repeated_computes_compared")
        same = len(res2) == len(res) and all(
            gen.has_ctx(b) and a[1] == b[1] and a[0].bins == b[0].bins and a[0].edges == b[0].edges
            for a, b in zip(res, res2))
        obs.check(same, "second-compute-differs",
                  "two compute() calls of one SplitIntoBins with nothing filled in between: "
                  "first context %r, second %r (argument variable %s, values whose context %s)"
                  % (res[0][1] if res else None, res2[0][1] if res2 and gen.has_ctx(res2[0])
                     else res2, "typed" if r["typed"] else "untyped",
                     "holds a typed context.variable" if r["upstream"] else "has no variable"))
    again = lena.structures.SplitIntoBins(lena.math.Sum(), var, [0, 1, 2])
    fresh = lena.structures.SplitIntoBins(lena.math.Sum(), mkvar(), [0, 1, 2])
    for s in (again, fresh):
        s.fill((0.5, {"k": 1}))
    a, f = list(again.compute()), list(fresh.compute())
    obs.check(a[0][1] == f[0][1], "split-into-bins-changes-its-argument-variable",
              "a second SplitIntoBins built with the same Variable yields context %r, with a "
              "fresh equal Variable %r" % (a[0][1], f[0][1]))


def _two_variables(r, obs, lena):
    """One IterateBins run over histograms with the same mesh but different argument variables
    (Split([SplitIntoBins(seq, x, edges), SplitIntoBins(seq, y, edges)]) followed by
    IterateBins): every cell is described with the variable of ITS histogram - what a run over
    that histogram alone gives."""
    import lena.math
    import lena.variables
    obs.nontrivial = True
    edges = [0, 1.0, 2, 4] if r["edges"] == "mixed" else [0, 1, 2, 4]
    names = r["names"]
    hists = []
    for nm in names:
        inner = lena.structures.Histogram([0, 5, 10])
        sib = lena.structures.SplitIntoBins(
            inner, lena.variables.Variable("x" if nm == "x2" else nm, _ident,
                                           latex_name=nm.upper()),
            copy.deepcopy(edges) if nm not in ("t", "x2") else [0.0, 1.0, 2.0, 4.0])
        for v in (0.5, 1.5, 3.0, 1.2):
            sib.fill(v)
        hists.extend(list(sib.compute()))
    alone = []
    for h in hists:
        alone.extend(copy.deepcopy(list(lena.structures.IterateBins().run(
            iter([copy.deepcopy(h)])))))
    if len(names) % 2:
        together = list(lena.structures.IterateBins().run(iter(copy.deepcopy(hists))))
    else:
        # the same element object in two runs
        itb = lena.structures.IterateBins()
        together = list(itb.run(iter(copy.deepcopy(hists[:1])))) + \
            list(itb.run(iter(copy.deepcopy(hists[1:]))))
    obs.count("iterate_bins_runs_over_several_histograms")
    ok = len(together) == len(alone)
    diffs = []
    if ok:
        for a, b in zip(alone, together):
            ca, cb = a[1].get("bin"), b[1].get("bin")
            if ca != cb or a[1].get("bins") != b[1].get("bins"):
                diffs.append((ca, cb))
    obs.check(ok and not diffs, "iterate-bins-cell-described-with-another-histograms-variable",
              "IterateBins over histograms of the variables %r with one mesh: %d values (alone: "
              "%d); first differing context.bin: alone %r, in the common run %r"
              % (names, len(together), len(alone), diffs[0][0] if diffs else None,
                 diffs[0][1] if diffs else None))


def _exact_args(r, obs, lena):
    """Arguments that are exact numbers floats cannot hold (integers above 2**53, Fractions /
    Decimals beside an edge): each value goes to the cell whose half-open interval holds it
    by exact comparison."""
    import decimal
    import lena.math
    import lena.variables
    obs.nontrivial = True
    kind = r["exact"]
    if kind == "bigint":
        t0 = 1700000000123456789
        edges = [t0 + 100 * i for i in range(4)]
        vals = [t0 - 1, t0, t0 + 1, t0 + 99, t0 + 100, t0 + 101, t0 + 199, t0 + 299, t0 + 300,
                t0 + 301, t0 - 200]
    elif kind == "fraction":
        edges = [0.0, 0.1, 0.2, 0.3]
        vals = [Fraction(1, 10), Fraction(1, 5), Fraction(3, 10), Fraction(0), Fraction(-1, 10 ** 30),
                Fraction(1, 10) + Fraction(1, 10 ** 25), Fraction(3, 10) - Fraction(1, 10 ** 25)]
    else:
        # (Decimal and float do not mix in Python arithmetic: Decimal edges)
        edges = [decimal.Decimal(x) for x in ("0.0", "0.1", "0.2", "0.3")]
        vals = [decimal.Decimal("0.1"), decimal.Decimal("0.2"), decimal.Decimal("0.3"),
                decimal.Decimal("0.29999999999999999999"), decimal.Decimal("0"),
                decimal.Decimal("0.1000000000000000055511151231257827021181583404541015625")]
    sib = lena.structures.SplitIntoBins(lena.flow.StoreFilled(yield_as_a_group=False),
                                        lena.variables.Variable("t", _ident), list(edges))
    for v in vals:
        sib.fill(v)
    res = list(sib.compute())
    exp = [[] for _ in range(len(edges) - 1)]
    for v in vals:
        i = bisect.bisect_right(edges, v) - 1      # exact comparisons of int/Fraction/Decimal
        if 0 <= i < len(exp):
            exp[i].append(v)
    n_results = min(len(e) for e in exp)
    got = [[] for _ in exp]
    for h, _c in res:
        for i, b in enumerate(h.bins):
            got[i].append(gen.data_of(b))
    obs.count("exact_argument_runs")
    want = [e[:n_results] for e in exp]
    obs.check(got == want, "cell-content-differs:argument-not-representable-as-float",
              "SplitIntoBins over edges %r filled with %r: the cells hold %r, exact comparison "
              "with the edges puts %r into them (first %d results per cell are yielded)"
              % (edges, vals, got, exp, n_results))


def _bad(r, obs, lena):
    import lena.math
    import lena.variables
    obs.nontrivial = True
    var = lena.variables.Variable("x", lambda d: d)
    exp = lena.core.LenaValueError if r["bad"] == "edges-not-increasing" \
        else lena.core.LenaTypeError
    try:
        if r["bad"] == "edges-not-increasing":
            lena.structures.SplitIntoBins(lena.math.Sum(), var, [0, 2, 1])
        elif r["bad"] == "arg-not-a-variable":
            lena.structures.SplitIntoBins(lena.math.Sum(), lambda d: d, [0, 1, 2])
        else:
            lena.structures.SplitIntoBins(lambda d: d, var, [0, 1, 2])
    except (lena.core.LenaValueError, lena.core.LenaTypeError) as e:
        obs.check(isinstance(e, exp), "split-into-bins-bad-argument-wrong-exception:" + r["bad"],
                  "raised %r" % (e,))
        obs.count("bad_arguments_rejected")
    else:
        obs.fail("split-into-bins-bad-argument-accepted:" + r["bad"], "no exception")


RULE += (" The context of every yielded histogram (besides 'variable') is compared with the context of the last value inside the edges; IterateBins is consumed by a streaming consumer that updates received contexts in place (identity walker between cells); one MapBins object meets three histograms in two runs.")
RULE += (' Every SplitIntoBins is computed a second time with nothing filled in between: the '
         'contexts (context.variable in particular) are those of the first compute.')
RULE += (' MapBins is also given bare fill/compute elements (FillCompute(Count), StoreFilled), which '
         'keep state between the cells unless every cell gets its own copy.')
RULE += (' Added: arguments that floats cannot hold exactly (integers above 2**53, Fractions and '
         'Decimals beside an edge); one IterateBins run over histograms with one mesh and '
         'different argument variables.')
RULE += (' Added: identity walk over all results of one MapBins element (edges, bins, contexts): '
         'no mutable object shared between two results.')

RULE += (' Round 10: SplitIntoBins deep-copied / pickled after half of the flow (the copy gets the rest, the original other values); attributes of the argument variable set after construction.')
