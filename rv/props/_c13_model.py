"""Reference model for C13: static context as a pure fold over the recipe tree.

Recipe grammar (JSON lists)

    node   := ["seq", items] | ["source", items, pre] | ["split", branches]
    branch := ["tuple", items] | ["seq", items] | ["source", items, pre] | ["bare", [item]]
    item   := node
            | ["set", key, value]              SetContext(key, value)
            | ["store", label]                 StoreContext()
            | ["ucfs", label]                  UpdateContextFromStatic()
            | ["mkfn", label, {field: template}, overwrite]   MakeFilename(**fields)
            | ["write", label, template]       Write(template)
            | ["cache", label, template]       Cache(root + "/" + template)
            | ["data", name]                   ordinary data element (rv.gen.func(name))
            | ["acc", "fc" | "fr"]             accumulator (fill/compute or fill/request element)
    node also ["fcseq", items] | ["frseq", items]: FillComputeSeq / FillRequestSeq whose items
    hold exactly one ["acc", ..]; a tuple branch holding an ["acc", ..] is converted by Split.
    For the static context they are sequences like any other.

Nothing here imports lena: the model is independent of the code under test
(own formatter, own nested update, own intersection).  The intersection mirrors
one convention of lena.context.intersection that the property does not fix:
two different sub-dictionaries under the same key intersect recursively and the
key is kept even if that intersection is empty.
"""
import copy
import re

CONSUMERS = ("store", "ucfs", "mkfn", "write", "cache")
CONTAINERS = ("seq", "source", "split", "tuple", "bare", "fcseq", "frseq")
KIND_NAME = {"store": "StoreContext", "ucfs": "UpdateContextFromStatic",
             "mkfn": "MakeFilename", "write": "Write", "cache": "Cache"}

_FIELD = re.compile(r"\{\{([^{}]*)\}\}")


class Unresolved(Exception):
    """A SetContext formatting value cannot be resolved against its prefix."""

    def __init__(self, component, path, template):
        Exception.__init__(self, component)
        self.component = component     # first missing key component
        self.path = path               # path of the SetContext leaf
        self.template = template


# ------------------------------------------------------------ dictionaries
def lookup(ctx, dotted):
    """-> (True, value) or (False, first missing component)."""
    parts = [p for p in dotted.split(".") if p]
    d = ctx
    for p in parts[:-1]:
        if isinstance(d, dict) and p in d and isinstance(d[p], dict):
            d = d[p]
        else:
            return False, p
    if not parts:
        return True, d
    if parts[-1] in d:
        return True, d[parts[-1]]
    return False, parts[-1]


def is_template(v):
    return isinstance(v, str) and "{" in v


def fmt(template, ctx):
    """-> (True, string) or (False, first missing component)."""
    out = []
    pos = 0
    for m in _FIELD.finditer(template):
        ok, val = lookup(ctx, m.group(1))
        if not ok:
            return False, val
        out.append(template[pos:m.start()])
        out.append("{}".format(val))
        pos = m.end()
    out.append(template[pos:])
    return True, "".join(out)


def fields_of(template):
    return [m.group(1) for m in _FIELD.finditer(template)]


def set_path(ctx, dotted, value):
    """ctx[dotted] = value, creating / replacing intermediate dictionaries;
    a dictionary value is merged recursively into an existing dictionary."""
    parts = dotted.split(".")
    d = ctx
    for p in parts[:-1]:
        if p not in d or not isinstance(d[p], dict):
            d[p] = {}
        d = d[p]
    last = parts[-1]
    if isinstance(value, dict):
        if last in d:
            if not isinstance(d[last], dict):
                d[last] = {}
            merge(d[last], value)
        else:
            d[last] = copy.deepcopy(value)
    else:
        d[last] = value


def merge(d, other):
    """Recursive update of *d* with a copy of *other*."""
    for k, v in other.items():
        if not isinstance(v, dict):
            d[k] = v
        elif k in d:
            if not isinstance(d[k], dict):
                d[k] = {}
            merge(d[k], v)
        else:
            d[k] = copy.deepcopy(v)


def intersect2(a, b):
    res = {}
    for k, v in a.items():
        if k not in b:
            continue
        if b[k] == v:
            res[k] = copy.deepcopy(v)
        elif isinstance(v, dict) and isinstance(b[k], dict):
            res[k] = intersect2(v, b[k])
    return res


def intersect(dicts):
    res = copy.deepcopy(dicts[0])
    for d in dicts[1:]:
        res = intersect2(res, d)
    return res


# ------------------------------------------------------------ static fold
def items_of(node):
    return node[1]


def plain_value(v):
    """A SetContext value of the recipe: {"__odict__": {...}} / {"__context__": {...}} stand for
    a collections.OrderedDict / a lena.context.Context holding that dictionary (a dictionary
    like any other for the fold)."""
    if isinstance(v, dict):
        if len(v) == 1 and next(iter(v)) in ("__odict__", "__context__"):
            return plain_value(next(iter(v.values())))
        return dict((k, plain_value(x)) for k, x in v.items())
    return v


def fold_item(it, ctx, path, rec):
    """Return the static context after *it* given the context *ctx* before it.
    Never mutates *ctx*.  rec[label] = record of every consumer leaf."""
    k = it[0]
    if k == "set":
        _, key, value = it
        value = plain_value(value)
        if is_template(value):
            ok, res = fmt(value, ctx)
            if not ok:
                raise Unresolved(res, path, value)
            value = res
        new = copy.deepcopy(ctx)
        set_path(new, key, copy.deepcopy(value))
        rec.setdefault("#sets", []).append({"path": path, "after": new})
        return new
    if k in CONSUMERS:
        rec[it[1]] = {"kind": k, "path": path, "ctx": copy.deepcopy(ctx), "item": it}
        return ctx
    if k in ("data", "acc"):
        return ctx
    if k in ("seq", "source", "tuple", "bare", "fcseq", "frseq"):
        out = fold_items(it[1], ctx, path, rec)
        rec.setdefault("#nodes", {})[tuple(path)] = copy.deepcopy(out)
        return out
    if k == "split":
        results = []
        for bi, br in enumerate(it[1]):
            res = fold_items(br[1], copy.deepcopy(ctx), path + [bi], rec)
            rec.setdefault("#nodes", {})[tuple(path + [bi])] = copy.deepcopy(res)
            results.append(res)
        out = intersect(results)
        rec.setdefault("#nodes", {})[tuple(path)] = copy.deepcopy(out)
        return out
    raise ValueError("unknown item %r" % (it,))


def fold_items(items, ctx, path, rec):
    for i, it in enumerate(items):
        ctx = fold_item(it, ctx, path + [i], rec)
    return ctx


def fold(tree):
    """-> (final context, rec) or raises Unresolved."""
    rec = {}
    final = fold_item(tree, {}, [], rec)
    return final, rec


# ------------------------------------------------------------ tree walking
def node_at(tree, path):
    n = tree
    for i in path:
        n = n[1][i]
    return n


def walk(tree, path=None):
    """Yield (path, item) for every item of the tree, document order."""
    if path is None:
        path = []
    yield path, tree
    if tree[0] in CONTAINERS:
        for i, ch in enumerate(tree[1]):
            for x in walk(ch, path + [i]):
                yield x


def leaves(tree):
    return [(p, it) for p, it in walk(tree) if it[0] not in CONTAINERS]


def consumers(tree):
    return [(p, it) for p, it in leaves(tree) if it[0] in CONSUMERS]


def affects(tree, q, p):
    """May the leaf at path *q* influence what the leaf at path *p* sees?
    Only if, where the two paths part, the common container is a sequence
    (not a Split) and q's side comes first."""
    t = 0
    while t < len(q) and t < len(p) and q[t] == p[t]:
        t += 1
    if t == len(q) or t == len(p):
        return False          # same leaf (or malformed)
    common = node_at(tree, q[:t])
    if common[0] == "split":
        return False
    return q[t] < p[t]


def relation(tree, q, p):
    """'sibling' if q and p part at a Split, else 'later'."""
    t = 0
    while t < len(q) and t < len(p) and q[t] == p[t]:
        t += 1
    common = node_at(tree, q[:t])
    return "sibling" if common[0] == "split" else "later"


def replace_at(tree, path, fn):
    """Copy of *tree* with the container at *path* replaced by fn(container)."""
    if not path:
        return fn(copy.deepcopy(tree))
    new = copy.deepcopy(tree)
    parent = node_at(new, path[:-1])
    parent[1][path[-1]] = fn(parent[1][path[-1]])
    return new


def depth(tree):
    """Number of Sequence/Source/Split levels (branches count with their Split)."""
    k = tree[0]
    if k not in CONTAINERS:
        return 0
    sub = max([depth(ch) for ch in tree[1]] or [0])
    return sub + (0 if k in ("tuple", "bare") else 1)


def unresolved_candidates(tree):
    """Key components a LenaKeyError of the tree may name: every component of
    every field of a SetContext template that fails when the fold simply skips
    failing SetContext elements (several keys may be unresolved; the property
    does not say which one is named)."""
    names = []
    pending = True
    skipped = []
    work = copy.deepcopy(tree)
    while pending:
        try:
            fold(work)
            pending = False
        except Unresolved as u:
            for f in fields_of(u.template):
                names.extend(p for p in f.split(".") if p)
            skipped.append(u.path)
            parent = node_at(work, u.path[:-1])
            parent[1][u.path[-1]] = ["data", "inc"]      # neutral for the static fold
    return names


# ------------------------------------------------------------ expectations
MKFN_PROBE_CONTEXT = {"r": 0}


def expect_static(recd):
    """Expected observation of a consumer from its model record.
    -> (comparable, value); comparable False = the property fixes no value
    (Write / Cache template that the prefix cannot resolve)."""
    k, ctx, it = recd["kind"], recd["ctx"], recd["item"]
    if k in ("store", "ucfs"):
        return True, ctx
    if k == "mkfn":
        c = copy.deepcopy(MKFN_PROBE_CONTEXT)
        mkfn_apply(it[2], bool(it[3]) if len(it) > 3 else False, ctx, c)
        return True, c.get("output", {})
    if k in ("write", "cache"):
        ok, s = fmt(it[2], ctx)
        if ok:
            return True, s
        return False, it[2]
    raise ValueError(k)


def mkfn_apply(fields, overwrite, static, c):
    """MakeFilename(**fields, overwrite=...) with static context *static* applied to the
    run-time context *c* (in place), as documented: formatting sees static + run-time context
    (run-time first); an EXISTING name / prefix / suffix is looked up in the run-time context
    only - static context reaches a value through UpdateContextFromStatic and not otherwise."""
    for key in ("prefix", "suffix", "filename", "dirname", "fileext"):
        if key not in fields:
            continue
        out = c.get("output") if isinstance(c.get("output"), dict) else None
        if key in ("filename", "dirname", "fileext") and out is not None and key in out \
                and not overwrite:
            continue
        full = copy.deepcopy(static)
        full.update(c)                  # run-time context has precedence
        ok, res = fmt(fields[key], full)
        if not ok:
            continue
        if key in ("prefix", "suffix"):
            existing = out.get(key) if out else None
            if existing and not overwrite:
                res = res + existing if key == "prefix" else existing + res
        elif key == "filename":
            pre = (out.get("prefix", "") if out else "") or ""
            suf = (out.get("suffix", "") if out else "") or ""
            res = pre + res + suf
            if pre:
                del out["prefix"]
            if suf:
                del out["suffix"]
        merge(c, {"output": {key: res}})


# ------------------------------------------------------------ run-time model
def _num(x):
    if isinstance(x, bool):
        return int(x)
    if isinstance(x, (int, float)):
        return x
    return 0


def run_item(it, vals, rec, flows):
    """vals: list of (data, context, passed_ucfs).  Returns a new list."""
    k = it[0]
    if k in ("set", "store", "write", "cache"):
        return vals
    if k == "data":
        name = it[1]
        out = []
        for d, c, u in vals:
            if name == "inc":
                out.append((_num(d) + 1, c, u))
            elif name == "dbl":
                out.append((_num(d) * 2, c, u))
            elif name == "ctx:r":
                c = copy.deepcopy(c)
                c["r"] = _num(d)
                out.append((d, c, u))
            else:
                raise ValueError(name)
        return out
    if k == "ucfs":
        static = rec[it[1]]["ctx"]
        out = []
        for d, c, u in vals:
            c = copy.deepcopy(c)
            merge(c, static)
            out.append((d, c, True))
        return out
    if k == "mkfn":
        static = rec[it[1]]["ctx"]
        fields, overwrite = it[2], bool(it[3]) if len(it) > 3 else False
        out = []
        for d, c, u in vals:
            c = copy.deepcopy(c)
            mkfn_apply(fields, overwrite, static, c)
            out.append((d, c, u))
        return out
    if k in ("seq", "tuple", "bare"):
        for ch in it[1]:
            vals = run_item(ch, vals, rec, flows)
        return vals
    if k == "source":
        own = [(d, copy.deepcopy(c), False) for d, c in flows]
        for ch in it[1]:
            own = run_item(ch, own, rec, flows)
        return own
    if k == "split":
        out = []
        for br in it[1]:
            out.extend(run_item(br, copy.deepcopy(vals), rec, flows))
        return out
    raise ValueError(k)


def run(tree, rec, flow):
    """Expected output values [(data, context, passed_ucfs)] of running the
    tree on *flow* (list of (data, context)); one Split buffer assumed
    (0 < len(flow) <= bufsize)."""
    vals = [(d, copy.deepcopy(c), False) for d, c in flow]
    return run_item(tree, vals, rec, flow)
